"""C07 — estimation returns a feasible point that is a maximum of the stated likelihood.

Workload: seeded concave problems (multinomial logit with linear utilities, normal
linear regression with a fixed scale; N 50-500, K 1-5, weights on/off, fixed
parameters, availabilities) x bound configuration placed relative to the
unconstrained optimum (none / inactive / active / one-sided / several active) x
starting point (default, random inside the bounds, on a bound, at the optimum) x
EVERY name of biogeme.optimization.algorithms plus 'automatic', through
BIOGEME.estimate() and BIOGEME.quick_estimate() of the real code.

Monitors (all observe at the boundary):
  * post-condition on the returned results object (betaValues, logLike, initLogLike,
    g, H, bhhh, convergence) against an independent numpy model of the likelihood with
    analytic derivatives (biomon/oracle/c07_oracle.py) and against the maximum that
    an own projected-Newton solver found and certified by the KKT conditions;
  * recording wrappers around the entries of the algorithm table: what the algorithm
    was given (start, bounds, options, the function object) and what it returned; the
    function object handed over is probed afterwards: it must be minus the stated
    likelihood with minus its derivatives;
  * the formula objects after the call: every Beta object of a free parameter carries
    the estimate, every fixed one its declared value.
Non-convergence is recorded, never a violation. Every estimation runs in its own forked
child (sticky engine error flag). Two hand-made directed cases reproduce the recorded
findings at every run (see findings/C07.md); one of them is a fault injection (the
analytical Hessian of the final evaluation is made non-finite). The thorough tier also
runs 13 files of the repository's own test-suite with the model-independent part of the
post-condition attached to BIOGEME.estimate/quick_estimate (oracle/c07_pytest_plugin.py).

Histories: a second case family takes ONE BIOGEME object through a seeded sequence of 2-4
estimations (estimate / quick_estimate, algorithm and max_iterations changed through the
public parameters in between, change_init_values in between, bootstrap with 1-2 samples)
and applies the same post-conditions after EVERY estimation. "The initial log likelihood"
is judged against the likelihood of the point the run really started from = the vector
BIOGEME handed to the algorithm (recorded by the table hook); on a fresh object and after
change_init_values that vector must also be the declared one.
"""
from __future__ import annotations

import os

import numpy as np

from ..rec import Rec, stable_hash, close

LEVEL = 'exploration'
RULE = (
    'case = (seeded concave problem: logit with linear-in-parameter utilities or normal regression with fixed scale, '
    'N 50-500, K 1-5, random names, weights/availabilities/fixed parameters) x bound configuration '
    '(none, inactive, active, onesided_inactive, onesided_active, multi_active; placed relative to the oracle\'s '
    'unconstrained optimum; 40% of the eligible bounds sit at exactly 0, int or float) x start (default/random/at_bound/at_optimum) x option draw (threads, radius, dogleg, '
    'second_derivatives, iteration limit, save_iterations); every case runs all 8 table algorithms + automatic through '
    'estimate() and a rotating third through quick_estimate(). A run is non-trivial when the oracle certified a unique '
    'finite maximum (KKT residual <= 1e-10 of the gradient scale, Hessian condition < 1e7) and the estimation returned a '
    'results object; distinct = hash(problem, bounds, start, options, algorithm, entry point). 3 hand-made directed cases '
    '(finding reproductions, one with fault injection) are added at every run; thorough adds every estimate()/quick_estimate() '
    'call made by 13 files of the repository\'s own tests, judged by the model-independent contracts (distinct = test, call index). '
    'History family: one BIOGEME object through a seeded sequence of 2-4 estimations (entry point, algorithm, max_iterations, '
    'change_init_values, bootstrap 0/1/2 per step; three fixed opening shapes + random), every step judged; distinct = hash(problem, '
    'sequence prefix)'
)
ASSUMPTIONS = [
    'numpy float64 closed forms of the logit / normal log likelihood and of their gradient, Hessian and BHHH '
    '(self-tested at every run against complex-step / finite differences, a per-row loop, least squares and a grid)',
    'BHHH of a weighted sample is sum_n w_n g_n g_n^T (one power of the weight, as the pinned engine computes it)',
    'KKT conditions are sufficient for a global maximum because every generated problem is concave',
    '"converged" is judged with the library\'s documented stopping quantity, recomputed with the oracle gradient: '
    'max_i |g_i| max(|x_i|,1) / max(|LL(x)|,|LL(start)|,1) over the components not blocked by an active bound, '
    'against 1e-3 (the library tests it against tolerance = 1.22e-4; measured maximum on the unchanged tree 1.22e-4)',
    'agreement on the maximum value: |LL - LL*| <= 1e-5 max(1,|LL*|) f^2 with f = max(1, |LL(start)| / (3 max(1,|LL*|))) '
    '(the LL gap is second order in the gradient and the library scales its gradient test by |LL(start)|; measured maximum '
    'on the unchanged tree 8e-2 of this tolerance)',
    'every estimation runs in its own forked child (the engine is unusable after one engine-side error)',
    'algorithms that ignore bounds (LS-*/TR-*) are compared with the unconstrained maximum',
]
MIN_DISTINCT = {'quick': 800, 'thorough': 4000}
CASE_TIMEOUT = 900

RUN_TIMEOUT = 200  # seconds per estimation (forked child); a watchdog, never a verdict

N_CASES = {'quick': 108, 'thorough': 600}
N_HISTORIES = {'quick': 36, 'thorough': 240}

ALGOS = ['scipy', 'LS-newton', 'TR-newton', 'LS-BFGS', 'TR-BFGS', 'simple_bounds', 'simple_bounds_newton',
         'simple_bounds_BFGS', 'automatic']
BOUND_CAPABLE = {'scipy', 'simple_bounds', 'simple_bounds_newton', 'simple_bounds_BFGS', 'automatic'}
UNSAFEGUARDED = ('LS-newton', 'LS-BFGS', 'TR-newton', 'TR-BFGS')
CONFIGS = ['none', 'inactive', 'active', 'onesided_inactive', 'onesided_active', 'multi_active']
STARTS = ['default', 'random', 'random', 'at_bound', 'at_optimum']

RELGRAD_MAX = 1e-3
LL_AGREE = 1e-5
START_RATIO = 3.0  # |LL(start)| up to 3 |LL*| counts as an ordinary start

# ---------------------------------------------------------------------------------------
# recording wrappers around the algorithm table
# ---------------------------------------------------------------------------------------
_CALLS: list = []
_INSTALLED = False
_CRUMB = None  # path of the breadcrumb file of the estimation that is running (set by the parent before the fork)


def _install_hooks():
    """Replace every entry of biogeme.optimization.algorithms by a recording wrapper
    (harness-side attachment; BIOGEME.optimize looks the entry up at call time)."""
    global _INSTALLED
    if _INSTALLED:
        return
    import biogeme.optimization as opt

    def wrap(entry, fn):
        def recorded(*args, **kwargs):
            call = {'entry': entry, 'args': len(args)}
            names = ['fct', 'init_betas', 'bounds', 'variable_names', 'parameters']
            given = dict(zip(names, args))
            given.update(kwargs)
            call['fct'] = given.get('fct')
            ib = given.get('init_betas')
            call['init_betas'] = None if ib is None else [float(v) for v in ib]
            b = given.get('bounds')
            call['bounds'] = None if b is None else [[None if v is None else float(v) for v in t] for t in b]
            pr = given.get('parameters')
            call['parameters'] = None if pr is None else {str(k): (v if isinstance(v, (int, float, bool, str)) else repr(v)) for k, v in pr.items()}
            f = call['fct']
            call['epsilon'] = getattr(f, 'epsilon', None)
            call['steptol'] = getattr(f, 'steptol', None)
            _CALLS.append(call)
            res = fn(*args, **kwargs)
            try:
                call['solution'] = [float(v) for v in res.solution]
                call['convergence'] = bool(res.convergence)
            except Exception as e:  # noqa
                call['result_error'] = repr(e)
            return res

        recorded.__wrapped__ = fn
        return recorded

    for k in list(opt.algorithms):
        opt.algorithms[k] = wrap(k, opt.algorithms[k])

    # breadcrumb: the function object is asked for a value at a point that is not finite. Written to a file because
    # the engine may take the whole process down right afterwards (seen: signal 11 when NaN parameters reach it
    # with 2 threads), and the parent must still be able to say what kind of run crashed.
    import biogeme.negative_likelihood as nl

    def crumbed(method):
        def with_crumb(self):
            if _CRUMB and self.x is not None and not np.all(np.isfinite(self.x)):
                try:
                    with open(_CRUMB, 'a') as f:
                        f.write('non-finite point handed to the likelihood\n')
                except OSError:
                    pass
            return method(self)

        with_crumb.__wrapped__ = method
        return with_crumb

    for name in ('_f', '_f_g', '_f_g_h'):
        setattr(nl.NegativeLikelihood, name, crumbed(getattr(nl.NegativeLikelihood, name)))
    _INSTALLED = True


def warmup():
    import biogeme.biogeme  # noqa
    import biogeme.database  # noqa
    import biogeme.models  # noqa
    import biogeme.optimization  # noqa

    _install_hooks()


def selftest():
    from ..oracle import c07_oracle

    return c07_oracle.selftest()


# ---------------------------------------------------------------------------------------
# workload
# ---------------------------------------------------------------------------------------
def cases(seed, tier):
    out = []
    n = N_CASES[tier]
    for i in range(n):
        out.append({'seed': seed, 'i': i, 'config': CONFIGS[i % len(CONFIGS)], 'start': STARTS[(i // len(CONFIGS)) % len(STARTS)]})
    # histories: one BIOGEME object through 2-4 estimations
    shapes = ['quick_then_short_estimate', 'estimate_then_estimate', 'estimate_change_quick', 'random', 'random', 'random']
    for h in range(N_HISTORIES[tier]):
        out.append({'seed': seed, 'i': 500000 + h, 'history': True, 'shape': shapes[h % len(shapes)],
                    'config': CONFIGS[(h // len(shapes)) % len(CONFIGS)], 'start': STARTS[h % len(STARTS)]})
    # hand-made problems that reproduce the recorded findings at every run, whatever the seed
    out.insert(0, {'seed': seed, 'i': 900001, 'directed': 'capped_at_start', 'config': 'inactive', 'start': 'default'})
    out.insert(1, {'seed': seed, 'i': 900002, 'directed': 'nan_linesearch', 'config': 'none', 'start': 'default'})
    out.insert(2, {'seed': seed, 'i': 900003, 'directed': 'hessian_fallback', 'config': 'none', 'start': 'default'})
    return out


DEFAULT_OPTIONS = {'number_of_threads': 1, 'save_iterations': False, 'initial_radius': 1.0, 'dogleg': True, 'second_derivatives': 1.0,
                   'max_iterations': 1000, 'enlarging_factor': 10.0, 'infeasible_cg': False}


def _options(case):
    rng = np.random.default_rng([int(case['seed']), int(case['i']), 99])
    o = {
        'number_of_threads': int(rng.choice([1, 1, 2])),
        'save_iterations': bool(rng.random() < 0.25),
        'initial_radius': float(rng.choice([1.0, 1.0, 0.1, 10.0])),
        'dogleg': bool(rng.random() < 0.5),
        'second_derivatives': float(rng.choice([1.0, 1.0, 0.5, 0.0])),
        'max_iterations': int(rng.choice([1000, 1000, 1000, 1000, 1000, 1000, 1, 3])),
        'enlarging_factor': float(rng.choice([10.0, 10.0, 2.0])),
        'infeasible_cg': bool(rng.random() < 0.3),
    }
    return o


def _all_betas(expr, seen=None, out=None):
    """every Beta OBJECT reachable from a formula (id()-keyed: Expression.__eq__ builds nodes)"""
    from biogeme.expressions import Beta

    if seen is None:
        seen, out = set(), []
    if id(expr) in seen:
        return out
    seen.add(id(expr))
    if isinstance(expr, Beta):
        out.append(expr)
    for c in expr.get_children():
        _all_betas(c, seen, out)
    return out


def _prepare(case):
    """problem, oracle maxima, bounds and start of one case; returns (ctx, None) or (None, rejection reason)"""
    from ..gen import c07_problems as gp
    from ..oracle import c07_oracle as orc

    if case.get('directed'):
        spec, data = gp.directed_problem(case['directed'])
    else:
        spec, data = gp.make_problem(case['seed'], case['i'])
    free = sorted(k for k, v in spec['params'].items() if v['status'] == 0)
    K = len(free)
    model = orc.Model(spec, data, free)
    u = orc.maximise(model, np.zeros(K))
    if not u['ok']:
        return None, 'rejected_oracle_unconstrained_not_certified'
    condH = np.linalg.cond(u['H'])
    typ = np.array([spec['params'][k].get('typ', 1.0) for k in free])
    if not np.isfinite(condH) or condH > 1e7 or np.max(np.abs(u['x']) / typ) > 12:
        return None, 'rejected_ill_conditioned_or_quasi_separated'
    if not case.get('directed'):
        rng = np.random.default_rng([int(case['seed']), int(case['i']), 31])
        gp.configure(spec, dict(zip(free, (float(v) for v in u['x']))), case['config'], case['start'], rng)
    P = spec['params']
    ctx = {'case': case, 'spec': spec, 'data': data, 'free': free, 'model': model, 'u': u, 'P': P}
    ctx['lbd'] = {k: P[k]['lb'] for k in free}
    ctx['ubd'] = {k: P[k]['ub'] for k in free}
    ctx['startd'] = {k: P[k]['start'] for k in free}
    ctx['lo'], ctx['hi'] = orc._bounds_arrays([ctx['lbd'][k] for k in free], [ctx['ubd'][k] for k in free], K)
    c = orc.maximise(model, [ctx['startd'][k] for k in free], [ctx['lbd'][k] for k in free], [ctx['ubd'][k] for k in free])
    if not c['ok']:
        return None, 'rejected_oracle_constrained_not_certified'
    ctx['c'] = c
    ctx['ll_start'] = float(model.all([ctx['startd'][k] for k in free], second=False)[0])
    ctx['gscale'] = model.grad_scale()
    # bounds that are binding at the certified constrained maximum (non-zero multiplier)
    ctx['binding'] = {k for j, k in enumerate(free) if (c['x'][j] <= ctx['lo'][j] or c['x'][j] >= ctx['hi'][j])
                      and abs(c['g'][j]) > 1e-7 * ctx['gscale']}
    ctx['opts'] = dict(DEFAULT_OPTIONS) if case.get('directed') else _options(case)
    ctx['spec_hash'] = stable_hash([spec, {k: np.asarray(v).tolist() for k, v in data.items()}, ctx['opts']])
    return ctx, None


def _plan(case):
    if case.get('directed'):
        from ..gen import c07_problems as gp

        return [tuple(r) for r in gp.DIRECTED[case['directed']][1]]
    plan = []
    for idx, algo in enumerate(ALGOS):
        plan.append((algo, 'estimate'))
        if (case['i'] // 6 + idx) % 3 == 0:
            plan.append((algo, 'quick_estimate'))
    return plan


def run_case(case):
    from ..worker import run_forked

    rec = Rec(case)
    _install_hooks()
    ctx, why = _prepare(case)
    if ctx is None:
        rec.c(why)
        return rec.out()
    spec, free, P, opts, u, c, binding = ctx['spec'], ctx['free'], ctx['P'], ctx['opts'], ctx['u'], ctx['c'], ctx['binding']
    K = len(free)
    if case['config'] in ('active', 'onesided_active', 'multi_active') and not binding:
        rec.inconc('generator placed no binding bound in an "active" configuration')
    rec.c('config_' + case['config'])
    rec.c('start_' + case['start'])
    rec.c('family_' + spec['family'])
    rec.c('form_' + spec['form'])
    rec.c('weights_on' if spec['weight'] else 'weights_off')
    rec.c('beta_objects_' + spec['beta_objects'])
    if case.get('directed'):
        rec.c('directed_cases')
    if opts['max_iterations'] < 10:
        rec.c('cases_with_iteration_limit')
    if binding:
        rec.c('cases_with_binding_bound')
    zero_bounds = [k for k in free if any(b is not None and b == 0 for b in (ctx['lbd'][k], ctx['ubd'][k]))]
    if zero_bounds:
        rec.c('cases_with_a_declared_bound_at_exactly_0')
    if any(k in binding for k in zero_bounds):
        rec.c('cases_with_a_binding_bound_at_exactly_0')
    rec.sample({'family': spec['family'], 'N': spec['N'], 'K': K, 'weight': spec['weight'], 'config': case['config'],
                'params': P, 'options': opts, 'oracle_unconstrained_max': u['ll'], 'oracle_constrained_max': c['ll'],
                'oracle_constrained_argmax': dict(zip(free, c['x'].tolist())), 'binding_bounds': sorted(binding)})
    finals = {}  # algorithm -> final LL of the estimate() runs that reported convergence
    runs_info = []
    import tempfile

    if case.get('history'):
        return _run_history_case(rec, case, ctx)

    global _CRUMB
    _CRUMB = os.path.join(os.environ.get('BIOMON_WORKDIR') or tempfile.gettempdir(), f'c07_crumb_{os.getpid()}_{case["i"]}')
    for algo, mode in _plan(case):
        if os.path.exists(_CRUMB):
            os.remove(_CRUMB)
        # every estimation in its own forked child: after ONE engine-side error nothing in the process can be
        # trusted any more (sticky error flag; a later evaluation with 2 threads even segfaults)
        out = run_forked(lambda _a, algo=algo, mode=mode: _one_run(ctx, algo, mode), None, RUN_TIMEOUT)
        tag = f'{algo}/{mode}'
        if out.get('timeout'):
            rec.c('run_timeouts')  # never a verdict; too many of them make the run inconclusive (finalize)
            continue
        if 'crash_signal' in out:
            if out['crash_signal'] == 9:
                rec.inconc(f'{tag} killed by signal 9')
            elif os.path.exists(_CRUMB) and algo in ('LS-newton', 'LS-BFGS', 'TR-newton', 'TR-BFGS'):
                rec.c(f'raised_{algo}')
                rec.violation('C07/unsafeguarded-algorithm-continues-from-non-finite-likelihood',
                              f'[{tag}] the process died with signal {out["crash_signal"]} inside the engine after the algorithm went on from a '
                              f'non-finite iterate (NaN parameters handed to the engine, {opts["number_of_threads"]} threads)',
                              {'case': case, 'algorithm': algo, 'entry_point': mode, 'params': P, 'options': opts})
            else:
                rec.violation(f'C07/native-crash-signal-{out["crash_signal"]}', f'[{tag}] process died with signal {out["crash_signal"]}',
                              {'case': case, 'algorithm': algo, 'entry_point': mode, 'params': P, 'options': opts})
            continue
        if 'harness_error' in out:
            raise RuntimeError(f'harness error in {tag}: {out["harness_error"]} {out.get("tb", "")[-1500:]}')
        rec.n += out['n']
        rec.keys.update(out['keys'])
        for k, v in out['cov'].items():
            rec.c(k, v)
        for v in out['viol']:
            if len(rec.viol) < 60:
                rec.viol.append(v)
        rec.inconclusive += out['inconclusive']
        info = out.get('info') or {}
        if info:
            runs_info.append(info)
        if info.get('converged') and mode == 'estimate' and info.get('judged') and not info.get('capped'):
            finals[algo] = info['ll']
    if os.path.exists(_CRUMB):
        os.remove(_CRUMB)
    rec.info['runs'] = runs_info
    # all algorithms agree on the maximum value (among those that reported convergence and solve the same problem:
    # bound-capable ones solve the bounded problem, the others ignore the bounds)
    has_bounds = any(ctx['lbd'][k] is not None or ctx['ubd'][k] is not None for k in free)
    groups = [set(ALGOS)] if not has_bounds else [set(BOUND_CAPABLE), set(ALGOS) - BOUND_CAPABLE]
    for names_in_group in groups:
        pool = {a: v for a, v in finals.items() if a in names_in_group}
        if len(pool) >= 2:
            rec.ev()
            rec.c('agreement_groups_compared')
            rec.c('agreement_algorithms_compared', len(pool))
            a_hi = max(pool, key=lambda a: pool[a])
            a_lo = min(pool, key=lambda a: pool[a])
            if pool[a_hi] - pool[a_lo] > _ll_tol(pool[a_hi], ctx['ll_start']):
                rec.violation('C07/converged-algorithms-disagree-on-maximum',
                              f'{a_hi} reports LL={pool[a_hi]!r}, {a_lo} reports LL={pool[a_lo]!r} (both converged, same problem)',
                              {'case': case, 'finals': finals, 'params': P, 'options': opts})
    return rec.out()


def _run_history_case(rec, case, ctx):
    import tempfile

    from ..worker import run_forked

    global _CRUMB
    _CRUMB = os.path.join(os.environ.get('BIOMON_WORKDIR') or tempfile.gettempdir(), f'c07_crumb_{os.getpid()}_{case["i"]}')
    if os.path.exists(_CRUMB):
        os.remove(_CRUMB)
    out = run_forked(lambda _a: _history_run(ctx), None, 2 * RUN_TIMEOUT)
    crumb = os.path.exists(_CRUMB)
    if crumb:
        os.remove(_CRUMB)
    if out.get('timeout'):
        rec.c('run_timeouts')
    elif 'crash_signal' in out:
        if out['crash_signal'] == 9:
            rec.inconc('history killed by signal 9')
        else:
            rec.violation(f'C07/native-crash-signal-{out["crash_signal"]}' if not crumb else
                          'C07/unsafeguarded-algorithm-continues-from-non-finite-likelihood',
                          f'[history] process died with signal {out["crash_signal"]}' + (' after a non-finite point was handed to the likelihood' if crumb else ''),
                          {'case': case, 'params': ctx['P'], 'options': ctx['opts']})
    elif 'harness_error' in out:
        raise RuntimeError(f'harness error in history: {out["harness_error"]} {out.get("tb", "")[-1500:]}')
    else:
        rec.n += out['n']
        rec.keys.update(out['keys'])
        for k, v in out['cov'].items():
            rec.c(k, v)
        rec.viol += out['viol'][:60]
        rec.inconclusive += out['inconclusive']
        rec.info['steps'] = (out.get('info') or {}).get('steps')
    return rec.out()


def _ll_tol(ll_max, ll_start):
    """agreement tolerance on the maximum value. The library stops on the relative gradient with typical function
    value max(|LL(start)|,1); the LL gap is second order in the gradient, hence the quadratic factor for poor starts."""
    return LL_AGREE * max(1.0, abs(ll_max)) * max(1.0, abs(ll_start) / (START_RATIO * max(1.0, abs(ll_max)))) ** 2


def _nonfinite_evaluations(fct):
    """points at which the function object handed to the algorithm returned a non-finite value or gradient
    (its cache is keyed by the bytes of the point)"""
    n = 0
    try:
        for v in getattr(fct, 'stored_values', {}).values():
            if v is None or not np.isfinite(v):
                n += 1
        for store in ('stored_gradient', 'stored_hessian'):
            for v in getattr(fct, store, {}).values():
                if not np.isfinite(v.function) or not np.all(np.isfinite(v.gradient)):
                    n += 1
    except Exception:  # noqa
        pass
    return n


def _one_run(ctx, algo, mode):
    from ..gen import c07_problems as gp
    import biogeme.biogeme as bio

    case, spec, data, free, model, u, c = ctx['case'], ctx['spec'], ctx['data'], ctx['free'], ctx['model'], ctx['u'], ctx['c']
    startd = ctx['startd']
    opts = ctx['opts']
    rec = Rec(case)
    tag = f'{algo}/{mode}'
    wit = _witness_base(ctx, algo, mode)

    def viol(mech, msg, **kw):
        w = dict(wit)
        w.update(kw)
        rec.violation('C07/' + mech, f'[{tag}] {msg}', w)

    db, formulas, made = gp.build(spec, data)
    pr = _parameters(opts, algo)
    if opts['save_iterations']:
        # the default path reads/writes __<model>.iter in cwd: every run (a forked child) gets a fresh directory and stays there
        import tempfile

        os.chdir(tempfile.mkdtemp(prefix=f'c07_{case["i"]}_', dir=os.environ.get('BIOMON_WORKDIR', os.getcwd())))
    del _CALLS[:]
    inject_nan_hessian = case.get('directed') == 'hessian_fallback'
    try:
        bg = bio.BIOGEME(db, formulas, parameters=pr)
        bg.modelName = f'c07_{case["i"]}'
        if inject_nan_hessian:
            # fault injection at the boundary: the analytical Hessian of the FINAL evaluation of estimate()
            # (the only call with hessian=True and bhhh=True) fails numerically
            from biogeme.function_output import BiogemeFunctionOutput

            real_eval = bg.calculate_likelihood_and_derivatives

            def faulty(x, scaled, hessian=False, bhhh=False, batch=None):
                o = real_eval(x, scaled=scaled, hessian=hessian, bhhh=bhhh, batch=batch)
                if hessian and bhhh:
                    rec.c('nan_hessian_injected')
                    return BiogemeFunctionOutput(function=o.function, gradient=o.gradient,
                                                 hessian=np.full_like(np.asarray(o.hessian, dtype=float), np.nan), bhhh=o.bhhh)
                return o

            bg.calculate_likelihood_and_derivatives = faulty
        try:
            res = getattr(bg, mode)()
        finally:
            if inject_nan_hessian:
                del bg.calculate_likelihood_and_derivatives
    except BaseException as e:  # noqa  (a concave model with a finite maximum must be estimable)
        import traceback

        _classify_exception(rec, viol, e, algo, mode, traceback.format_exc())
        return rec.out()
    _judge(rec, ctx, bg, formulas, made, res, list(_CALLS), algo, mode,
           {'tag': tag, 'wit': wit, 'expected_start': dict(startd), 'max_iterations': opts['max_iterations'],
            'inject_nan_hessian': inject_nan_hessian, 'key': [algo, mode], 'probe_fresh': True, 'info': rec.info})
    return rec.out()



def _witness_base(ctx, algo, mode):
    spec, free, c, u = ctx['spec'], ctx['free'], ctx['c'], ctx['u']
    return {'case': ctx['case'], 'algorithm': algo, 'entry_point': mode, 'params': ctx['P'], 'options': ctx['opts'], 'family': spec['family'],
            'N': spec['N'], 'weight': spec['weight'], 'form': spec['form'], 'beta_objects': spec['beta_objects'],
            'oracle_constrained': {'x': dict(zip(free, c['x'].tolist())), 'LL': c['ll']},
            'oracle_unconstrained': {'x': dict(zip(free, u['x'].tolist())), 'LL': u['ll']}, 'likelihood_at_declared_start': ctx['ll_start']}


def _parameters(opts, algo):
    from biogeme.parameters import Parameters

    pr = Parameters()
    pr.set_value('optimization_algorithm', algo, 'Estimation')
    pr.set_value('save_iterations', opts['save_iterations'], 'Estimation')
    pr.set_value('generate_html', False, 'Output')
    pr.set_value('generate_pickle', False, 'Output')
    pr.set_value('number_of_threads', opts['number_of_threads'], 'MultiThreading')
    pr.set_value('initial_radius', opts['initial_radius'], 'SimpleBounds')
    pr.set_value('dogleg', opts['dogleg'], 'TrustRegion')
    pr.set_value('second_derivatives', opts['second_derivatives'], 'SimpleBounds')
    pr.set_value('max_iterations', opts['max_iterations'], 'SimpleBounds')
    pr.set_value('enlarging_factor', opts['enlarging_factor'], 'SimpleBounds')
    pr.set_value('infeasible_cg', opts['infeasible_cg'], 'SimpleBounds')
    return pr


def _classify_exception(rec, viol, e, algo, mode, tb):
    """an exception out of estimate()/quick_estimate() on a concave model with a finite maximum"""
    nf = _nonfinite_evaluations(_CALLS[0]['fct']) if _CALLS else 0
    rec.c(f'raised_{algo}')
    if algo in UNSAFEGUARDED and nf:
        viol('unsafeguarded-algorithm-continues-from-non-finite-likelihood',
             f'{mode}() raised {type(e).__name__}: {str(e)[:300]} after the algorithm accepted an iterate whose likelihood is not finite '
             f'({nf} non-finite evaluations in the function object)', traceback=tb[-1500:])
    else:
        viol(f'{mode}-raises-{type(e).__name__}', f'{type(e).__name__}: {e}', traceback=tb[-1500:])


def _judge(rec, ctx, bg, formulas, made, res, calls, algo, mode, step):
    """post-conditions of ONE estimation (observed at the boundary), whatever happened to the object before.
    step: tag, wit, expected_start (dict by name, or None when the statement does not fix it), max_iterations,
    inject_nan_hessian, key, probe_fresh"""
    from ..oracle import c07_oracle as orc

    case, spec, free, model, u, c = ctx['case'], ctx['spec'], ctx['free'], ctx['model'], ctx['u'], ctx['c']
    lo, hi, lbd, ubd = ctx['lo'], ctx['hi'], ctx['lbd'], ctx['ubd']
    gscale, binding, opts, P = ctx['gscale'], ctx['binding'], ctx['opts'], ctx['P']
    K = len(free)
    tag, wit, inject_nan_hessian = step['tag'], step['wit'], step['inject_nan_hessian']
    unsafeguarded = algo in UNSAFEGUARDED

    def viol(mech, msg, **kw):
        w = dict(wit)
        w.update(kw)
        rec.violation('C07/' + mech, f'[{tag}] {msg}', w)

    d = res.data
    rec.c(f'run_{algo}_{case["config"]}')
    rec.c(f'runs_{mode}')
    rec.c(f'runs_{algo}_{mode}')
    rec.key(stable_hash([ctx['spec_hash']] + list(step['key'])))
    info = step.setdefault('info', {})
    info.update({'algo': algo, 'mode': mode, 'i': case['i']})

    # ---- what was returned, by NAME -----------------------------------------------------
    names = list(d.betaNames)
    if sorted(names) != free:
        viol('results-parameter-names-differ-from-free-parameters', f'betaNames={names} free parameters={free}')
        return
    perm = [free.index(nm) for nm in names]  # library position -> oracle position
    Pm = np.zeros((K, K))
    for i_lib, j in enumerate(perm):
        Pm[i_lib, j] = 1.0
    xlib = np.array([float(v) for v in d.betaValues])
    x = np.empty(K)
    x[perm] = xlib  # oracle order
    wit['returned'] = {'betaNames': names, 'betaValues': xlib.tolist(), 'logLike': d.logLike, 'initLogLike': d.initLogLike,
                       'convergence': d.convergence, 'messages': {str(k): str(v) for k, v in (d.optimizationMessages or {}).items()}}
    nf = _nonfinite_evaluations(calls[0]['fct']) if calls else 0
    if nf:
        rec.c('runs_that_met_non_finite_likelihood_' + algo)
    if not np.all(np.isfinite(xlib)) or d.logLike is None or not np.isfinite(d.logLike):
        if unsafeguarded and nf:
            viol('unsafeguarded-algorithm-continues-from-non-finite-likelihood',
                 f'{mode}() returned betaValues={xlib.tolist()} logLike={d.logLike!r} after the algorithm accepted an iterate whose likelihood '
                 f'is not finite ({nf} non-finite evaluations in the function object)')
        else:
            viol('estimates-or-loglike-not-finite', f'betaValues={xlib.tolist()} logLike={d.logLike!r}')
        return
    ll, g, H, B = model.all(x)
    bounded_algo = algo in BOUND_CAPABLE
    # the point this run REALLY started from = what BIOGEME handed to the algorithm (recorded by the table hook);
    # "the initial log likelihood" of the statement is the likelihood of that point
    expected = step['expected_start']
    actual = None
    if calls and calls[0].get('init_betas') is not None and len(calls[0]['init_betas']) == K:
        actual = dict(zip(names, (float(v) for v in calls[0]['init_betas'])))
    startd = actual if actual is not None else (expected if expected is not None else ctx['startd'])
    ll_start = float(model.all([startd[k] for k in free], second=False)[0])
    wit['start_handed_to_algorithm'] = actual
    wit['start_expected'] = expected
    wit['likelihood_at_actual_start'] = ll_start
    if actual is not None and expected is not None:
        rec.ev()
        if any(abs(actual[k] - float(expected[k])) > 1e-15 * max(1.0, abs(float(expected[k]))) for k in free):
            viol('run-did-not-start-from-the-declared-starting-values',
                 f'declared / changed starting values {expected}, the algorithm was started at {actual}')
        else:
            rec.c('algorithm_started_at_declared_start')
    conv = bool(d.convergence)
    rec.c(('converged_' if conv else 'not_converged_') + algo)
    info.update({'converged': conv, 'll': float(d.logLike), 'judged': True})

    # ---- (1) feasibility -------------------------------------------------------------------
    if bounded_algo:
        rec.ev()
        outside = [(free[j], x[j], lo[j], hi[j]) for j in range(K) if x[j] < lo[j] - 1e-9 or x[j] > hi[j] + 1e-9]
        if outside:
            viol('estimate-outside-declared-bounds', '; '.join(f'{n}={v!r} not in [{a},{b}]' for n, v, a, b in outside))
        if binding and all(min(abs(x[free.index(k)] - lo[free.index(k)]), abs(x[free.index(k)] - hi[free.index(k)])) <= 1e-9 for k in binding):
            rec.c('estimate_on_binding_bound_' + algo)

    # ---- (2) final vs initial log likelihood --------------------------------------------------
    rec.ev()
    # a start outside the declared bounds (only seen when the saved-iteration file of an earlier run with a bound-ignoring
    # algorithm is loaded) is outside the quantifier: no feasible point need be as good as an infeasible start
    xs = np.array([startd[k] for k in free], dtype=float)
    infeasible_start = bool(bounded_algo and (np.any(xs < lo - 1e-12) or np.any(xs > hi + 1e-12)))
    if infeasible_start:
        rec.c('runs_started_outside_the_declared_bounds')
    if mode == 'estimate':
        if d.initLogLike is None or not close(d.initLogLike, ll_start, 1e-9, 1e-9):
            viol('initloglike-differs-from-likelihood-at-start',
                 f'initLogLike={d.initLogLike!r} but the likelihood at the point the algorithm was started from ({startd}) is {ll_start!r}')
        elif not infeasible_start and d.logLike < d.initLogLike - 1e-9 * max(1.0, abs(d.initLogLike)):
            viol('final-loglike-below-initial', f'logLike={d.logLike!r} < initLogLike={d.initLogLike!r}')
    else:
        rec.c('quick_estimate_initloglike_' + ('none' if d.initLogLike is None else 'given'))
        if d.initLogLike is not None and not close(d.initLogLike, ll_start, 1e-9, 1e-9):
            # quick_estimate documents that it skips the initial log likelihood; a number that is reported must still be right
            viol('quick_estimate-reports-initloglike-of-another-start',
                 f'initLogLike={d.initLogLike!r} but the likelihood at the point the algorithm was started from ({startd}) is {ll_start!r}')
    if not infeasible_start and d.logLike < ll_start - 1e-9 * max(1.0, abs(ll_start)):
        viol('final-loglike-below-likelihood-at-start', f'logLike={d.logLike!r} < likelihood at the starting point {ll_start!r}')

    # ---- (3) reported value is the likelihood at the returned estimates ---------------------------
    rec.ev()
    if not close(d.logLike, ll, 1e-9, 1e-9):
        viol('loglike-differs-from-likelihood-at-estimates', f'logLike={d.logLike!r} oracle likelihood at betaValues={ll!r}')
    try:
        again = float(bg.calculate_likelihood(list(xlib), scaled=False))
        rec.ev()
        if not close(d.logLike, again, 1e-10, 1e-10):
            viol('loglike-differs-from-recomputed-on-same-object', f'logLike={d.logLike!r} calculate_likelihood(betaValues)={again!r}')
    except BaseException as e:  # noqa
        viol(f'recompute-raises-{type(e).__name__}', str(e))
        return

    # ---- (4) reported derivatives ---------------------------------------------------------------
    if mode == 'estimate':
        g_l, H_l, B_l = Pm @ g, Pm @ H @ Pm.T, Pm @ B @ Pm.T  # oracle values in library order
        for label, got, ref, tol in (('gradient', d.g, g_l, 1e-9 * gscale),
                                     ('hessian', d.H, H_l, 1e-9 * max(1.0, np.abs(H_l).max())),
                                     ('bhhh', d.bhhh, B_l, 1e-9 * max(1.0, np.abs(B_l).max()))):
            rec.ev()
            if got is None:
                viol(f'{label}-missing-after-estimate', f'results.data has no {label}')
                continue
            got = np.asarray(got, dtype=float)
            if label == 'hessian' and inject_nan_hessian:
                # documented reaction to a non-finite analytical Hessian: "Finite differences is tried instead"
                rec.c('hessian_fallback_observed')
                if got.shape != ref.shape or not np.all(np.isfinite(got)) or np.max(np.abs(got - ref)) > 1e-4 * max(1.0, np.abs(ref).max()):
                    viol('finite-difference-hessian-fallback-not-used',
                         f'the analytical Hessian of the final evaluation was non-finite (injected); reported H={got.tolist()}, Hessian of the '
                         f'likelihood at the estimates={ref.tolist()}, likelihood_finite_difference_hessian(betaValues)='
                         f'{np.asarray(bg.likelihood_finite_difference_hessian(list(xlib))).tolist()}')
                continue
            if got.shape != ref.shape or not np.all(np.isfinite(got)) or np.max(np.abs(got - ref)) > tol + 1e-9 * np.abs(ref).max():
                viol(f'{label}-differs-from-derivative-at-estimates',
                     f'reported {label}={got.tolist()} oracle={ref.tolist()} (tolerance {tol:.3g})')
        try:
            fo = bg.calculate_likelihood_and_derivatives(list(xlib), scaled=False, hessian=True, bhhh=True)
            rec.ev()
            if d.g is not None and d.H is not None and d.bhhh is not None and not inject_nan_hessian and not (
                    close(d.g, fo.gradient, 1e-9, 1e-9 * gscale) and close(d.H, fo.hessian, 1e-9, 1e-9 * max(1.0, np.abs(H).max()))
                    and close(d.bhhh, fo.bhhh, 1e-9, 1e-9 * max(1.0, np.abs(B).max()))):
                viol('derivatives-differ-from-recomputed-on-same-object', 'g/H/bhhh differ from calculate_likelihood_and_derivatives(betaValues)')
        except BaseException as e:  # noqa
            viol(f'recompute-derivatives-raises-{type(e).__name__}', str(e))
            return
    else:
        rec.c('quick_estimate_derivatives_' + ('none' if d.g is None and d.H is None and d.bhhh is None else 'given'))

    # ---- (5) reported convergence on a concave problem ---------------------------------------------
    lo_a, hi_a = (lo, hi) if bounded_algo else (np.full(K, -np.inf), np.full(K, np.inf))
    relpg, pg = orc.relative_projected_gradient(x, ll, g, lo_a, hi_a, typf=abs(ll_start))
    best = c if bounded_algo else u
    feasible = bool(np.all(x >= lo_a - 1e-9) and np.all(x <= hi_a + 1e-9))
    gap = best['ll'] - d.logLike
    info.update({'relpg': relpg, 'gap': gap, 'llmax': best['ll'], 'll_start': ll_start,
                 'cause': str((d.optimizationMessages or {}).get('Cause of termination'))})
    if feasible and gap < -1e-7 * max(1.0, abs(best['ll'])):
        rec.inconc(f'oracle maximum beaten by {tag}: {d.logLike!r} > {best["ll"]!r}')
    if conv:
        rec.ev(2)
        rec.c('relgrad_le_1e-6' if relpg <= 1e-6 else 'relgrad_le_1e-5' if relpg <= 1e-5 else 'relgrad_le_1e-4' if relpg <= 1e-4
              else 'relgrad_le_1e-3' if relpg <= 1e-3 else 'relgrad_gt_1e-3')
        tol_ll = _ll_tol(best['ll'], ll_start)
        if relpg > RELGRAD_MAX or abs(gap) > tol_ll:
            # shape of the failure: the library's own measure P(x+g)-x is small only because the step towards a
            # declared bound is capped by the distance to that bound, while x is NOT on the bound
            capped = library_measure = None
            if bounded_algo and algo != 'scipy':
                library_measure = orc.library_projected_measure(x, ll, g, lo, hi, typf=abs(ll_start))
                capped = library_measure <= RELGRAD_MAX < relpg
            info['capped'] = bool(capped)
            if capped:
                viol('converged-on-projected-step-capped-by-distance-to-bound',
                     f'convergence reported ({info["cause"]}) at a point that is not on the bound: relative gradient in the unblocked directions '
                     f'{relpg:.3g}, LL={d.logLike!r} vs bound-constrained maximum {best["ll"]!r}; the measure P(x+g)-x is {library_measure:.3g} '
                     f'only because the step is cut at the bound; gradient={pg.tolist()} at {dict(zip(free, x.tolist()))}',
                     bounds={k: [lbd[k], ubd[k]] for k in free})
            else:
                if relpg > RELGRAD_MAX:
                    viol('converged-with-nonvanishing-gradient',
                         f'convergence reported but the relative gradient in the unblocked directions is {relpg:.3g} (> {RELGRAD_MAX}); '
                         f'projected gradient={pg.tolist()} at {dict(zip(free, x.tolist()))}; cause: {info["cause"]}')
                if abs(gap) > tol_ll:
                    viol('converged-away-from-maximum',
                         f'convergence reported at LL={d.logLike!r} but the {"bound-constrained" if bounded_algo else "unconstrained"} maximum is '
                         f'{best["ll"]!r} (tolerance {tol_ll:.3g}); cause: {info["cause"]}')
    else:
        rec.c('not_converged_' + ('with_iteration_limit' if step['max_iterations'] < 10 else 'without_iteration_limit'))

    # ---- (6) packaging: results vs what the algorithm returned ----------------------------------------
    if not calls:
        rec.inconc(f'algorithm-table hook saw no call during {tag}')
    else:
        call = calls[0]
        rec.c('hook_calls_seen')
        expect_entry = 'simple_bounds' if algo == 'automatic' else algo
        rec.ev()
        if call['entry'] != expect_entry:
            viol('algorithm-table-entry-differs-from-requested', f'requested {algo}, table entry called: {call["entry"]}')
        wit['algorithm_call'] = {k: call.get(k) for k in ('entry', 'init_betas', 'bounds', 'parameters', 'epsilon', 'steptol', 'solution', 'convergence')}
        if 'solution' in call:
            rec.ev(2)
            if len(call['solution']) != K or any(a != b for a, b in zip(call['solution'], xlib.tolist())):
                viol('results-estimates-differ-from-algorithm-solution', f'algorithm returned {call["solution"]}, betaValues={xlib.tolist()}')
            if call['convergence'] != conv:
                viol('results-convergence-flag-differs-from-algorithm', f'algorithm returned convergence={call["convergence"]}, results say {conv}')
        # plumbing is recorded for coverage (no verdict: the statement constrains the outcome, not the hand-over)
        if call['bounds'] is not None and len(call['bounds']) == K and all(
                call['bounds'][i_lib] == [lbd[nm], ubd[nm]] for i_lib, nm in enumerate(names)):
            rec.c('algorithm_received_declared_bounds')
        if (call['parameters'] or {}).get('maxiter') == step['max_iterations']:
            rec.c('algorithm_received_iteration_limit')
        if (call['parameters'] or {}).get('radius') == opts['initial_radius']:
            rec.c('algorithm_received_radius')
        # the function object the algorithm minimised must be MINUS the stated likelihood
        fct = call.get('fct')
        if fct is not None:
            rng = np.random.default_rng([int(case['seed']), int(case['i']), 5])
            x0 = np.array([startd[nm] for nm in names], dtype=float)
            typ = np.array([P[nm].get('typ', 1.0) for nm in names])
            for where, xp in (('start', x0), ('fresh', x0 + typ * rng.uniform(-0.05, 0.05, K)))[:2 if step['probe_fresh'] else 1]:
                xo = np.empty(K)
                xo[perm] = xp
                l_o, g_o, H_o, _ = model.all(xo)
                try:
                    fct.set_variables(np.array(xp))
                    fv = float(fct.f())
                    fg = fct.f_g()
                    fh = fct.f_g_h()
                except BaseException as e:  # noqa
                    viol(f'minimised-function-raises-{type(e).__name__}', f'probing the function object at the {where} point: {e}')
                    break
                rec.ev(3)
                rec.c('function_object_probed')
                tolg = 1e-9 * gscale + 1e-9 * np.abs(g_o).max()
                tolH = 1e-9 * max(1.0, np.abs(H_o).max())
                if not (close(fv, -l_o, 1e-9, 1e-9) and close(fg.function, -l_o, 1e-9, 1e-9) and close(fh.function, -l_o, 1e-9, 1e-9)):
                    viol('minimised-function-value-not-minus-likelihood', f'at the {where} point f={fv!r}, f_g.function={fg.function!r}, -LL={-l_o!r}')
                if np.max(np.abs(np.asarray(fg.gradient) + Pm @ g_o)) > tolg or np.max(np.abs(np.asarray(fh.gradient) + Pm @ g_o)) > tolg:
                    viol('minimised-function-gradient-not-minus-gradient',
                         f'at the {where} point gradient={np.asarray(fg.gradient).tolist()} expected {(-(Pm @ g_o)).tolist()}')
                if fh.hessian is None or np.max(np.abs(np.asarray(fh.hessian) + Pm @ H_o @ Pm.T)) > tolH:
                    viol('minimised-function-hessian-not-minus-hessian',
                         f'at the {where} point hessian={None if fh.hessian is None else np.asarray(fh.hessian).tolist()} expected {(-(Pm @ H_o @ Pm.T)).tolist()}')

    # ---- (7) get_beta_values and write-back into the formulas ---------------------------------------------
    try:
        gb = res.get_beta_values()
        rec.ev()
        if sorted(gb) != free or any(float(gb[nm]) != float(xlib[i_lib]) for i_lib, nm in enumerate(names)):
            viol('get_beta_values-differs-from-betaValues', f'get_beta_values()={gb} betaValues={dict(zip(names, xlib.tolist()))}')
    except BaseException as e:  # noqa
        viol(f'get_beta_values-raises-{type(e).__name__}', str(e))
    objs = []
    seen = set()
    for f in list(bg.formulas.values()) + list(formulas.values()):
        for b in _all_betas(f):
            if id(b) not in seen:
                seen.add(id(b))
                objs.append(b)
    for b in made:
        if id(b) not in seen:
            seen.add(id(b))
            objs.append(b)
    est = dict(zip(names, xlib.tolist()))
    stale = [(b.name, b.initValue, est[b.name]) for b in objs if b.status == 0 and b.name in est and float(b.initValue) != float(est[b.name])]
    touched = [(b.name, b.initValue, P[b.name]['value']) for b in objs if b.status != 0 and float(b.initValue) != float(P[b.name]['value'])]
    rec.ev(2)
    rec.c('beta_objects_inspected', len(objs))
    if any(b.status != 0 for b in objs):
        rec.c('runs_with_fixed_parameters')
    if stale:
        viol(f'formula-start-values-not-updated-after-{mode}',
             'after the call the Beta objects of the formulas still hold ' + ', '.join(f'{n}={v!r} (estimate {e!r})' for n, v, e in stale[:6]))
    if touched:
        viol('fixed-parameter-changed', ', '.join(f'{n}: now {v!r}, declared {e!r}' for n, v, e in touched[:6]))
    return


# ---------------------------------------------------------------------------------------
# histories: ONE BIOGEME object taken through a seeded sequence of 2-4 estimations
# ---------------------------------------------------------------------------------------
def _history(case, ctx):
    """seeded sequence of steps; every third history starts with the shapes under which a stale initial value shows"""
    rng = np.random.default_rng([int(case['seed']), int(case['i']), 77])
    free, P, u = ctx['free'], ctx['P'], ctx['u']
    n = int(rng.integers(2, 5))
    steps = []
    algo = str(rng.choice(ALGOS))
    for k in range(n):
        mode = 'estimate' if rng.random() < 0.6 else 'quick_estimate'
        if k > 0 and rng.random() < 0.5:
            algo = str(rng.choice(ALGOS))
        st = {'mode': mode, 'algo': algo, 'max_iterations': int(rng.choice([1000, 1000, 1000, 1, 2, 5])),
              'bootstrap': int(rng.choice([0, 0, 0, 1, 2])) if mode == 'estimate' else 0, 'change_init': None}
        if k > 0 and rng.random() < 0.35:
            new = {}
            for j, nm in enumerate(free):
                t = float(P[nm].get('typ', 1.0))
                a = P[nm]['lb'] if P[nm]['lb'] is not None else u['x'][j] - 2.0 * (abs(u['x'][j]) + 0.5 * t)
                b = P[nm]['ub'] if P[nm]['ub'] is not None else u['x'][j] + 2.0 * (abs(u['x'][j]) + 0.5 * t)
                new[nm] = round(float(rng.uniform(a, b)), 4)
            st['change_init'] = new
        steps.append(st)
    shape = case.get('shape', 'random')
    if shape == 'quick_then_short_estimate':
        steps[0].update({'mode': 'quick_estimate', 'max_iterations': 1000, 'bootstrap': 0})
        steps[1].update({'mode': 'estimate', 'max_iterations': 1, 'change_init': None})
    elif shape == 'estimate_then_estimate':
        steps[0].update({'mode': 'estimate', 'max_iterations': 1000})
        steps[1].update({'mode': 'estimate', 'change_init': None})
    elif shape == 'estimate_change_quick':
        steps[0].update({'mode': 'estimate', 'max_iterations': 1000})
        if steps[1]['change_init'] is None:
            steps[1]['change_init'] = {nm: round(float(0.5 * (ctx['startd'][nm] + ctx['c']['x'][j])), 4) for j, nm in enumerate(free)}  # feasible: both ends are
        steps[1].update({'mode': 'quick_estimate', 'bootstrap': 0})
    return steps


def _history_run(ctx):
    """all steps in ONE process on ONE object; the post-conditions are applied after EVERY estimation. No verdict is
    taken after an exception out of the library (engine state)."""
    from ..gen import c07_problems as gp
    import biogeme.biogeme as bio

    case, spec, data, free, opts = ctx['case'], ctx['spec'], ctx['data'], ctx['free'], ctx['opts']
    rec = Rec(case)
    steps = _history(case, ctx)
    rec.info['steps'] = []
    db, formulas, made = gp.build(spec, data)
    if opts['save_iterations']:
        import tempfile

        os.chdir(tempfile.mkdtemp(prefix=f'c07_{case["i"]}_', dir=os.environ.get('BIOMON_WORKDIR', os.getcwd())))
    try:
        bg = bio.BIOGEME(db, formulas, parameters=_parameters(dict(opts, max_iterations=steps[0]['max_iterations']), steps[0]['algo']))
        bg.modelName = f'c07_{case["i"]}'
    except BaseException as e:  # noqa
        rec.violation(f'C07/constructor-raises-{type(e).__name__}', str(e), {'case': case})
        return rec.out()
    rec.c('history_cases')
    expected = dict(ctx['startd'])  # fresh object: the declared starting values
    prev = prev_est = None
    for k, st in enumerate(steps):
        algo, mode = st['algo'], st['mode']
        tag = f'history step {k + 1}/{len(steps)}: ' + ' -> '.join(
            f'{s["algo"]}/{s["mode"]}' + (f'[maxiter={s["max_iterations"]}]' if s['max_iterations'] < 10 else '')
            + (f'[bootstrap={s["bootstrap"]}]' if s['bootstrap'] else '') + ('[after change_init_values]' if s['change_init'] else '')
            for s in steps[:k + 1])
        wit = _witness_base(ctx, algo, mode)
        wit['history'] = steps[:k + 1]

        def viol(mech, msg, **kw):
            w = dict(wit)
            w.update(kw)
            rec.violation('C07/' + mech, f'[{tag}] {msg}', w)

        del _CALLS[:]
        try:
            # between two estimations everything goes through the public parameters / public methods
            bg.optimization_algorithm = algo
            bg.max_iterations = st['max_iterations']
            if st['change_init'] is not None:
                bg.change_init_values(dict(st['change_init']))
                expected = dict(st['change_init'])
                rec.c('history_steps_after_change_init_values')
            if st['bootstrap']:
                bg.bootstrap_samples = st['bootstrap']
                res = bg.estimate(run_bootstrap=True)
                rec.c('history_steps_with_bootstrap')
            else:
                res = getattr(bg, mode)()
        except BaseException as e:  # noqa
            import traceback

            _classify_exception(rec, viol, e, algo, mode, traceback.format_exc())
            rec.c('history_stopped_by_exception')
            break
        rec.c('history_steps')
        rec.c(f'history_step_{mode}')
        if mode == 'quick_estimate' and st['change_init'] is not None and any(s_['mode'] == 'estimate' for s_ in steps[:k]):
            # regression case of the repaired finding 5 (fix a25cd07): quick_estimate after an estimate() and a changed start
            # must not report the initial log likelihood of that earlier run (judged in _judge)
            rec.c('regression_quick_estimate_after_estimate_and_changed_start')
        if prev is not None:
            rec.c(f'history_{prev["mode"]}_then_{mode}')
            if prev['algo'] != algo:
                rec.c('history_steps_with_algorithm_changed')
            if prev['max_iterations'] != st['max_iterations']:
                rec.c('history_steps_with_max_iterations_changed')
        calls = list(_CALLS)
        if opts['save_iterations'] and mode == 'estimate' and k > 0:
            expected = None  # documented: the saved-iteration file replaces the starting values
        step = {'tag': tag, 'wit': wit, 'expected_start': expected, 'max_iterations': st['max_iterations'], 'inject_nan_hessian': False,
                'key': ['history', steps[:k + 1]], 'probe_fresh': not opts['save_iterations'], 'info': {}}
        _judge(rec, ctx, bg, formulas, made, res, calls, algo, mode, step)
        rec.info['steps'].append(step['info'])
        # where does a re-estimation start when nothing is said? recorded, no verdict (the statement does not fix it)
        if k > 0 and st['change_init'] is None and calls and calls[0].get('init_betas') is not None:
            names = list(res.data.betaNames)
            act = dict(zip(names, calls[0]['init_betas']))
            if all(act[nm] == float(ctx['startd'][nm]) for nm in free):
                rec.c('history_restart_from_the_first_declared_start')
            elif prev_est is not None and all(act[nm] == prev_est.get(nm) for nm in free):
                rec.c('history_restart_from_the_previous_estimates')
            else:
                rec.c('history_restart_from_another_point')
        prev_est = dict(zip(res.data.betaNames, (float(v) for v in res.data.betaValues)))
        expected = None  # after an estimation the statement does not say where the next one starts (unless change_init_values)
        prev = st
    return rec.out()


def finalize(cov, tier):
    out = []
    for a in ALGOS:
        for cfg in CONFIGS:
            if cov.get(f'run_{a}_{cfg}', 0) == 0:
                out.append(f'algorithm x bound configuration never observed: {a} x {cfg}')
        if cov.get('converged_' + a, 0) == 0:
            out.append(f'no converged run observed for {a}')
        if cov.get(f'runs_{a}_quick_estimate', 0) == 0:
            out.append(f'quick_estimate never observed for {a}')
        if a in BOUND_CAPABLE and cov.get('estimate_on_binding_bound_' + a, 0) == 0:
            out.append(f'no estimate on a binding bound observed for {a}')
    for k in ('function_object_probed', 'agreement_groups_compared', 'hook_calls_seen', 'runs_with_fixed_parameters',
              'weights_on', 'cases_with_iteration_limit', 'cases_with_a_binding_bound_at_exactly_0'):
        if cov.get(k, 0) == 0:
            out.append(f'monitor / situation never observed: {k}')
    for k in ('history_steps', 'history_quick_estimate_then_estimate', 'history_estimate_then_estimate', 'history_estimate_then_quick_estimate',
              'history_steps_after_change_init_values', 'history_steps_with_bootstrap', 'history_steps_with_algorithm_changed',
              'history_steps_with_max_iterations_changed', 'regression_quick_estimate_after_estimate_and_changed_start'):
        if cov.get(k, 0) == 0:
            out.append(f'history situation never observed: {k}')
    runs = cov.get('runs_estimate', 0) + cov.get('runs_quick_estimate', 0)
    if cov.get('run_timeouts', 0) > max(3, 0.01 * runs):
        out.append(f'{cov["run_timeouts"]} estimations hit the per-run watchdog ({runs} completed)')
    rej = sum(v for k, v in cov.items() if k.startswith('rejected_'))
    tot = sum(v for k, v in cov.items() if k.startswith('config_')) + rej
    if tot and rej > 0.3 * tot:
        out.append(f'{rej}/{tot} generated problems rejected by the oracle')
    # fold the algorithm x configuration matrix into one line per algorithm for readability
    for a in ALGOS:
        cov[f'runs_by_config_{a}'] = ' '.join(f'{cfg}:{cov.pop(f"run_{a}_{cfg}", 0)}' for cfg in CONFIGS)
    return out


# ---------------------------------------------------------------------------------------
# thorough only: the repository's own tests as extra workload, with the generic C07
# contracts attached (biomon/oracle/c07_pytest_plugin.py). Every file in its own pytest
# process (one engine-side error poisons a process), cwd = scratch, log outside cwd
# (tests/functions/test_biogeme.py deletes *.log in cwd).
# ---------------------------------------------------------------------------------------
REPO_TEST_FILES = ['functions/test_biogeme.py', 'functions/test_results.py', 'functions/test_optimization.py',
                   'swissmetro/test_01.py', 'swissmetro/test_02.py', 'swissmetro/test_03.py', 'swissmetro/test_04.py',
                   'swissmetro/test_08.py', 'swissmetro/test_09.py', 'swissmetro/test_10.py', 'swissmetro/test_18.py', 'swissmetro/test_21.py',
                   'optima/test_01.py']
REPO_TEST_TIMEOUT = 900


def extra(seed, tier, workdir):
    import json
    import subprocess
    import sys
    import time

    from .. import env

    if tier != 'thorough':
        return []
    tests_root = os.path.join(os.path.dirname(env.SRC.rstrip('/')), 'tests')
    if not os.path.isdir(tests_root):
        tests_root = '/repo/tests'  # mutated copies hold src/ only; the tests are read from the repository
    procs = []
    for k, rel in enumerate(REPO_TEST_FILES):
        path = os.path.join(tests_root, rel)
        if not os.path.exists(path):
            continue
        cwd = os.path.join(workdir, f'repo_tests_{k}')
        os.makedirs(cwd, exist_ok=True)
        with open(os.path.join(cwd, 'biogeme.toml'), 'w') as f:
            # a parameter file must exist: creating the default one fails with the installed tomlkit
            f.write('[Estimation]\noptimization_algorithm = "automatic"\n')
        log = os.path.join(workdir, f'c07_contracts_{k}.jsonl')
        e = dict(os.environ)
        e['C07_CONTRACT_LOG'] = log
        e['PYTHONPATH'] = os.pathsep.join([env.SRC, env.VERIF, os.path.dirname(path), e.get('PYTHONPATH', '')])
        e['PYTHONDONTWRITEBYTECODE'] = '1'
        p = subprocess.Popen([sys.executable, '-m', 'pytest', '-q', '-p', 'no:cacheprovider', '-p', 'biomon.oracle.c07_pytest_plugin', path],
                             cwd=cwd, env=e, stdout=open(os.path.join(workdir, f'repo_tests_{k}.txt'), 'w'), stderr=subprocess.STDOUT)
        procs.append((p, rel, log))
    deadline = time.monotonic() + REPO_TEST_TIMEOUT
    results = []
    calls = 0
    for p, rel, log in procs:
        cov = {'repo_test_files_run': 1}
        try:
            p.wait(timeout=max(1.0, deadline - time.monotonic()))
        except subprocess.TimeoutExpired:
            p.kill()
            p.wait()
            cov['repo_test_files_timed_out'] = 1
        lines = []
        if os.path.exists(log):
            with open(log) as f:
                for line in f:
                    try:
                        lines.append(json.loads(line))
                    except Exception:  # noqa
                        pass
        for j, ln in enumerate(lines):
            c = dict(cov) if j == 0 else {}
            c['repo_test_estimations_under_contract'] = 1
            if ln.get('monitor_error'):
                c['repo_test_monitor_errors'] = 1
            r = {'n': int(ln.get('n', 0)), 'keys': [stable_hash(['repo-test', rel, j, ln.get('test'), ln.get('algo'), ln.get('mode')])] if ln.get('n') else [],
                 'viol': [dict(v, witness={'repo_test': ln.get('test'), 'file': rel, 'algorithm': ln.get('algo'), 'entry_point': ln.get('mode')})
                          for v in ln.get('viol', [])],
                 'cov': c, 'samples': [], 'inconclusive': [], '_case': {'repo_test_file': rel, 'call': j}}
            if ln.get('n'):
                calls += 1
            results.append(r)
        if not lines:
            results.append({'n': 0, 'keys': [], 'viol': [], 'cov': cov, 'samples': [], 'inconclusive': [], '_case': {'repo_test_file': rel}})
    if calls == 0:
        results.append({'n': 0, 'keys': [], 'viol': [], 'cov': {}, 'samples': [],
                        'inconclusive': ['repo-tests stage: no estimation was observed under the contracts'], '_case': {'repo_tests': 'stage'}})
    return results
