"""C11 — every named draw type delivers the distribution and structure it advertises.

Workload: the whole catalogue ``native_random_number_generators`` (21 entries) x a grid of
requested sizes {1,2,7,50} x {2,4,10,100,1000} plus seeded random sizes; a sweep of uniform
inputs over (0,1) pushed through ``draws.get_normal_wichura_draws(uniform_numbers=u)``; mixed
draw tables requested through ``Database.generate_draws``; request *histories*: 5-30 requests in one
process, random order, repeated (entry, n, R) triples, related entries at the same sizes, tables in
between, and a client that overwrites received arrays with NaN (every request judged like a fresh one,
Halton entries bit-identical to the same request in a process without history, arrays delivered earlier
must not change).

Monitors (all at the boundary, the generators run unmodified):
  * the array each ``generator(n, R)`` returns (shape, finiteness, support);
  * spies on the uniform sources (``np.random.uniform``, ``np.random.shuffle``,
    ``draws.get_uniform / get_latin_hypercube_draws / get_halton_draws / get_antithetic /
    get_normal_wichura_draws``) recording what each returned / was handed, so that the oracle
    knows "the underlying uniform numbers" of a normal variant without asking the code under test;
  * recording wrappers around the catalogue entries while ``Database.generate_draws`` runs.
Oracle (biomon/oracle/c11_ref.py): what the entry *advertises* is parsed from its name and
description; radical inverse by digit reversal; stratum occupancy; mirror image; 2u-1;
scipy.special.ndtri (guarded by an 80-digit normal CDF at every run).
"""
from __future__ import annotations

import random

import numpy as np

from ..rec import Rec

LEVEL = 'exploration'
EXHAUSTIVE = False
RULE = (
    'type cases = every catalogue entry (21) x requested (sample size, number of draws): the grid {1,2,7,50} x '
    '{2,4,10,100,1000} plus seeded random sizes (odd numbers of draws only for non-antithetic entries); a type case is '
    'non-trivial when the generator returned and at least one structural oracle (sequence / strata / mirror / 2u-1 / '
    'quantile) was evaluated on it; distinct = (entry name, n, R, numpy seed). quantile cases = chunks of <= 10000 '
    'uniforms in (0,1) (log-spaced to 1e-300 and to 1-2^-53, dense around u = 0.075, 0.925, 0.45, 0.55, 0.5 and '
    'min(u,1-u) = exp(-25), regular grid, uniform random) given to get_normal_wichura_draws(uniform_numbers=u) under a '
    'random (sample size x draws) factorisation, with and without antithetic=True; distinct = (kind, seed, index). '
    'database cases = random mixes of entries (and wrong-shape user generators) through Database.generate_draws, '
    'cross-sectional and panel; distinct = (types, n, R). history cases = inside ONE process a seeded sequence of 5-30 '
    'requests (catalogue generators called directly and Database.generate_draws on kept databases) in random order over '
    'the catalogue, with repeated (entry, n, R) triples, related entries (NORMAL_x / UNIFORM_x / UNIFORMSYM_x) at the same '
    'sizes, and a hostile client that overwrites arrays it received with NaN before identical requests follow; every '
    'request is judged like a fresh one, deterministic (Halton) entries must be bit-identical to the same request made in '
    'a process without history (forked from the idle worker), arrays handed out earlier must not change afterwards; '
    'non-trivial = at least 5 requests judged; distinct = (sizes, steps)'
)
ASSUMPTIONS = [
    'numpy.random.uniform delivers U[0,1) numbers (the plain uniform entries are judged as "exactly the numbers numpy '
    'drew, affinely mapped", not by a statistical test)',
    'scipy.special.ndtri is the reference quantile: checked at every run against an independent 80-digit normal CDF '
    '(decimal arithmetic) on 50 inputs spread over (1e-300, 1-2^-53); measured worst relative error 2.9e-16',
    'tolerance of the quantile comparison: 1e-13 relative + 1e-15 absolute (AS241 advertises ~1e-16)',
    '"skipping the first 10" is read as: the first delivered element is phi_b(11) of the sequence phi_b(1), phi_b(2), ...; '
    'entries that advertise no skip (normal Halton) are accepted with any skip <= 64',
    'elements are laid out row by row (observation i receives elements i*R ... i*R+R-1 of the sequence)',
    'a violation of the quantile accuracy is filed under the mechanism C11/as241-branch-threshold when the input lies '
    'where the published region test |u-1/2| <= 0.425 and the test abs(u) <= 0.45 disagree (u < 0.075 or 0.45 < u <= '
    '0.925) and under C11/quantile-inaccurate-* elsewhere; the judgement itself is the same everywhere',
]
MIN_DISTINCT = {'quick': 5200, 'thorough': 32000}
CASE_TIMEOUT = 900  # watchdog only (inconclusive, never a verdict); big cases take ~8 s on an idle machine

EXPECTED_NAMES = [
    'UNIFORM', 'UNIFORM_ANTI', 'UNIFORM_HALTON2', 'UNIFORM_HALTON3', 'UNIFORM_HALTON5', 'UNIFORM_MLHS',
    'UNIFORM_MLHS_ANTI', 'UNIFORMSYM', 'UNIFORMSYM_ANTI', 'UNIFORMSYM_HALTON2', 'UNIFORMSYM_HALTON3',
    'UNIFORMSYM_HALTON5', 'UNIFORMSYM_MLHS', 'UNIFORMSYM_MLHS_ANTI', 'NORMAL', 'NORMAL_ANTI', 'NORMAL_HALTON2',
    'NORMAL_HALTON3', 'NORMAL_HALTON5', 'NORMAL_MLHS', 'NORMAL_MLHS_ANTI',
]

Q_RTOL, Q_ATOL = 1e-13, 1e-15
# calibrated on the unchanged tree: where the tail formula is applied inside (0.45, 0.925] its error peaks at 2.56e-8
LOOSE_UPPER_CENTRAL_ATOL = 1e-6
MIRROR_ATOL = 1e-15
SYM_ATOL = 5e-16


def cases(seed, tier):
    from ..gen import c11_work as w

    return w.size_cases(seed, tier) + w.quantile_cases(seed, tier) + w.db_cases(seed, tier) + w.history_cases(seed, tier)


# --------------------------------------------------------------------------
# spies
# --------------------------------------------------------------------------
class _Spies:
    WRAPPED = ('get_uniform', 'get_latin_hypercube_draws', 'get_halton_draws', 'get_antithetic', 'get_normal_wichura_draws')

    def __init__(self):
        self.ev = []
        self.installed = False

    def reset(self):
        self.ev = []

    def install(self):
        if self.installed:
            return
        from biogeme import draws

        spies = self
        o_uniform = np.random.uniform
        o_shuffle = np.random.shuffle

        def uniform(*a, **k):
            r = o_uniform(*a, **k)
            spies.ev.append({'fn': 'np.random.uniform', 'result': np.array(r, dtype=float, copy=True)})
            return r

        def shuffle(x, *a, **k):
            before = np.array(x, copy=True)
            r = o_shuffle(x, *a, **k)
            spies.ev.append({'fn': 'np.random.shuffle', 'before': before, 'result': np.array(x, copy=True)})
            return r

        np.random.uniform = uniform
        np.random.shuffle = shuffle

        def wrap(fname, orig):
            def spy(*a, **k):
                un = k.get('uniform_numbers', k.get('uniformNumbers'))
                if un is None and fname in ('get_normal_wichura_draws',) and len(a) > 2:
                    un = a[2]
                if un is None and fname == 'get_latin_hypercube_draws' and len(a) > 3:
                    un = a[3]
                e = {'fn': fname, 'scalars': [x for x in a if isinstance(x, (int, float, bool))],
                     'kw': {kk: vv for kk, vv in k.items() if isinstance(vv, (int, float, bool))},
                     'uniform_numbers': None if un is None else np.array(un, dtype=float, copy=True),
                     'first': len(spies.ev) + 1}
                spies.ev.append(e)
                r = orig(*a, **k)
                e['last'] = len(spies.ev)
                e['result'] = np.array(r, copy=True) if isinstance(r, np.ndarray) else r
                return r

            spy.__wrapped__ = orig
            return spy

        for f in self.WRAPPED:
            setattr(draws, f, wrap(f, getattr(draws, f)))
        self.installed = True

    # what was the uniform input of the (last) normal transform?
    def underlying_uniforms(self):
        w = [e for e in self.ev if e['fn'] == 'get_normal_wichura_draws']
        if w:
            e = w[-1]
            if e['uniform_numbers'] is not None:
                return e['uniform_numbers'].ravel(), 'argument uniform_numbers of get_normal_wichura_draws'
            inner = [x for x in self.ev[e['first']:e.get('last', len(self.ev))] if x['fn'] == 'np.random.uniform']
            if inner:
                return np.concatenate([x['result'].ravel() for x in inner]), 'np.random.uniform inside get_normal_wichura_draws'
            return None, 'none'
        nps = [x for x in self.ev if x['fn'] == 'np.random.uniform']
        if nps:
            return np.concatenate([x['result'].ravel() for x in nps]), 'np.random.uniform'
        return None, 'none'

    def raw_uniforms(self):
        nps = [x for x in self.ev if x['fn'] == 'np.random.uniform']
        return np.concatenate([x['result'].ravel() for x in nps]) if nps else None


SPIES = _Spies()


def warmup():
    import biogeme.draws  # noqa
    import biogeme.native_draws  # noqa
    import biogeme.database  # noqa
    import scipy.special  # noqa

    SPIES.install()


def selftest():
    from ..oracle import c11_ref

    return c11_ref.selftest()


# --------------------------------------------------------------------------
# quantile judgement shared by the type cases and the sweep
# --------------------------------------------------------------------------
def _judge_quantile(rec, u, x, where, generic_mech, wit):
    """x claimed to be Phi^-1(u) elementwise. Returns number of elements compared."""
    from ..oracle import c11_ref
    from ..gen import c11_work

    u = np.asarray(u, dtype=float).ravel()
    x = np.asarray(x, dtype=float).ravel()
    ref = c11_ref.quantile(u)
    with np.errstate(all='ignore'):
        err = np.abs(x - ref)
        bad = ~(err <= Q_ATOL + Q_RTOL * np.abs(ref))
    reg = c11_work.region(u)
    misrouted = (u < 0.075) | ((u > 0.45) & (u <= 0.925))
    rec.ev()
    rec.c('quantile_points_compared', int(u.size))
    rec.c('quantile_points_central', int(np.sum(reg == 0)))
    rec.c('quantile_points_tail_lower', int(np.sum((reg == 1) & (u < 0.5))))
    rec.c('quantile_points_tail_upper', int(np.sum((reg == 1) & (u > 0.5))))
    rec.c('quantile_points_fartail_lower', int(np.sum((reg == 2) & (u < 0.5))))
    rec.c('quantile_points_fartail_upper', int(np.sum((reg == 2) & (u > 0.5))))
    rec.c('quantile_points_judged_outside_threshold_disagreement_set', int(np.sum(~misrouted)))

    def report(mask, mech, text):
        idx = np.nonzero(mask)[0]
        if not idx.size:
            return
        with np.errstate(all='ignore'):
            rel = err[idx] / np.maximum(np.abs(ref[idx]), 1e-300)
        k = idx[int(np.nanargmax(np.where(np.isfinite(rel), rel, np.inf)))]
        w = dict(wit)
        w.update({'where': where, 'elements_failing': int(idx.size), 'elements_compared': int(u.size),
                  'worst': {'u': repr(float(u[k])), 'returned': repr(float(x[k])), 'ndtri': repr(float(ref[k])),
                            'abs_err': float(err[k])},
                  'first_failing_inputs': [repr(float(v)) for v in u[idx[:5]]]})
        rec.violation(mech, f'{where}: {text}; {idx.size}/{u.size} elements beyond rtol {Q_RTOL} + atol {Q_ATOL}; worst at u={float(u[k])!r}: '
                            f'returned {float(x[k])!r}, Phi^-1(u) = {float(ref[k])!r}', w)

    report(bad & misrouted, 'C11/as241-branch-threshold',
           'normal quantile wrong where abs(u) <= 0.45 selects another AS241 formula than |u - 1/2| <= 0.425')
    if generic_mech is None:
        report(bad & ~misrouted & (reg == 0), 'C11/quantile-inaccurate-as241-central', 'normal quantile inaccurate in the central region')
        report(bad & ~misrouted & (reg == 1), 'C11/quantile-inaccurate-as241-tail', 'normal quantile inaccurate in the tail region')
        report(bad & ~misrouted & (reg == 2), 'C11/quantile-inaccurate-as241-far-tail', 'normal quantile inaccurate in the far tail')
    else:
        report(bad & ~misrouted, generic_mech, 'entries are not the standard normal quantiles of the underlying uniform numbers')
    # inside the disagreement set a *gross* error is still a different mechanism
    with np.errstate(all='ignore'):
        gross = ((u > 0.45) & (u <= 0.925) & ~(err <= LOOSE_UPPER_CENTRAL_ATOL)) | ((u < 0.075) & ~((x < 0) & np.isfinite(x)))
    report(gross, (generic_mech or 'C11/quantile') + '-grossly-wrong', 'gross error / wrong sign')
    return int(u.size)


# --------------------------------------------------------------------------
# type cases
# --------------------------------------------------------------------------
def _run_types(case, rec):
    from biogeme import native_draws
    from ..oracle import c11_ref

    cat = native_draws.native_random_number_generators
    n, R, seed = case['n'], case['R'], case['rng']
    for nm in EXPECTED_NAMES:
        if nm not in cat:
            rec.violation('C11/catalogue-entry-missing', f'{nm} is not in native_random_number_generators', {'name': nm})
    outs = {}
    advs = {}
    first = True
    for name in list(cat):
        entry = cat[name]
        desc = entry.description
        adv = c11_ref.parse_entry(name, desc)
        advs[name] = adv
        wit = {'name': name, 'description': desc, 'n': n, 'R': R, 'numpy_seed': seed}
        if adv['family'] is None or adv['problems']:
            rec.violation('C11/catalogue-name-and-description-contradict', f'{name}: {desc!r}: {adv["problems"]}', wit)
            if adv['family'] is None:
                continue
        if adv['anti'] and R % 2:
            rec.c('skipped_odd_draws_for_antithetic')
            continue
        np.random.seed(seed % (2**32))
        SPIES.reset()
        try:
            out = entry.generator(n, R)
        except BaseException as e:  # noqa
            rec.violation('C11/generator-raises', f'{name}({n},{R}) raised {type(e).__name__}: {e}', wit)
            continue
        rec.c('generator_calls')
        judged = _judge_one(rec, name, adv, n, R, out, wit)
        if judged:
            rec.key(['T', name, n, R, seed])
            rec.c('type_' + name)
            if first:
                rec.sample({'entry': name, 'description': desc, 'n': n, 'R': R, 'first_row_head': np.asarray(out)[0, :4]})
                first = False
            outs[name] = np.array(out, dtype=float, copy=True)

    # symmetric variants = 2u-1 of the unit ones (same numpy seed -> same underlying numbers)
    for name, out in outs.items():
        if advs[name]['sym']:
            unit = 'UNIFORM' + name[len('UNIFORMSYM'):]
            if unit in outs:
                rec.ev()
                rec.c('sym_vs_unit_compared')
                d = np.abs(out - (2.0 * outs[unit] - 1.0))
                if out.shape != outs[unit].shape or not np.all(d <= SYM_ATOL):
                    k = int(np.argmax(d)) if out.shape == outs[unit].shape else 0
                    rec.violation('C11/symmetric-not-2u-1-of-unit-variant',
                                  f'{name}({n},{R}) differs from 2*{unit}({n},{R})-1 under the same numpy seed (max diff {float(d.max()) if d.size else None})',
                                  {'name': name, 'unit': unit, 'n': n, 'R': R, 'numpy_seed': seed, 'flat_index': k,
                                   'sym': out.ravel()[k], 'unit_value': outs[unit].ravel()[k]})
    # entries advertising different bases yield different sequences
    if n * R >= 2:
        for fam in ('UNIFORM', 'UNIFORMSYM', 'NORMAL'):
            hs = [nm for nm in outs if advs[nm]['family'] == fam and advs[nm]['kind'] == 'halton']
            for i in range(len(hs)):
                for j in range(i + 1, len(hs)):
                    a, b = hs[i], hs[j]
                    if advs[a]['base'] == advs[b]['base']:
                        continue
                    rec.ev()
                    rec.c('base_pairs_compared')
                    if outs[a].shape == outs[b].shape and np.array_equal(outs[a], outs[b]):
                        rec.violation('C11/identical-arrays-for-different-advertised-bases-' + fam.lower(),
                                      f'{a} (base {advs[a]["base"]}) and {b} (base {advs[b]["base"]}) return identical arrays for n={n}, R={R}',
                                      {'a': a, 'b': b, 'n': n, 'R': R, 'head': outs[a].ravel()[:6]})


def _judge_one(rec, name, adv, n, R, out, wit):
    from ..oracle import c11_ref

    # -- shape ---------------------------------------------------------------
    rec.ev()
    if not isinstance(out, np.ndarray) or out.shape != (n, R):
        rec.violation('C11/shape-not-observations-x-draws',
                      f'{name}({n},{R}) returned {type(out).__name__} of shape {getattr(out, "shape", None)}', wit)
        return False
    out = np.asarray(out, dtype=float)
    if not np.all(np.isfinite(out)):
        rec.violation('C11/non-finite-entries', f'{name}({n},{R}) contains {int(np.sum(~np.isfinite(out)))} non-finite entries', wit)
        return False
    # -- support -------------------------------------------------------------
    if not adv['normal']:
        lo, hi = (-1.0, 1.0) if adv['sym'] else (0.0, 1.0)
        rec.ev()
        rec.c('support_compared')
        if out.min() < lo or out.max() > hi:
            w = dict(wit)
            w.update({'min': float(out.min()), 'max': float(out.max()), 'support': [lo, hi]})
            rec.violation('C11/entries-outside-advertised-support', f'{name}({n},{R}) has entries in [{out.min()}, {out.max()}], advertised [{lo}, {hi}]', w)
    # -- antithetic ----------------------------------------------------------
    G = out
    if adv['anti']:
        h = R // 2
        G, M2 = out[:, :h], out[:, h:]
        expect = -G if (adv['sym'] or adv['normal']) else 1.0 - G
        rec.ev()
        rec.c('antithetic_compared')
        d = np.abs(M2 - expect)
        if not np.all(d <= MIRROR_ATOL):
            k = int(np.argmax(d))
            w = dict(wit)
            w.update({'flat_index_in_half': k, 'first_half': G.ravel()[k], 'second_half': M2.ravel()[k], 'expected': expect.ravel()[k]})
            rec.violation('C11/antithetic-second-half-not-mirror-of-first',
                          f'{name}({n},{R}): second half differs from the mirror image of the first (max diff {float(d.max())})', w)
    # -- the unit numbers behind the generated part ---------------------------------
    src = 'output'
    if adv['normal']:
        U, src = SPIES.underlying_uniforms()
        if U is None:
            rec.inconc(f'{name}: no uniform source observed by the spies')
            rec.c('normal_without_observed_uniforms')
            return True
        rec.c('normal_uniforms_from_' + ('argument' if src.startswith('argument') else 'numpy'))
        if U.size != G.size:
            w = dict(wit)
            w.update({'uniforms_observed': int(U.size), 'generated_part': int(G.size), 'source': src})
            rec.violation('C11/normal-underlying-uniforms-count-differs',
                          f'{name}({n},{R}): {U.size} underlying uniform numbers observed for {G.size} generated normal entries', w)
            return True
        if not np.all((U > 0) & (U < 1)):
            rec.c('normal_uniforms_on_the_border')
        w = dict(wit)
        w['uniform_source'] = src
        inside = (U > 0) & (U < 1)
        _judge_quantile(rec, U[inside], G.ravel()[inside], f'{name}({n},{R})', 'C11/normal-entries-not-quantiles-of-underlying-uniforms', w)
        rec.c('normal_quantile_compared')
        Gu = U
    elif adv['sym']:
        Gu = (G.ravel() + 1.0) / 2.0
    else:
        Gu = G.ravel()

    fam = adv['family'].lower()
    if adv['kind'] == 'halton':
        base, skip = adv['base'], adv['skip']
        rec.ev()
        rec.c('halton_compared')
        rec.c(f'halton_base{base}_compared')
        if adv['normal']:
            s = c11_ref.find_skip(Gu, base) if skip is None else (skip if np.all(np.abs(Gu - c11_ref.halton_ref(Gu.size, base, skip)) <= c11_ref.HALTON_ATOL) else None)
            if s is None:
                w = dict(wit)
                w.update({'uniform_source': src, 'underlying_head': Gu[:6], 'advertised_base': base,
                          'advertised_head_skip10': c11_ref.halton_ref(min(6, Gu.size), base, 10)})
                s2 = c11_ref.find_skip(Gu, 2) if base != 2 else None
                if s2 is not None:
                    w['matches_base2_with_skip'] = s2
                    rec.violation('C11/normal-halton-built-on-base2-instead-of-advertised-base',
                                  f'{name}: the uniform numbers behind the normal draws are the base-2 radical inverse (skip {s2}), advertised base {base}', w)
                else:
                    rec.violation('C11/normal-halton-uniforms-not-the-advertised-sequence',
                                  f'{name}: the uniform numbers behind the normal draws are not a radical-inverse sequence of base {base}', w)
        else:
            if skip is None:
                rec.violation('C11/halton-entry-advertises-no-skip', f'{name}: {wit["description"]!r}', wit)
                skip = 0
            ref = c11_ref.halton_ref(Gu.size, base, skip)
            tol = c11_ref.HALTON_ATOL
            if not np.all(np.abs(Gu - ref) <= tol):
                w = dict(wit)
                k = int(np.argmax(np.abs(Gu - ref)))
                w.update({'base': base, 'skip': skip, 'flat_index': k, 'returned_unit_value': Gu[k], 'radical_inverse': ref[k],
                          'returned_head': Gu[:6], 'reference_head': ref[:6]})
                if np.all(np.abs(np.sort(Gu) - np.sort(ref)) <= tol):
                    rec.violation(f'C11/halton-elements-not-in-sequence-order-{fam}', f'{name}({n},{R}): right elements, wrong arrangement', w)
                else:
                    rec.violation(f'C11/halton-not-radical-inverse-of-advertised-base-and-skip-{fam}',
                                  f'{name}({n},{R}): element {k} is {float(Gu[k])!r}, phi_{base}({skip + 1 + k}) = {float(ref[k])!r}', w)
    elif adv['kind'] == 'mlhs':
        rec.ev()
        rec.c('strata_compared')
        st = c11_ref.strata(Gu)
        if not st['ok']:
            w = dict(wit)
            w.update(st)
            w['uniform_source'] = src
            rec.violation(f'C11/mlhs-not-one-point-per-stratum-{fam}',
                          f'{name}({n},{R}): generated part ({st["M"]} points) leaves {st["empty_strata"]} strata empty, up to {st["max_points_in_a_stratum"]} points in one', w)
    else:
        if not adv['normal']:
            raw = SPIES.raw_uniforms()
            if raw is None:
                rec.inconc(f'{name}: no numpy uniform numbers observed')
            else:
                rec.ev()
                rec.c('plain_uniform_compared')
                if raw.size != Gu.size or not np.all(np.abs(np.sort(raw) - np.sort(Gu)) <= SYM_ATOL):
                    w = dict(wit)
                    w.update({'drawn': int(raw.size), 'delivered': int(Gu.size)})
                    rec.violation(f'C11/uniform-entries-not-the-drawn-uniform-numbers-{fam}',
                                  f'{name}({n},{R}): the generated part is not the (mapped) set of numbers numpy drew', w)
    rec.c('elements_judged', int(out.size))
    return True


# --------------------------------------------------------------------------
# quantile sweep
# --------------------------------------------------------------------------
def _run_quantile(case, rec):
    from biogeme import draws
    from ..gen import c11_work

    u = c11_work.quantile_inputs(case)
    rr = random.Random(case['seed'] * 31 + case['j'])
    s = rr.choice([1, 1, 2, 3, 5, 7, 10, 50])
    r = u.size // s
    u = u[: s * r]
    anti = case['j'] % 3 == 2
    wit = {'kind': case['kind'], 'j': case['j'], 'sample_size': s, 'number_of_draws': r * (2 if anti else 1), 'antithetic': anti}
    try:
        x = draws.get_normal_wichura_draws(sample_size=s, number_of_draws=2 * r if anti else r,
                                           uniform_numbers=np.array(u, copy=True), antithetic=anti)
    except BaseException as e:  # noqa
        rec.violation('C11/quantile-transform-raises', f'get_normal_wichura_draws raised {type(e).__name__}: {e}', wit)
        return
    rec.ev()
    shape = (s, 2 * r) if anti else (s, r)
    if not isinstance(x, np.ndarray) or x.shape != shape:
        rec.violation('C11/quantile-transform-shape', f'returned shape {getattr(x, "shape", None)}, requested {shape}', wit)
        return
    first = x[:, :r]
    if anti:
        rec.ev()
        rec.c('quantile_antithetic_compared')
        if not np.array_equal(x[:, r:], -first):
            rec.violation('C11/antithetic-second-half-not-mirror-of-first', 'get_normal_wichura_draws(antithetic=True): second half is not minus the first', wit)
    _judge_quantile(rec, u, first.ravel(), f'get_normal_wichura_draws(uniform_numbers=<{case["kind"]} chunk {case["j"]}>)', None, wit)
    rec.c('quantile_chunk_' + case['kind'])
    rec.key(['Q', case['kind'], case['seed'], case['j']])
    rec.sample({'quantile_chunk': case['kind'], 'inputs_head': [repr(float(v)) for v in u[:4]], 'returned_head': first.ravel()[:4]})


# --------------------------------------------------------------------------
# Database.generate_draws: the table is made of what the generators returned, shapes enforced
# --------------------------------------------------------------------------
def _run_database(case, rec):
    import pandas as pd
    from biogeme import native_draws
    from biogeme.database import Database
    from biogeme.exceptions import BiogemeError
    from ..oracle import c11_ref

    rr = random.Random(case['seed'] * 104729 + case['j'])
    cat = native_draws.native_random_number_generators
    panel = case['j'] % 4 in (0, 1) and (case['j'] // 4) % 2 == 1
    nrows = rr.randint(1, 25)
    if panel:
        ids = sorted(rr.randint(1, max(1, nrows // 2)) for _ in range(nrows))
        n = len(set(ids))
    else:
        ids = list(range(1, nrows + 1))
        n = nrows
    df = pd.DataFrame({'ID': ids, 'x': [float(i) for i in range(nrows)]})
    mode = ['good', 'good', 'odd_anti', 'bad_user'][case['j'] % 4]
    R = 2 * rr.randint(1, 60)
    if mode == 'odd_anti':
        R += 1
    k = rr.randint(1, 6)
    pool = [nm for nm in cat]
    types = [rr.choice(pool) for _ in range(k)]
    if mode == 'odd_anti':
        antis = [nm for nm in pool if c11_ref.parse_entry(nm, cat[nm].description).get('anti')]
        types[rr.randrange(k)] = rr.choice(antis)
    names = [f'v{i}' for i in range(k)]
    rr.shuffle(names)
    user = {}
    if mode == 'bad_user':
        kind = rr.choice(['transposed', 'short', 'flat'])
        if kind == 'transposed' and n == R:
            kind = 'short'

        def badgen(nn, rrr, kind=kind):
            if kind == 'transposed':
                return np.random.uniform(size=(rrr, nn))
            if kind == 'short':
                return np.random.uniform(size=(nn, rrr - 1))
            return np.random.uniform(size=(nn * rrr,))

        user['C11_BAD'] = (badgen, 'wrong-shape generator of the harness')
        types[rr.randrange(k)] = 'C11_BAD'
    wit = {'types': types, 'names': names, 'rows': nrows, 'sample_size': n, 'R': R, 'panel': panel, 'mode': mode}

    recorded = []
    saved = dict(cat)

    def recorder(nm, g):
        def f(a, b):
            out = g(a, b)
            recorded.append({'type': nm, 'args': (a, b), 'out': np.array(out, copy=True) if isinstance(out, np.ndarray) else out})
            return out

        return f

    try:
        for nm in list(cat):
            cat[nm] = native_draws.RandomNumberGeneratorTuple(generator=recorder(nm, saved[nm].generator), description=saved[nm].description)
        try:
            db = Database('c11', df)
            if panel:
                db.panel('ID')
            if user:
                db.set_random_number_generators(user)
        except BaseException as e:  # noqa
            rec.inconc(f'database case could not be built: {type(e).__name__}: {e}')
            return
        np.random.seed(case['j'] + 77)
        err = None
        table = None
        try:
            table = db.generate_draws(dict(zip(names, types)), names, R)
        except BiogemeError as e:
            err = e
        except BaseException as e:  # noqa
            rec.violation('C11/generate_draws-raises-' + type(e).__name__, f'{e}', wit)
            return
    finally:
        cat.clear()
        cat.update(saved)
    rec.ev()
    rec.key(['D', types, n, R, panel])
    wrong = [i for i, e in enumerate(recorded) if not (isinstance(e['out'], np.ndarray) and e['out'].shape == (n, R))]
    if mode == 'bad_user' or (mode == 'odd_anti'):
        rec.c('db_wrong_shape_requests')
        if err is None:
            # accepted: then every slice must really have the requested shape
            if mode == 'bad_user' or wrong:
                rec.violation('C11/generate_draws-accepts-generator-output-of-wrong-shape',
                              f'generate_draws returned a table of shape {getattr(table, "shape", None)} although a generator returned a wrong shape', wit)
            else:
                rec.c('db_odd_draws_accepted_with_right_shape')
        else:
            rec.c('db_wrong_shape_refused')
        return
    if err is not None:
        rec.violation('C11/generate_draws-refuses-catalogue-entry', f'BiogemeError: {err}', wit)
        return
    rec.c('db_tables_compared')
    if panel:
        rec.c('db_tables_panel')
    if not isinstance(table, np.ndarray) or table.shape != (n, R, k):
        rec.violation('C11/draw-table-shape', f'table shape {getattr(table, "shape", None)}, expected {(n, R, k)}', wit)
        return
    if [e['type'] for e in recorded] != types or any(tuple(e['args']) != (n, R) for e in recorded):
        rec.violation('C11/generate_draws-calls-generators-with-other-sizes-or-types',
                      f'calls observed: {[(e["type"], e["args"]) for e in recorded]}', wit)
        return
    for j in range(k):
        rec.ev()
        if not np.array_equal(table[:, :, j], recorded[j]['out']):
            w = dict(wit)
            w['slot'] = j
            rec.violation('C11/draw-table-slice-differs-from-generator-output', f'slice {j} ({types[j]}) of the table is not what the generator returned', w)


# --------------------------------------------------------------------------
# request histories: many requests in one process, repeated triples, a client that scribbles on what it received
# --------------------------------------------------------------------------
def _fresh_reference(name, n, R):
    """The same request in a process that has no request history (a fork of this one taken before the history starts
    would inherit nothing either, but the reference must not itself become part of the history: separate child)."""
    from ..worker import run_forked

    def f(_):
        from biogeme import native_draws

        out = native_draws.native_random_number_generators[name].generator(n, R)
        return {'shape': list(np.shape(out)), 'values': [float(v) for v in np.asarray(out, dtype=float).ravel()]}

    r = run_forked(f, None, 120)
    if 'values' not in r:
        return None
    return np.array(r['values'], dtype=float).reshape(r['shape'])


def _run_history(case, rec):
    import pandas as pd
    from biogeme import native_draws
    from biogeme.database import Database
    from biogeme.exceptions import BiogemeError
    from ..gen import c11_work
    from ..oracle import c11_ref

    cat = native_draws.native_random_number_generators
    names = [nm for nm in EXPECTED_NAMES if nm in cat]
    sizes, steps = c11_work.history_plan(case, names)
    advs = {nm: c11_ref.parse_entry(nm, cat[nm].description) for nm in names}
    deterministic = {nm for nm in names if advs[nm].get('kind') == 'halton'}

    # references from processes without history, one per deterministic triple, BEFORE the history starts
    refs = {}
    for st in steps:
        for t in ([st['type']] if st['op'] == 'gen' else st['types']):
            if t in deterministic and (t, st['size']) not in refs:
                n, R = sizes[st['size']]
                refs[(t, st['size'])] = _fresh_reference(t, n, R)
                if refs[(t, st['size'])] is None:
                    rec.inconc(f'no fresh-process reference for {t}({n},{R})')

    dbs = {}
    held = []  # arrays handed out earlier: [label, object, snapshot, poisoned_by_client, reported]
    seen = {}
    poisoned = set()
    hist = []
    judged = 0
    saved = dict(cat)
    for k, st in enumerate(steps):
        n, R = sizes[st['size']]
        results = []  # (entry name, array object as returned, spy events)
        table = None
        label = (st['type'] if st['op'] == 'gen' else 'generate_draws' + str(st['types'])) + f'({n},{R})'
        wit0 = {'n': n, 'R': R, 'step': k, 'request': label, 'history_before': hist[-14:], 'history_length': len(hist)}
        np.random.seed((case['seed'] * 7919 + case['j'] * 101 + k) % (2**32))
        if st['op'] == 'gen':
            SPIES.reset()
            try:
                out = cat[st['type']].generator(n, R)
            except BaseException as e:  # noqa
                rec.violation('C11/generator-raises', f'{label} raised {type(e).__name__}: {e} (step {k} of a request history)', wit0)
                hist.append(label + ' -> raised')
                continue
            results.append((st['type'], out, list(SPIES.ev)))
        else:
            rec.c('history_db_calls')
            if st['size'] not in dbs:
                try:
                    dbs[st['size']] = Database(f'c11h{st["size"]}', pd.DataFrame({'x': [float(i) for i in range(n)]}))
                except BaseException as e:  # noqa
                    rec.inconc(f'history database could not be built: {type(e).__name__}: {e}')
                    continue
            got = []

            def recorder(nm, g):
                def f(a, b):
                    SPIES.reset()
                    o = g(a, b)
                    got.append((nm, o, list(SPIES.ev), np.array(o, copy=True) if isinstance(o, np.ndarray) else None))
                    return o

                return f

            vnames = [f'v{i}' for i in range(len(st['types']))]
            err = None
            try:
                for nm in list(cat):
                    cat[nm] = native_draws.RandomNumberGeneratorTuple(generator=recorder(nm, saved[nm].generator), description=saved[nm].description)
                try:
                    table = dbs[st['size']].generate_draws(dict(zip(vnames, st['types'])), vnames, R)
                except BaseException as e:  # noqa
                    err = e
            finally:
                cat.clear()
                cat.update(saved)
            results = [(nm, o, ev) for nm, o, ev, _ in got]
            if err is not None:
                w = dict(wit0)
                w['shapes_returned_by_generators'] = [list(np.shape(o)) for _, o, _, _ in got]
                mech = 'C11/generate_draws-refuses-catalogue-entry' if isinstance(err, BiogemeError) else 'C11/generate_draws-raises-' + type(err).__name__
                rec.violation(mech, f'{label} (step {k} of a request history): {type(err).__name__}: {err}', w)
            else:
                rec.ev()
                kk = len(st['types'])
                if not isinstance(table, np.ndarray) or table.shape != (n, R, kk):
                    rec.violation('C11/draw-table-shape', f'{label}: table shape {getattr(table, "shape", None)}, expected {(n, R, kk)}', wit0)
                elif [g[0] for g in got] != st['types'] or any(g[3] is None or not np.array_equal(table[:, :, i], g[3]) for i, g in enumerate(got)):
                    rec.violation('C11/draw-table-slice-differs-from-generator-output', f'{label}: the table is not made of what the generators returned', wit0)
        # -- every array delivered by this request is judged like a fresh request --------------------
        for nm, out, ev in results:
            key = (nm, st['size'])
            SPIES.ev = ev
            wit = dict(wit0)
            wit.update({'name': nm, 'description': saved[nm].description, 'times_requested_before': seen.get(key, 0),
                        'client_overwrote_an_identical_request_before': key in poisoned})
            rec.c('history_requests')
            if seen.get(key, 0):
                rec.c('history_repeated_triples')
            if key in poisoned:
                rec.c('history_requests_after_client_overwrote_same_triple')
            fam = advs[nm]['family']
            for f2 in H_RELATED:
                if f2 != fam and (f2 + nm[len(fam):], st['size']) in seen:
                    rec.c('history_related_entry_same_size_requested_before')
                    break
            ok = _judge_one(rec, nm, advs[nm], n, R, out, wit)
            if ok:
                judged += 1
            if nm in deterministic and refs.get(key) is not None:
                rec.ev()
                rec.c('history_deterministic_compared_to_fresh_process')
                ref = refs[key]
                same = isinstance(out, np.ndarray) and out.shape == ref.shape and np.array_equal(np.asarray(out, dtype=float), ref)
                if not same:
                    w = dict(wit)
                    w.update({'returned_shape': list(np.shape(out)), 'reference_shape': list(ref.shape),
                              'returned_head': np.asarray(out, dtype=float).ravel()[:6], 'reference_head': ref.ravel()[:6]})
                    rec.violation('C11/history-deterministic-entry-differs-from-request-without-history',
                                  f'{nm}({n},{R}) at step {k} of a request history is not bit-identical to the same request in a process without history', w)
            seen[key] = seen.get(key, 0) + 1
        # -- arrays handed out earlier must still be what they were ------------------------------------
        for h in held:
            if h[3] or h[4]:
                continue
            if h[1].shape != h[2].shape or not np.array_equal(h[1], h[2]):
                h[4] = True
                w = dict(wit0)
                w.update({'earlier_request': h[0], 'shape_when_delivered': list(h[2].shape), 'shape_now': list(h[1].shape)})
                rec.violation('C11/history-array-delivered-earlier-changed-by-later-request',
                              f'the array delivered for {h[0]} changed (shape {h[2].shape} -> {h[1].shape}) while {label} was served', w)
        rec.ev()
        rec.c('history_earlier_arrays_rechecked', len(held))
        for nm, out, _ in results:
            if isinstance(out, np.ndarray):
                held.append([f'{nm}({n},{R}) at step {len(hist)}', out, np.array(out, copy=True), False, False])
        if table is not None and isinstance(table, np.ndarray):
            held.append([label + f' at step {len(hist)}', table, np.array(table, copy=True), False, False])
        # -- hostile client ----------------------------------------------------------------------------
        did = ''
        if st['poison']:
            target = table if st['op'] == 'db' else (results[0][1] if results else None)
            if isinstance(target, np.ndarray) and target.dtype.kind == 'f':
                try:
                    target.fill(np.nan)
                    did = ' [client then overwrote it with NaN]'
                    rec.c('history_arrays_overwritten_by_client')
                    for h in held:
                        if h[1] is target or np.shares_memory(h[1], target):
                            h[3] = True
                    for nm, _, _ in results:
                        poisoned.add((nm, st['size']))
                except ValueError:
                    rec.c('history_returned_array_not_writeable')
        hist.append(label + did)
    if judged >= 5:
        rec.key(['H', sizes, steps])
        rec.c('history_cases')
        rec.sample({'history_sizes': sizes, 'history_requests': hist[:8]})


H_RELATED = ('UNIFORMSYM', 'UNIFORM', 'NORMAL')


def run_case(case):
    rec = Rec(case)
    SPIES.install()
    if case['mode'] == 'types':
        _run_types(case, rec)
    elif case['mode'] == 'quantile':
        _run_quantile(case, rec)
    elif case['mode'] == 'history':
        _run_history(case, rec)
    else:
        _run_database(case, rec)
    return rec.out()


def finalize(cov, tier):
    out = []
    missing = [nm for nm in EXPECTED_NAMES if cov.get('type_' + nm, 0) == 0]
    if missing:
        out.append(f'catalogue entries never judged: {missing}')
    need = ['halton_compared', 'halton_base2_compared', 'halton_base3_compared', 'halton_base5_compared', 'strata_compared',
            'antithetic_compared', 'sym_vs_unit_compared', 'plain_uniform_compared', 'normal_quantile_compared',
            'base_pairs_compared', 'support_compared', 'db_tables_compared', 'db_wrong_shape_refused',
            'quantile_antithetic_compared', 'quantile_points_central', 'quantile_points_tail_lower', 'quantile_points_tail_upper',
            'quantile_points_fartail_lower', 'quantile_points_fartail_upper', 'history_cases', 'history_repeated_triples',
            'history_db_calls', 'history_arrays_overwritten_by_client', 'history_requests_after_client_overwrote_same_triple',
            'history_deterministic_compared_to_fresh_process', 'history_related_entry_same_size_requested_before']
    for k in need:
        if cov.get(k, 0) == 0:
            out.append(f'monitor never evaluated: {k}')
    minimum = {'quick': 1000000, 'thorough': 10000000}[tier]
    if cov.get('quantile_points_compared', 0) < minimum:
        out.append(f'only {cov.get("quantile_points_compared", 0)} quantile points compared (< {minimum})')
    from ..gen import c11_work

    for kind in c11_work.Q_KINDS:
        if cov.get('quantile_chunk_' + kind, 0) == 0:
            out.append(f'quantile sweep kind never run: {kind}')
    if cov.get('normal_without_observed_uniforms', 0):
        out.append(f'{cov["normal_without_observed_uniforms"]} normal arrays could not be tied to observed uniform numbers')
    return out
