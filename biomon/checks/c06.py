"""C06 — the model family is consistent: special cases and generating functions agree.

Workload: the choice-model configurations of C05 (biomon/gen/c05_models.py).
Every relation is a metamorphic one between two executions of the REAL
models.* functions on the same generated rows:

  R1  nested logit with every nest parameter = 1          == logit
  R2  cross-nested with alpha in {0,1} forming a partition == nested (same nests,
      alone alternatives included), with and without explicit scale
  R3  nested_mev_mu(mu = 1) == nested,  cnlmu(mu = 1) == cnl  (also on the ln G_i terms)
  R4  legacy tuple syntax == nest objects (nested / cross-nested, probabilities,
      log-probabilities, ln G_i terms, generating function)
  R5  nested logit: ln dG/dy_i obtained from get_mev_generating_for_nested by
      (a) the engine's Derive w.r.t. the utility column and (b) five-point central
      differences on the data column (independent of Derive) == get_mev_for_nested[i]
"""
from __future__ import annotations

import numpy as np

from .. import env  # noqa: F401
from ..rec import Rec, close

LEVEL = 'exploration'
RULE = (
    'cases = the seeded choice-model configurations of C05 (2-7 alternatives with arbitrary labels, 3-6 rows of utilities '
    'and availability patterns incl. whole nests unavailable, availability dictionaries in several object-sharing styles '
    '(fresh expression per alternative / one Variable or compound object reused by members of a nest and across nests / one '
    'Numeric(1) object / plain int, bool / None), utilities sharing or not their sub-expression objects, utility / '
    'availability / allocation dicts, nest member lists and choice sets in independently shuffled insertion orders, every '
    'alternative unavailable on some row, nested structures with alternatives left alone, nest '
    'parameters in [1,10] as float/Numeric/fixed or free Beta, scale in [1, min nest parameter]) plus directed ones; on '
    'each, five families of relations between two executions of the real model functions are evaluated on every row. A '
    'case is non-trivial when >= 3 relations were evaluated on >= 1 row with >= 2 available alternatives; distinct = hash of '
    'the configuration'
)
ASSUMPTIONS = [
    'reductions compared at rtol 1e-9 (atol 1e-14 on probabilities, 1e-9 on logs); tuple vs object at rtol 1e-9 / atol 1e-12 '
    '(two builds of the same formula differ in the last ulp: the engine sums ConditionalSum terms in pointer order)',
    'central differences: five-point stencil, h = 1e-3, judged at rtol 1e-6 only where the rounding noise estimate '
    'eps*|G|/(h*|dG/dV_i|) is below 1e-8 (otherwise counted as ill-conditioned); Derive route judged at rtol 1e-9',
    'ln dG/dy_i is compared for available alternatives only (the published convention is G_i = 0 for unavailable ones)',
]
MIN_DISTINCT = {'quick': 250, 'thorough': 2000}
CASE_TIMEOUT = 300
N_RANDOM = {'quick': 300, 'thorough': 3000}

DIRECTED = [
    {'name': 'alone_alternatives', 'force': {'J': 4, 'av_mode': 'var', 'n_alone': 2, 'util_form': 'var'}},
    {'name': 'alone_all_available', 'force': {'J': 5, 'av_mode': 'none', 'n_alone': 1, 'util_form': 'var'}},
    {'name': 'no_alone', 'force': {'J': 5, 'av_mode': 'var', 'n_alone': 0}},
    {'name': 'two_alternatives', 'force': {'J': 2, 'av_mode': 'var', 'n_alone': 0}},
    {'name': 'seven_alternatives', 'force': {'J': 7, 'av_mode': 'mixed', 'n_alone': 2, 'n_alone_cnl': 2}},
    {'name': 'nest_members_share_availability_variable', 'force': {'J': 5, 'av_mode': 'var', 'av_share': 'group_var', 'n_alone': 1}},
    {'name': 'nest_members_share_availability_expression', 'force': {'J': 6, 'av_mode': 'var', 'av_share': 'group_expr', 'n_alone': 0}},
    {'name': 'always_available_share_one_object', 'force': {'J': 5, 'av_mode': 'mixed', 'av_share': 'one_object', 'one_kind': 'numeric', 'n_alone': 1}},
    {'name': 'linear_utilities', 'force': {'J': 4, 'av_mode': 'var', 'n_alone': 1, 'util_form': 'lin'}},
]

P_TOL = (1e-9, 1e-14)
L_TOL = (1e-9, 1e-9)
# tuple vs objects: same formula, but the engine's ConditionalSum adds its terms in pointer order, so two builds of the
# same expression can differ in the last ulp of an intermediate (seen: 1.8e-15 absolute on a cancelling ln G_i)
X_TOL = (1e-9, 1e-12)


def cases(seed, tier):
    out = [{'mode': 'directed', 'k': k} for k in range(len(DIRECTED))]
    out += [{'mode': 'random', 'seed': seed, 'i': i} for i in range(N_RANDOM[tier])]
    return out


def warmup():
    import biogeme.biogeme  # noqa
    import biogeme.database  # noqa
    import biogeme.expressions  # noqa
    from biogeme import models  # noqa
    import biogeme.nests  # noqa


def five_point(fm2, fm1, fp1, fp2, h):
    return (fm2 - 8.0 * fm1 + 8.0 * fp1 - fp2) / (12.0 * h)


def selftest():
    """the numerical-differentiation route is validated on a closed form it has never seen"""
    bad = []
    h = 1e-3
    judged = 0
    for mu, v, other in [(1.0, 0.3, 2.0), (3.5, -1.2, 0.7), (10.0, 2.0, 1.0), (2.0, 1.0, 5.0), (6.0, -3.0, 5.0)]:
        f = lambda x: (np.exp(mu * x) + other) ** (1.0 / mu)  # noqa: E731
        exact = np.exp(mu * v) * (np.exp(mu * v) + other) ** (1.0 / mu - 1.0)
        num = five_point(f(v - 2 * h), f(v - h), f(v + h), f(v + 2 * h), h)
        noise = np.finfo(float).eps * abs(f(v)) / (h * abs(num))
        if noise < 1e-8:
            judged += 1
            if not close(num, exact, 1e-7, 0):
                bad.append(f'five-point stencil off on mu={mu}: {num} vs {exact}')
        elif (mu, v) != (6.0, -3.0):
            bad.append(f'conditioning filter rejects a well-conditioned derivative (mu={mu})')
    if judged != 4:
        bad.append('conditioning filter does not separate the ill-conditioned self-test case')
    if close(1.0, 1.0 + 1e-6, *P_TOL):
        bad.append('comparison tolerance too wide')
    return bad


def _config(case):
    from ..gen import c05_models as g

    if case['mode'] == 'directed':
        d = DIRECTED[case['k']]
        return g.make_config(515151, case['k'], force=d['force']), d['name']
    return g.make_config(case['seed'] + 31337, case['i']), 'random'


class EngineDown(Exception):
    pass


def run_case(case):
    from ..gen import c05_models as g
    import pandas as pd
    import biogeme.database as bdb
    import biogeme.expressions as ex
    from biogeme import models
    from biogeme.exceptions import BiogemeError

    rec = Rec(case)
    cfg, label = _config(case)
    rec.c('cases_' + label)
    alts = cfg['alts']
    J = len(alts)
    witness = {'config': cfg}
    relations_done = [0]

    def viol(mech, msg, **kw):
        w = dict(witness)
        w.update(kw)
        rec.violation('C06/' + mech, msg, w)

    df = g.table(cfg, with_shifts=False, replicate_choice=alts)
    db = bdb.Database('c06', df.copy())
    ch = df['CH'].to_numpy()
    none = cfg['av_mode'] == 'none'
    avm = np.ones(len(df)) if none else np.array([df[f'A{int(c)}'].iloc[k] for k, c in enumerate(ch)])
    navail = np.full(len(df), J) if none else sum(df[f'A{a}'].to_numpy() for a in alts)

    def ev(e, dbx=None):
        try:
            return np.asarray(e.get_value_c(database=dbx if dbx is not None else db, prepare_ids=True), dtype=float)
        except RuntimeError as err:
            raise EngineDown(str(err)[:500])

    CH = lambda: ex.Variable('CH')  # noqa: E731

    def relation(name, build_a, build_b, tol, what):
        """evaluate two real model expressions on every line and compare"""
        sides = []
        for side, fn in (('left', build_a), ('right', build_b)):
            try:
                sides.append(ev(fn(g.Builder(cfg))))
            except EngineDown:
                raise
            except Exception as e:  # whatever the library raises on a valid structure refutes the relation
                viol(f'{name}-{side}-raises-{type(e).__name__}', f'{what}: building/evaluating the {side} side raised {type(e).__name__}: {e}')
                return
        a, b = sides
        rec.ev(len(a))
        rec.c('relation_' + name)
        rec.c('lines_' + name, len(a))
        relations_done[0] += 1
        if a.shape != b.shape or not close(a, b, *tol):
            bad = np.flatnonzero(~(np.abs(a - b) <= tol[1] + tol[0] * np.abs(b)) & ~(a == b))
            l = int(bad[0]) if bad.size else 0
            viol(name, f'{what}: {a[l]!r} vs {b[l]!r} on line {l} (choice {ch[l]}, {len(bad)} of {len(a)} lines differ)',
                 line=df.iloc[l].to_dict(), left=a, right=b)

    nl_kinds = {n['kind'] for n in cfg['nl']}
    try:
        # ---- R1: nested with all nest parameters equal to one == logit --------------------------------
        relation('nested-all-nest-parameters-one-vs-logit',
                 lambda b: models.nested(b.util(False), b.av(), b.nl_nests(all_one=True), CH()),
                 lambda b: models.logit(b.util(False), b.av(), CH()), P_TOL, 'nested(mu_m = 1) vs logit')
        relation('lognested-all-nest-parameters-one-vs-loglogit',
                 lambda b: models.lognested(b.util(False), b.av(), b.nl_nests(all_one=True), CH()),
                 lambda b: models.loglogit(b.util(False), b.av(), CH()), L_TOL, 'lognested(mu_m = 1) vs loglogit')
        relation('nested_mev_mu-all-one-vs-logit',
                 lambda b: models.nested_mev_mu(b.util(False), b.av(), b.nl_nests(all_one=True), CH(), b.mu('nl', one=True)),
                 lambda b: models.logit(b.util(False), b.av(), CH()), P_TOL, 'nested_mev_mu(mu_m = 1, mu = 1) vs logit')

        # ---- R2: cross-nested with alpha in {0,1} on a partition == nested ------------------------------
        for zeros in (False, True):
            tag = '-zero-allocations-listed' if zeros else ''
            if zeros and len(cfg['nl']) < 2:
                continue
            relation('cnl-partition-vs-nested' + tag,
                     lambda b: models.cnl(b.util(False), b.av(), b.cnl_nests(spec=b.partition_as_cnl_spec(zeros)), CH()),
                     lambda b: models.nested(b.util(False), b.av(), b.nl_nests(), CH()), P_TOL,
                     'cnl with every alternative wholly in one nest vs nested')
            relation('logcnl-partition-vs-lognested' + tag,
                     lambda b: models.logcnl(b.util(False), b.av(), b.cnl_nests(spec=b.partition_as_cnl_spec(zeros)), CH()),
                     lambda b: models.lognested(b.util(False), b.av(), b.nl_nests(), CH()), L_TOL,
                     'logcnl with every alternative wholly in one nest vs lognested')
            relation('cnlmu-partition-vs-nested_mev_mu' + tag,
                     lambda b: models.cnlmu(b.util(False), b.av(), b.cnl_nests(spec=b.partition_as_cnl_spec(zeros)), CH(), b.mu('nl')),
                     lambda b: models.nested_mev_mu(b.util(False), b.av(), b.nl_nests(), CH(), b.mu('nl')), P_TOL,
                     'cnlmu with every alternative wholly in one nest vs nested_mev_mu (same scale)')

        # ---- R3: explicit scale equal to one == unscaled version ------------------------------------------
        relation('nested_mev_mu-scale-one-vs-nested',
                 lambda b: models.nested_mev_mu(b.util(False), b.av(), b.nl_nests(), CH(), b.mu('nl', one=True)),
                 lambda b: models.nested(b.util(False), b.av(), b.nl_nests(), CH()), P_TOL, 'nested_mev_mu(mu = 1) vs nested')
        relation('lognested_mev_mu-scale-one-vs-lognested',
                 lambda b: models.lognested_mev_mu(b.util(False), b.av(), b.nl_nests(), CH(), 1),
                 lambda b: models.lognested(b.util(False), b.av(), b.nl_nests(), CH()), L_TOL, 'lognested_mev_mu(mu = 1) vs lognested')
        relation('cnlmu-scale-one-vs-cnl',
                 lambda b: models.cnlmu(b.util(False), b.av(), b.cnl_nests(), CH(), b.mu('cnl', one=True)),
                 lambda b: models.cnl(b.util(False), b.av(), b.cnl_nests(), CH()), P_TOL, 'cnlmu(mu = 1) vs cnl')
        relation('logcnlmu-scale-one-vs-logcnl',
                 lambda b: models.logcnlmu(b.util(False), b.av(), b.cnl_nests(), CH(), 1.0),
                 lambda b: models.logcnl(b.util(False), b.av(), b.cnl_nests(), CH()), L_TOL, 'logcnlmu(mu = 1) vs logcnl')

        # ---- R4: legacy tuple syntax == nest objects ---------------------------------------------------------
        for fn in ('nested', 'lognested'):
            relation(f'tuple-syntax-{fn}',
                     lambda b, fn=fn: getattr(models, fn)(b.util(False), b.av(), b.nl_nests('tuple'), CH()),
                     lambda b, fn=fn: getattr(models, fn)(b.util(False), b.av(), b.nl_nests('object'), CH()), X_TOL,
                     f'{fn}: tuple syntax vs nest objects')
        relation('tuple-syntax-nested_mev_mu',
                 lambda b: models.nested_mev_mu(b.util(False), b.av(), b.nl_nests('tuple'), CH(), b.mu('nl')),
                 lambda b: models.nested_mev_mu(b.util(False), b.av(), b.nl_nests('object'), CH(), b.mu('nl')), X_TOL,
                 'nested_mev_mu: tuple syntax vs nest objects')
        for fn in ('cnl', 'logcnl'):
            relation(f'tuple-syntax-{fn}',
                     lambda b, fn=fn: getattr(models, fn)(b.util(False), b.av(), b.cnl_nests('tuple'), CH()),
                     lambda b, fn=fn: getattr(models, fn)(b.util(False), b.av(), b.cnl_nests('object'), CH()), X_TOL,
                     f'{fn}: tuple syntax vs nest objects')
        relation('tuple-syntax-cnlmu',
                 lambda b: models.cnlmu(b.util(False), b.av(), b.cnl_nests('tuple'), CH(), b.mu('cnl')),
                 lambda b: models.cnlmu(b.util(False), b.av(), b.cnl_nests('object'), CH(), b.mu('cnl')), X_TOL,
                 'cnlmu: tuple syntax vs nest objects')
        relation('tuple-syntax-generating-function',
                 lambda b: models.get_mev_generating_for_nested(b.util(False), b.av(), b.nl_nests('tuple')),
                 lambda b: models.get_mev_generating_for_nested(b.util(False), b.av(), b.nl_nests('object')), X_TOL,
                 'get_mev_generating_for_nested: tuple syntax vs nest objects')

        # ---- R5 (and term-level R3/R4): generating function vs published ln dG/dy_i ---------------------------
        try:
            _generating(rec, cfg, viol, ev, relations_done)
        except EngineDown:
            raise
        except Exception as e:  # raised by the library while evaluating G / ln G_i on a valid structure
            import traceback

            viol(f'generating-function-evaluation-raises-{type(e).__name__}', f'{e} | {traceback.format_exc()[-600:]}')
    except EngineDown as e:
        viol('engine-error-on-valid-model', f'the engine raised on a valid specification: {e}')
        return rec.out()

    if relations_done[0] >= 3 and (navail >= 2).any():
        rec.key(cfg)
    for k, v in g.features(cfg).items():
        if k == 'J':
            rec.c(f'alternatives_{v}')
        elif v:
            rec.c('feature_' + k, v if k.startswith('rows_') else 1)
    rec.c('availability_' + cfg['av_mode'])
    rec.c('availability_objects_' + cfg['av_share'])
    rec.c('utility_objects_' + cfg['util_share'])
    rec.c('utility_form_' + cfg['util_form'])
    for kd in nl_kinds:
        rec.c('nest_parameter_kind_' + kd)
    rec.sample({'config': cfg, 'relations_evaluated': relations_done[0]})
    return rec.out()


def _generating(rec, cfg, viol, ev, relations_done):
    """nested logit: G (get_mev_generating_for_nested) vs ln dG/dy_i (get_mev_for_nested)"""
    from ..gen import c05_models as g
    import pandas as pd
    import biogeme.database as bdb
    import biogeme.expressions as ex
    from biogeme import models
    from biogeme.exceptions import BiogemeError

    alts = cfg['alts']
    none = cfg['av_mode'] == 'none'
    rows = cfg['rows']
    # the table of the configuration (availability columns incl. the shared group columns) + plain utility columns
    base = g.table(cfg, with_shifts=False)
    for j, a in enumerate(alts):
        base[f'V{a}'] = [float(r['V'][j]) for r in rows]
    dbs = {'0': bdb.Database('c06g', base.copy())}
    h = 1e-3

    def shifted(a, k):
        key = f'{a}:{k}'
        if key not in dbs:
            d = base.copy()
            d[f'V{a}'] = d[f'V{a}'] + k * h
            dbs[key] = bdb.Database('c06g' + key.replace(':', '_').replace('-', 'm'), d)
        return dbs[key]

    def V():
        return {a: ex.Variable(f'V{a}') for a in alts}

    def AV():
        # the availability dictionary in the configuration's object-sharing style (fresh objects at every call)
        return g.Builder(cfg).av()

    b = g.Builder(cfg)
    alone = set(alts) - {a for n in cfg['nl'] for a in n['alts']}
    try:
        G = models.get_mev_generating_for_nested(V(), AV(), b.nl_nests())
        terms = models.get_mev_for_nested(V(), AV(), g.Builder(cfg).nl_nests())
        terms_mu = models.get_mev_for_nested_mu(V(), AV(), g.Builder(cfg).nl_nests(), g.Builder(cfg).mu('nl', one=True))
        terms_tuple = models.get_mev_for_nested(V(), AV(), g.Builder(cfg).nl_nests('tuple'))
    except Exception as e:
        viol(f'generating-function-construction-raises-{type(e).__name__}', str(e))
        return
    g0 = ev(G, dbs['0'])
    for j, a in enumerate(alts):
        av = np.ones(len(rows), dtype=bool) if none else base[f'A{a}'].to_numpy() != 0
        if not av.any():
            continue
        va = base[f'V{a}'].to_numpy()
        kind = 'alone-alternative' if a in alone else 'nest-member'
        # unavailable rows may hit log(0) for a wholly unavailable nest: evaluated but not judged
        with np.errstate(all='ignore'):
            pub = ev(terms[a] if isinstance(terms[a], ex.Expression) else ex.Numeric(terms[a]), dbs['0'])
            pub_mu = ev(terms_mu[a], dbs['0'])
            pub_t = ev(terms_tuple[a] if isinstance(terms_tuple[a], ex.Expression) else ex.Numeric(terms_tuple[a]), dbs['0'])
        rec.ev(int(av.sum()))
        # term-level reductions
        rec.c('relation_term-scale-one-vs-unscaled')
        if not close(pub_mu[av], pub[av], 1e-9, 1e-12):
            viol(f'get_mev_for_nested_mu-scale-one-vs-get_mev_for_nested-{kind}',
                 f'ln G_{a}: mu=1 version {pub_mu[av].tolist()} vs unscaled {pub[av].tolist()}')
        rec.c('relation_term-tuple-vs-object')
        if not close(pub_t[av], pub[av], *X_TOL):
            viol(f'tuple-syntax-get_mev_for_nested-{kind}', f'ln G_{a}: tuple {pub_t[av].tolist()} vs objects {pub[av].tolist()}')
        # (a) the engine's own differentiation of G with respect to the utility column
        d = ev(ex.Derive(models.get_mev_generating_for_nested(V(), AV(), g.Builder(cfg).nl_nests()), f'V{a}'), dbs['0'])
        with np.errstate(all='ignore'):
            dy_a = d * np.exp(-va)  # dG/dy_i = dG/dV_i * exp(-V_i)
            dy_pub = np.exp(pub)
        rec.c('derive_route_compared', int(av.sum()))
        rec.c(f'derive_route_{kind}', int(av.sum()))
        relations_done[0] += 1
        if not close(dy_a[av], dy_pub[av], 1e-9, 0):
            l = int(np.flatnonzero(av & ~(np.abs(dy_a - dy_pub) <= 1e-9 * np.abs(dy_pub)))[0])
            viol(f'generating-function-vs-published-term-{kind}',
                 f'Derive route: dG/dy_{a} = {dy_a[l]!r} (ln = {np.log(dy_a[l]) if dy_a[l] > 0 else None}) but exp(get_mev_for_nested[{a}]) = '
                 f'{dy_pub[l]!r} (ln = {pub[l]!r}) on row {l}', monitor='Derive', alternative=a, row=l, G=g0)
        # (b) five-point central differences on the data column, independent of Derive
        f = {k: ev(G, shifted(a, k)) for k in (-2, -1, 1, 2)}
        D = five_point(f[-2], f[-1], f[1], f[2], h)
        with np.errstate(all='ignore'):
            noise = np.finfo(float).eps * np.abs(g0) / (h * np.abs(D))
            ok = av & np.isfinite(D) & (noise < 1e-8)
            dy_b = D * np.exp(-va)
        rec.c('central_difference_compared', int(ok.sum()))
        rec.c(f'central_difference_{kind}', int(ok.sum()))
        rec.c('central_difference_ill_conditioned', int((av & ~ok).sum()))
        if ok.any() and not close(dy_b[ok], dy_pub[ok], 1e-6, 0):
            l = int(np.flatnonzero(ok & ~(np.abs(dy_b - dy_pub) <= 1e-6 * np.abs(dy_pub)))[0])
            viol(f'generating-function-vs-published-term-{kind}',
                 f'central differences: dG/dy_{a} = {dy_b[l]!r} but exp(get_mev_for_nested[{a}]) = {dy_pub[l]!r} on row {l}',
                 monitor='central-differences', alternative=a, row=l, G=g0)


def finalize(cov, tier):
    out = []
    need = ['relation_nested-all-nest-parameters-one-vs-logit', 'relation_cnl-partition-vs-nested',
            'relation_cnl-partition-vs-nested-zero-allocations-listed', 'relation_cnlmu-partition-vs-nested_mev_mu',
            'relation_nested_mev_mu-scale-one-vs-nested', 'relation_cnlmu-scale-one-vs-cnl', 'relation_tuple-syntax-nested',
            'relation_tuple-syntax-cnl', 'relation_tuple-syntax-cnlmu', 'relation_tuple-syntax-generating-function',
            'derive_route_nest-member', 'derive_route_alone-alternative', 'central_difference_nest-member',
            'central_difference_alone-alternative', 'feature_rows_whole_nest_unavailable', 'feature_nl_alone', 'availability_none',
            'feature_same_nest_members_share_availability_object', 'feature_availability_object_shared_across_nests',
            'availability_objects_group_var', 'availability_objects_group_expr', 'availability_objects_one_object',
            'utility_objects_shared', 'feature_utility_and_availability_dicts_in_different_orders',
            'feature_every_alternative_unavailable_on_some_row']
    for k in need:
        if cov.get(k, 0) == 0:
            out.append(f'relation / workload feature never observed: {k}')
    return out
