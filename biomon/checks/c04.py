"""C04 — the sample log likelihood is the weighted sum of per-observation values.

Workload: seeded (formula, weight formula, table, parameter point) cases from
biomon.gen.c04_models (cross-section logit, random differentiable DAGs, panel
trajectories; 1-400 observation units; weight absent / constant / column /
expression). Every case is pushed through the real public entry points
(BIOGEME.calculate_likelihood, calculate_likelihood_and_derivatives, simulate,
calculate_init_likelihood, NegativeLikelihood) on fresh BIOGEME objects for a sweep of
thread counts, row permutations and row partitions.

Monitors / oracles
  * reference evaluator (biomon.oracle.evalast) on the generator's AST: per-observation value,
    weight, complex-step gradient, finite-difference Hessian -> weighted sums formed here with fsum;
  * what BIOGEME.simulate reports per observation (value and weight) -> weighted sum;
  * disaggregate derivatives of the formula (Expression.get_value_and_derivatives, other engine
    entry point) -> sum of w*g, w*H, w*g*g';
  * metamorphic: thread count, row permutation, partition into parts, repeated evaluation,
    evaluation after a simulate on the same object, scaled = unscaled / sample size;
  * engine proxy: thread count / weight signature / table handed to the engine.
  * extra stage: the thread-count sweep as a stand-alone process under taskset (1, 2, all CPUs),
    with busy competitor processes, and on the ThreadSanitizer build of the pinned engine.
"""
from __future__ import annotations

import glob
import json
import math
import os
import random
import subprocess
import sys
import time
import warnings

import numpy as np

from .. import env
from ..rec import Rec, stable_hash

LEVEL = 'exploration'
RULE = (
    'cases = seeded (log-likelihood formula, weight formula, table, parameter point): cross-section logit with 2-4 '
    'labelled alternatives / random differentiable expression DAG / panel trajectory logit; 1-400 observation units '
    '(rows, or individuals of 1-5 rows for panel); weight absent, constant, column (zeros allowed) or expression; '
    'evaluated at a point different from the default parameter values. A case is non-trivial when the reference '
    'evaluator accepts every row as regular and well conditioned, the formula has >= 1 free parameter and >= 3 '
    'different thread counts were compared; distinct = hash of (formula, weight formula, table, point). '
    'Thread counts from {1,2,3,5,7,8,16,N-1,N,N+1,4N,64}; permutations keep or reset the row labels; partitions '
    'are random assignments of units to 2-5 non-empty parts, each part its own BIOGEME object.'
)
ASSUMPTIONS = [
    'reference semantics of the expression language = biomon/oracle/evalast.py (self-tested in C01 against a third '
    'route; here self-tested on closed-form logit sums)',
    'comparisons are relative to the sum of absolute contributions sum_n |w_n l_n| (resp. |w_n dl_n|, ...): 1e-10 between '
    'two executions of the engine (summation order differs), 1e-12 run to run, 1e-9 / 1e-8 / 2e-6 / 1e-8 against the '
    'reference value / gradient / Hessian (finite differences of complex-step gradients) / BHHH',
    'schedules are sampled, not exhausted: thread counts x repetitions x CPU sets actually run are listed in the '
    'counters; TSan decides data races only for the interleavings that occurred on the instrumented pinned engine',
    'panel data with a data-dependent weight formula is refused by the engine (RuntimeError) and therefore outside '
    'what can be observed; panel cases use no weight or a constant weight',
]
MIN_DISTINCT = {'quick': 120, 'thorough': 900}
CASE_TIMEOUT = 900
SHARD_TIMEOUT = {'quick': 1500, 'thorough': 7200}

N_CASES = {'quick': 288, 'thorough': 1200}
N_HISTORIES = {'quick': 80, 'thorough': 480}
RT_ENGINE = 1e-10
RT_RUN = 1e-12
RT_REF_F = 1e-9
RT_REF_G = 1e-8
RT_REF_H = 2e-6
RT_REF_B = 1e-8
ATOL = 1e-13

DIRECTED = ['threads-lowered-then-simulate', 'threads-raised-then-simulate', 'panel-data-weight',
            'threads-default-is-cpu-count', 'simulate-then-likelihood-same-threads']


def cases(seed, tier):
    out = [{'seed': seed, 'i': i, 'mode': 'model', 'tier': tier} for i in range(N_CASES[tier])]
    # forced family x weight-kind x size corners so that quick covers them whatever the seed
    k = 0
    for kind in ('logit', 'random', 'panel'):
        for n in (1, 2, 3, 17, 64, 400):
            out.append({'seed': seed, 'i': 100000 + k, 'mode': 'model', 'tier': tier, 'kind': kind, 'nrows': n})
            k += 1
    for name in DIRECTED:
        out.append({'seed': seed, 'i': 0, 'mode': 'directed', 'name': name, 'tier': tier})
    # histories on ONE object: seeded operation sequences + scripted ones (bootstrap, then a likelihood call)
    for i in range(N_HISTORIES[tier]):
        out.append({'seed': seed, 'i': i, 'mode': 'history', 'tier': tier})
    k = 0
    for kind in ('logit', 'panel'):
        for weight in (False, True):
            for script in (['bootstrap', 'like'], ['deriv', 'bootstrap', 'deriv'], ['like', 'estimate', 'like_scaled'],
                           ['deriv', 'simulate', 'like'], ['set_threads_down', 'simulate', 'like'], ['quick_estimate', 'deriv_scaled'],
                           ['deriv', 'set_threads_up', 'like'], ['estimate', 'set_threads_up', 'like_scaled', 'deriv'],
                           ['init_like', 'change_init', 'init_like'], ['estimate', 'change_init', 'estimate', 'init_like'],
                           ['init_like', 'random_init', 'init_like', 'like'], ['estimate', 'random_init', 'bootstrap']):
                out.append({'seed': seed, 'i': 900000 + k, 'mode': 'history', 'tier': tier, 'kind': kind, 'weight': weight,
                            'script': script})
                k += 1
    return out


def warmup():
    import biogeme.biogeme  # noqa
    import biogeme.expressions  # noqa
    import biogeme.database  # noqa
    import biogeme.negative_likelihood  # noqa
    from ..monitors import engine_proxy

    engine_proxy.install()
    warnings.simplefilter('ignore')


# --------------------------------------------------------------------------------------------
# oracle side


def _fsum_axis(a):
    """exact-ish sum over the last axis"""
    a = np.asarray(a, dtype=float)
    if a.ndim == 1:
        return math.fsum(a.tolist())
    return np.array([_fsum_axis(x) for x in a])


def reference(spec, bv, names, derivatives=True):
    """Independent per-unit values and their weighted sums. Returns dict or {'ok': False, 'reason'}."""
    from ..gen import c04_models as gm
    from ..oracle import evalast

    us = gm.units(spec)
    groups = us if spec['panel'] else None
    j = evalast.judge(spec['ast'], spec['data'], bv, spec['shared'], panel_groups=groups)
    if not j['ok']:
        return {'ok': False, 'reason': j['reason']}
    ll = np.asarray(j['value'], dtype=float)
    U = len(us)
    if ll.shape != (U,):
        return {'ok': False, 'reason': f'reference shape {ll.shape}'}
    if spec['weight_ast'] is None:
        w = np.ones(U)
    elif spec['panel']:
        w = np.full(U, float(spec['weight_ast'][1]))
    else:
        try:
            w, _ = evalast.evaluate(spec['weight_ast'], spec['data'], {}, [])
        except evalast.OutOfDomain as e:
            return {'ok': False, 'reason': f'weight {e}'}
        w = np.asarray(w, dtype=float)
    out = {'ok': True, 'U': U, 'll': ll, 'w': w, 'F': math.fsum((w * ll).tolist()), 'S_f': float(np.abs(w * ll).sum())}
    if derivatives:
        K = len(names)
        try:
            g = evalast.gradient(spec['ast'], spec['data'], bv, names, spec['shared'], panel_groups=groups)  # (K, U)
            h = evalast.hessian(spec['ast'], spec['data'], bv, names, spec['shared'], panel_groups=groups)  # (K, K, U)
        except (evalast.OutOfDomain, FloatingPointError, OverflowError, ZeroDivisionError) as e:
            return {'ok': False, 'reason': f'derivative {type(e).__name__}'}
        g = np.asarray(g, dtype=float).reshape(K, U)
        h = np.asarray(h, dtype=float).reshape(K, K, U)
        if not (np.all(np.isfinite(g)) and np.all(np.isfinite(h))):
            return {'ok': False, 'reason': 'derivative nonfinite'}
        out['g'] = g
        out['h'] = h
        out['G'] = _fsum_axis(w * g)
        out['S_g'] = np.abs(w * g).sum(axis=1)
        out['H'] = _fsum_axis(w * h)
        out['S_H'] = np.abs(w * h).sum(axis=2)
        gg = g[:, None, :] * g[None, :, :]
        out['B'] = _fsum_axis(w * gg)
        out['S_B'] = (np.abs(w) * np.abs(gg)).sum(axis=2)
    return out


def selftest():
    """The weighted-sum oracle on a hand-computable case: binary logit, closed form."""
    bad = []
    spec = {
        'kind': 'logit', 'shared': [], 'panel': None,
        'ast': ['loglogit', [[1, ['mul', ['beta', 'b'], ['var', 'x']]], [2, ['num', 0.0]]], None, ['var', 'c'], 'log'],
        'data': {'x': [0.5, -1.0, 2.0], 'c': [1.0, 2.0, 1.0], 'WGT': [2.0, 0.0, 0.5]},
        'betas': {'b': [0.1, 0]}, 'weight_ast': ['var', 'WGT'],
    }
    b = 0.7
    ref = reference(spec, {'b': b}, ['b'])
    if not ref['ok']:
        return [f'selftest reference rejected: {ref["reason"]}']
    x = np.array([0.5, -1.0, 2.0])
    ch1 = np.array([1, 0, 1.0])
    w = np.array([2.0, 0.0, 0.5])
    p1 = 1 / (1 + np.exp(-b * x))
    ll = np.where(ch1 == 1, np.log(p1), np.log(1 - p1))
    g = np.where(ch1 == 1, (1 - p1) * x, -p1 * x)
    h = -p1 * (1 - p1) * x * x
    for nm, got, want, tol in (('F', ref['F'], (w * ll).sum(), 1e-13), ('G', ref['G'][0], (w * g).sum(), 1e-12),
                               ('H', ref['H'][0][0], (w * h).sum(), 1e-7), ('B', ref['B'][0][0], (w * g * g).sum(), 1e-12)):
        if not abs(got - want) <= tol * (1 + abs(want)):
            bad.append(f'weighted-sum oracle {nm}: {got} vs closed form {want}')
    # panel: product over the rows of an individual
    ps = dict(spec)
    ps['ast'] = ['log', ['panel', ['loglogit', spec['ast'][1], None, ['var', 'c'], 'prob']]]
    ps['data'] = dict(spec['data'], ID=[7.0, 7.0, 3.0])
    ps['panel'] = 'ID'
    ps['weight_ast'] = ['num', 2.0]
    r2 = reference(ps, {'b': b}, ['b'])
    want = 2.0 * (ll[2] + (ll[0] + ll[1]))
    if not r2['ok'] or abs(r2['F'] - want) > 1e-12 or abs(r2['ll'][0] - ll[2]) > 1e-13:
        bad.append(f'panel weighted-sum oracle: {r2.get("F")} vs {want}')
    return bad


# --------------------------------------------------------------------------------------------
# system-under-test side


def _frame(spec):
    import pandas as pd

    df = pd.DataFrame({k: list(v) for k, v in spec['data'].items()})
    if spec.get('index') is not None:
        df.index = list(spec['index'])
    return df


def _build(spec, threads, route='param', formulas='full', params=None, database=None):
    """fresh expression objects + fresh Database (unless one is given) + fresh BIOGEME. formulas: 'full' (log-like
    and weight as the user gives them) | 'loglike_only'; params: {name: (value, section or None)}"""
    from ..gen import build
    import biogeme.database as db
    from biogeme.biogeme import BIOGEME
    from biogeme.parameters import Parameters

    ll, _ = build.build({'ast': spec['ast'], 'shared': spec['shared'], 'betas': spec['betas']})
    wexpr = None
    if spec['weight_ast'] is not None and formulas == 'full':
        wexpr, _ = build.build({'ast': spec['weight_ast'], 'shared': [], 'betas': {}})
    if wexpr is None:
        f = ll if spec.get('bare') else {spec['ll_key']: ll}
    else:
        f = {spec['ll_key']: ll, spec['w_key']: wexpr}
        if spec.get('weight_first'):
            f = {spec['w_key']: wexpr, spec['ll_key']: ll}
    if database is None:
        d = db.Database('c04', _frame(spec))
        if spec['panel']:
            d.panel(spec['panel'])
    else:
        d = database
    p = Parameters()
    p.set_value('save_iterations', False)
    for nm_, (val_, sec_) in (params or {}).items():
        p.set_value(nm_, val_, sec_)
    kw = {}
    if route == 'param':
        p.set_value('number_of_threads', int(threads), 'MultiThreading')
    elif route == 'kwarg':
        kw['number_of_threads'] = int(threads)
    elif route == 'oldkwarg':
        kw['numberOfThreads'] = int(threads)
    elif route == 'default':
        pass
    else:
        raise ValueError(route)
    bg = BIOGEME(d, f, parameters=p, **kw)
    return bg, d


def _expected_threads(threads, route):
    if route == 'default' or threads == 0:
        return os.cpu_count()
    return int(threads)


def _evaluate(bg, x):
    out = {}
    out['f'] = float(bg.calculate_likelihood(x, scaled=False))
    out['fs'] = float(bg.calculate_likelihood(x, scaled=True))
    r = bg.calculate_likelihood_and_derivatives(x, scaled=False, hessian=True, bhhh=True)
    out['fd'] = float(r.function)
    out['g'] = np.array(r.gradient, dtype=float)
    out['H'] = np.array(r.hessian, dtype=float)
    out['B'] = np.array(r.bhhh, dtype=float)
    r = bg.calculate_likelihood_and_derivatives(x, scaled=True, hessian=True, bhhh=True)
    out['fds'] = float(r.function)
    out['gs'] = np.array(r.gradient, dtype=float)
    out['Hs'] = np.array(r.hessian, dtype=float)
    out['Bs'] = np.array(r.bhhh, dtype=float)
    return out


class _Judge:
    def __init__(self, rec, spec, ref, x, names):
        self.rec = rec
        self.spec = spec
        self.ref = ref
        self.base_wit = {'spec': spec, 'x': list(x), 'free_names': list(names)}
        self.nviol = 0
        self.scale = {'f': ref['S_f'], 'g': ref['S_g'], 'H': ref['S_H'], 'B': ref['S_B']}

    def viol(self, mech, msg, **kw):
        w = dict(self.base_wit)
        if self.nviol:
            w['spec'] = '(same as in the first violation of this case; regenerate with gen.c04_models.make(seed, i, tier))'
        self.nviol += 1
        w.update(kw)
        self.rec.violation('C04/' + mech, msg, w)

    def cmp(self, what, a, b, rt, mech, label, div=1.0, atol=0.0, **kw):
        """a observed, b oracle; what in f,g,H,B selects the scale; div: scales divided by (scaled variants)"""
        self.rec.ev()
        a = np.asarray(a, dtype=float)
        b = np.asarray(b, dtype=float)
        if a.shape != b.shape:
            self.viol(mech, f'{label}: shape {a.shape} vs {b.shape}', observed=a, expected=b, **kw)
            return False
        tol = rt * np.asarray(self.scale[what], dtype=float) / div + ATOL + atol
        with np.errstate(all='ignore'):
            ok = np.abs(a - b) <= tol
        if not np.all(ok):
            with np.errstate(all='ignore'):
                worst = float(np.nanmax(np.abs(a - b) / (np.asarray(self.scale[what], dtype=float) / div + 1e-300)))
            self.viol(mech, f'{label}: observed {a.tolist()} expected {b.tolist()} (deviation/scale {worst:.3g}, allowed {rt:g})',
                      observed=a, expected=b, **kw)
            return False
        return True

    def same(self, va, vb, rt, mech, label, **kw):
        """two executions must agree on f, g, H, BHHH (unscaled)"""
        ok = True
        for what, ka in (('f', 'f'), ('f', 'fd'), ('g', 'g'), ('H', 'H'), ('B', 'B')):
            ok &= self.cmp(what, va[ka], vb[ka], rt, f'{mech}-{_nm(ka)}', f'{label} [{_nm(ka)}]', **kw)
        return ok


def _nm(k):
    return {'f': 'value', 'fd': 'value-with-derivatives', 'g': 'gradient', 'H': 'hessian', 'B': 'bhhh',
            'fs': 'scaled-value', 'fds': 'scaled-value-with-derivatives', 'gs': 'scaled-gradient', 'Hs': 'scaled-hessian',
            'Bs': 'scaled-bhhh'}[k]


def _proxy_checks(J, bg, spec, threads, route, rec, where):
    """what the Python side handed to the engine for this object"""
    calls = getattr(bg.theC, 'calls', None)
    if calls is None:
        rec.inconc('engine proxy not installed')
        return
    exp_t = _expected_threads(threads, route)
    se = [c for c in calls if c['op'] == 'setExpressions']
    if len(se) != 1:
        J.viol('handover-setExpressions-count', f'{len(se)} setExpressions calls at construction ({where})')
        return
    rec.ev()
    rec.c('proxy_setExpressions_checked')
    a = se[0]['args']
    kwargs = se[0]['kwargs']
    got_t = a[1] if len(a) > 1 else kwargs.get('nbrOfThreads')
    if got_t != exp_t:
        J.viol('handover-thread-count', f'{where}: configured {threads} via {route} (expected {exp_t}) but engine given {got_t}',
               route=route, threads=threads)
    wsig = a[2] if len(a) > 2 else kwargs.get('weightFormulas')
    has_w = spec['weight_ast'] is not None
    if has_w != (wsig is not None and len(wsig) > 0):
        J.viol('handover-weight-signature-presence', f'{where}: weight formula given={has_w} but weight signature handed over={wsig is not None}')
    elif has_w:
        if list(wsig) == list(a[0]):
            J.viol('handover-weight-signature-is-loglike', f'{where}: weight signature identical to the log-likelihood signature')
    sd = [c for c in calls if c['op'] == 'setData']
    nrows = len(next(iter(spec['data'].values())))
    for c in sd:
        rec.ev()
        shape = c['args'][0].get('shape') if isinstance(c['args'][0], dict) else None
        if shape is None or shape[0] != nrows or shape[1] != len(spec['data']):
            J.viol('handover-data-shape', f'{where}: table of {nrows}x{len(spec["data"])} but engine given {shape}')
    if not sd:
        J.viol('handover-no-data', f'{where}: no table handed to the engine')
    if bg.number_of_threads != exp_t:
        J.viol('number_of_threads-property', f'{where}: property reports {bg.number_of_threads}, expected {exp_t}')


def _simulate(bg, point):
    sim = bg.simulate(dict(point))
    return sim


def run_case(case):
    rec = Rec(case)
    warnings.simplefilter('ignore')
    if not case:
        rec.inconc('witness of a schedule / sanitizer sub-run has no case to replay: re-run the tier')
        return rec.out()
    if case['mode'] == 'directed':
        _directed(case, rec)
    elif case['mode'] == 'history':
        return _history_forked(case)
    else:
        _model_case(case, rec)
    return rec.out()


def _xlist(names, spec):
    return [float(spec['point'][n]) for n in names]


def _model_case(case, rec):
    from ..gen import c04_models as gm
    from ..oracle import evalast  # noqa
    from biogeme.negative_likelihood import NegativeLikelihood

    tier = case.get('tier', 'quick')
    thorough = tier == 'thorough'
    spec = gm.make(case['seed'], case['i'], tier, kind=case.get('kind'), nrows=case.get('nrows'))
    r = random.Random(f'c04run/{case["seed"]}/{case["i"]}')
    spec['weight_first'] = r.random() < 0.3
    free = sorted(k for k, v in spec['betas'].items() if v[1] == 0)
    us = gm.units(spec)
    U = len(us)
    tl = gm.thread_counts(r, U, 12 if thorough else 5)
    T0 = r.choice(tl)

    # ---- base object ------------------------------------------------------------------------
    try:
        bg, d = _build(spec, T0, 'param')
    except BaseException as e:
        rec.violation(f'C04/construction-raises-{type(e).__name__}', f'{e}', {'spec': spec})
        return
    names = list(bg.free_beta_names)
    if not names or not set(names) <= set(free):
        rec.c('rejected_no_free_parameter')
        return
    bv = {k: v[0] for k, v in spec['betas'].items()}
    bv0 = dict(bv)
    bv.update(spec['point'])
    ref = reference(spec, bv, names)
    if not ref['ok']:
        rec.c('rejected_' + ref['reason'].split(':')[0].replace(' ', '_'))
        return
    x = _xlist(names, spec)
    J = _Judge(rec, spec, ref, x, names)
    rec.c('family_' + spec['kind'])
    rec.c('weight_' + spec['weight_kind'])
    rec.c('units_' + ('1' if U == 1 else '2-8' if U <= 8 else '9-64' if U <= 64 else '65-400'))
    rec.c('free_parameters_%d' % min(len(names), 6))

    def guarded(label, fn, **kw):
        try:
            return True, fn()
        except BaseException as e:  # noqa
            J.viol(f'{label}-raises-{type(e).__name__}', f'{label} raised {type(e).__name__}: {str(e)[:400]}', **kw)
            return False, None

    _proxy_checks(J, bg, spec, T0, 'param', rec, 'base object')
    ok, base = guarded('likelihood-entry-points', lambda: _evaluate(bg, x), threads=T0)
    if not ok:
        return
    rec.c('threads_%d' % T0)

    # (1) one object: the entry points agree with each other, scaled = unscaled / sample size
    J.cmp('f', base['fd'], base['f'], RT_RUN, 'value-with-derivatives-differs-from-value', 'function returned with derivatives vs calculate_likelihood')
    for ks, ku, what in (('fs', 'f', 'f'), ('fds', 'fd', 'f'), ('gs', 'g', 'g'), ('Hs', 'H', 'H'), ('Bs', 'B', 'B')):
        J.cmp(what, base[ks], base[ku] / float(U), 1e-14, f'scaled-{_nm(ku)}-is-not-unscaled-over-sample-size',
              f'scaled {_nm(ku)} vs unscaled / {U}', div=float(U), sample_size=U)
    if bg.database.get_sample_size() != U:
        J.viol('sample-size', f'get_sample_size()={bg.database.get_sample_size()} for {U} observation units')

    # (2) against the independent reference: weighted sums
    J.cmp('f', base['f'], ref['F'], RT_REF_F, 'value-differs-from-reference-weighted-sum', 'calculate_likelihood vs sum w*l (reference)', threads=T0)
    rec.c('reference_compared')
    rec.key([spec['ast'], spec['shared'], spec['weight_ast'], spec['data'], spec['point']]) if len(tl) >= 3 else None
    rec.sample({'family': spec['kind'], 'units': U, 'weight': spec['weight_kind'], 'free': names, 'x': x, 'threads': tl,
                'reference_sum': ref['F'], 'calculate_likelihood': base['f']})

    # (3) what simulate reports for the same parameters, on the same object, then likelihood again
    point = {n: spec['point'][n] for n in names}
    sim_same_object = not (spec['panel'] and spec['weight_ast'] is not None)
    sbg = bg
    if not sim_same_object:
        # panel: simulate refuses a formula without trajectory (the constant weight) -> log-like alone
        ok, pair = guarded('construction-for-simulate', lambda: _build(spec, T0, 'param', formulas='loglike_only'))
        if not ok:
            return
        sbg = pair[0]
    ok, sim = guarded('simulate', lambda: _simulate(sbg, point), threads=T0)
    if not ok:
        return
    llname = 'log_like' if (spec.get('bare') and spec['weight_ast'] is None) else spec['ll_key']
    rec.c('simulate_runs')
    if llname not in sim.columns or len(sim) != U:
        J.viol('simulate-shape', f'simulate returned columns {list(sim.columns)} and {len(sim)} rows for {U} units')
        return
    sl = sim[llname].to_numpy(dtype=float)
    if spec['weight_ast'] is not None and sim_same_object:
        sw = sim[spec['w_key']].to_numpy(dtype=float)
        rec.ev()
        if not np.all(np.abs(sw - ref['w']) <= 1e-9 * np.abs(ref['w']) + 1e-12):
            J.viol('simulated-weight-differs-from-reference', f'simulate weight {sw.tolist()[:8]} reference {ref["w"].tolist()[:8]}')
    else:
        sw = ref['w']
    rec.ev()
    if not np.all(np.abs(sl - ref['ll']) <= 1e-9 * np.abs(ref['ll']) + 1e-11):
        J.viol('simulated-value-differs-from-reference', f'simulate {sl.tolist()[:8]} reference {ref["ll"].tolist()[:8]}')
    ssum = math.fsum((sw * sl).tolist())
    J.cmp('f', base['f'], ssum, RT_ENGINE, 'value-differs-from-weighted-sum-of-simulated', 'calculate_likelihood vs sum of weight*simulate', threads=T0)
    J.cmp('f', base['fs'], ssum / U, RT_ENGINE, 'scaled-value-differs-from-weighted-sum-of-simulated-over-sample-size',
          'scaled calculate_likelihood vs sum of weight*simulate / N', div=float(U), threads=T0)
    rec.c('simulate_sum_compared')
    if sim_same_object:
        ok, again = guarded('likelihood-after-simulate', lambda: _evaluate(bg, x), threads=T0)
        if not ok:
            return
        J.same(again, base, RT_RUN, 'evaluation-after-simulate-differs', 'same object, after simulate (same thread count)', threads=T0)
        rec.c('after_simulate_compared')

    # (4) disaggregate derivatives of the formula (other engine entry point) aggregated here
    def disagg():
        from ..gen import build
        import biogeme.database as db

        e2, _ = build.build({'ast': spec['ast'], 'shared': spec['shared'], 'betas': spec['betas']})
        d2 = db.Database('c04d', _frame(spec))
        if spec['panel']:
            d2.panel(spec['panel'])
        rr = e2.get_value_and_derivatives(betas=dict(point), database=d2, gradient=True, hessian=True, bhhh=True,
                                          aggregation=False, prepare_ids=True, named_results=True)
        fo = rr.function_output
        dnames_ = [k for k, _ in sorted(rr.mapping.items(), key=lambda kv: kv[1])]
        return (np.asarray(fo.functions, dtype=float), np.asarray(fo.gradients, dtype=float),
                np.asarray(fo.hessians, dtype=float), dnames_)

    ok, dz = guarded('disaggregate-derivatives', disagg)
    if ok:
        df_, dg, dh, dnames = dz
        if dnames != names or df_.shape != (U,) or dg.shape != (U, len(names)):
            rec.c('disaggregate_not_comparable')
        else:
            w = sw
            J.cmp('f', base['f'], math.fsum((w * df_).tolist()), RT_ENGINE, 'value-differs-from-weighted-sum-of-disaggregate', 'value vs sum w*f_n (disaggregate)')
            J.cmp('g', base['g'], _fsum_axis((w[:, None] * dg).T), RT_ENGINE, 'gradient-differs-from-weighted-sum-of-disaggregate', 'gradient vs sum w*g_n (disaggregate)')
            J.cmp('H', base['H'], _fsum_axis(np.transpose(w[:, None, None] * dh, (1, 2, 0))), RT_ENGINE,
                  'hessian-differs-from-weighted-sum-of-disaggregate', 'hessian vs sum w*H_n (disaggregate)')
            gg = dg[:, :, None] * dg[:, None, :]
            J.cmp('B', base['B'], _fsum_axis(np.transpose(w[:, None, None] * gg, (1, 2, 0))), RT_ENGINE,
                  'bhhh-differs-from-weighted-sum-of-disaggregate', 'BHHH vs sum w*g_n*g_nT (disaggregate)')
            rec.c('disaggregate_compared')
            # Reference derivatives decide the *aggregation* only where the per-observation derivatives the engine
            # reports agree with the reference (a per-observation derivative defect belongs to C02, not here).
            with np.errstate(all='ignore'):
                g_ok = np.all(np.abs(dg - ref['g'].T) <= 1e-8 * np.abs(ref['g'].T) + 1e-10)
                h_ok = np.all(np.abs(dh - np.transpose(ref['h'], (2, 0, 1))) <= RT_REF_H * np.abs(np.transpose(ref['h'], (2, 0, 1))) + 1e-7)
            if g_ok:
                J.cmp('g', base['g'], ref['G'], RT_REF_G, 'gradient-differs-from-reference-weighted-sum', 'gradient vs sum w*dl (reference)', threads=T0)
                J.cmp('B', base['B'], ref['B'], RT_REF_B, 'bhhh-differs-from-reference-weighted-sum', 'BHHH vs sum w*g*gT (reference)', threads=T0)
                rec.c('reference_gradient_bhhh_compared')
            else:
                rec.c('per_observation_gradient_differs_from_reference_left_to_C02')
            if g_ok and h_ok:
                # noise floor of the finite-difference reference: eps*|g_n|/step per observation
                fd_noise = 1e-8 * (ref['S_g'][:, None] + ref['S_g'][None, :]) + 1e-9 * float(np.abs(ref['w']).sum())
                J.cmp('H', base['H'], ref['H'], RT_REF_H, 'hessian-differs-from-reference-weighted-sum', 'hessian vs sum w*d2l (reference)',
                      atol=fd_noise, threads=T0)
                rec.c('reference_hessian_compared')
            elif g_ok:
                rec.c('per_observation_hessian_differs_from_reference_left_to_C02')

    # (5) value at the default parameter values, the function handed to the optimiser
    ref0 = reference(spec, bv0, names, derivatives=False)
    if ref0['ok']:
        ok, f0 = guarded('calculate_init_likelihood', lambda: float(bg.calculate_init_likelihood()))
        if ok:
            rec.ev()
            rec.c('init_likelihood_compared')
            if not abs(f0 - ref0['F']) <= RT_REF_F * ref0['S_f'] + ATOL:
                J.viol('init-likelihood-differs-from-reference-weighted-sum', f'calculate_init_likelihood={f0} reference={ref0["F"]}')

    def negl():
        nl = NegativeLikelihood(dimension=len(names), like=bg.calculate_likelihood,
                                like_derivatives=bg.calculate_likelihood_and_derivatives)
        nl.set_variables(np.array(x, dtype=float))
        a = nl.f()
        b = nl.f_g()
        c = nl.f_g_h()
        return a, b, c

    ok, nn = guarded('negative-likelihood', negl)
    if ok:
        a, b, c = nn
        rec.c('negative_likelihood_compared')
        J.cmp('f', -a, base['f'], RT_RUN, 'negative-likelihood-value', 'NegativeLikelihood.f vs -calculate_likelihood')
        J.cmp('f', -b.function, base['f'], RT_RUN, 'negative-likelihood-value', 'NegativeLikelihood.f_g function')
        J.cmp('g', -np.asarray(b.gradient, dtype=float), base['g'], RT_RUN, 'negative-likelihood-gradient', 'NegativeLikelihood.f_g gradient')
        J.cmp('f', -c.function, base['f'], RT_RUN, 'negative-likelihood-value', 'NegativeLikelihood.f_g_h function')
        J.cmp('g', -np.asarray(c.gradient, dtype=float), base['g'], RT_RUN, 'negative-likelihood-gradient', 'NegativeLikelihood.f_g_h gradient')
        J.cmp('H', -np.asarray(c.hessian, dtype=float), base['H'], RT_RUN, 'negative-likelihood-hessian', 'NegativeLikelihood.f_g_h hessian')

    # (6) thread-count sweep: fresh object per count, configured through the different public routes
    compared_threads = {T0}
    for T in tl:
        route = 'param'
        c = r.random()
        if c < 0.15:
            route = 'kwarg'
        elif c < 0.25:
            route = 'oldkwarg'
        ok, pair = guarded('construction', lambda: _build(spec, T, route), threads=T, route=route)
        if not ok:
            return
        b2 = pair[0]
        _proxy_checks(J, b2, spec, T, route, rec, f'threads={T}')
        ok, v = guarded('likelihood-entry-points', lambda: _evaluate(b2, x), threads=T)
        if not ok:
            return
        rec.c('threads_%d' % T)
        rec.c('thread_rel_' + ('lt_units' if T < U else 'eq_units' if T == U else 'gt_units'))
        rec.c('route_' + route)
        compared_threads.add(T)
        J.same(v, base, RT_ENGINE, 'depends-on-thread-count', f'threads={T} vs threads={T0}', threads=T, base_threads=T0)
        J.cmp('f', v['fs'], base['fs'], RT_ENGINE, 'depends-on-thread-count-scaled-value', f'scaled value threads={T} vs {T0}', div=float(U), threads=T)
        if r.random() < (0.6 if thorough else 0.4):
            reps = 3 if thorough else 2
            for _ in range(reps):
                ok, v2 = guarded('likelihood-entry-points', lambda: _evaluate(b2, x), threads=T)
                if not ok:
                    return
                J.same(v2, v, RT_RUN, 'run-to-run-variation', f'repeated evaluation, threads={T}', threads=T)
                rec.c('repeated_evaluations')
    # 0 -> number of CPUs (explicit zero and untouched default)
    if r.random() < 0.35:
        route = r.choice(['param', 'default', 'kwarg'])
        ok, pair = guarded('construction', lambda: _build(spec, 0, route), threads=0, route=route)
        if not ok:
            return
        b0 = pair[0]
        _proxy_checks(J, b0, spec, 0, route, rec, f'threads=0 ({route})')
        ok, v = guarded('likelihood-entry-points', lambda: _evaluate(b0, x), threads=0)
        if not ok:
            return
        J.same(v, base, RT_ENGINE, 'depends-on-thread-count', f'threads=0 (cpu count) vs threads={T0}', threads=0, base_threads=T0)
        rec.c('threads_0_resolved_to_cpu_count')
        ok, s0 = guarded('simulate', lambda: _simulate(b0, point) if sim_same_object else None, threads=0)
        if ok and s0 is not None:
            sc = [c_ for c_ in b0.theC.calls if c_['op'] == 'simulateSeveralFormulas']
            rec.ev()
            if sc and sc[-1]['args'][4] != os.cpu_count():
                J.viol('handover-thread-count-simulate', f'simulate handed {sc[-1]["args"][4]} threads for configured 0 (cpu count {os.cpu_count()})')
            rec.ev()
            if not np.all(np.abs(s0[llname].to_numpy(dtype=float) - sl) <= RT_ENGINE * np.abs(sl) + ATOL):
                J.viol('simulate-depends-on-thread-count', 'per-observation values differ between thread counts', threads=0)

    # (7) row permutations (units shuffled; rows inside an individual shuffled too)
    nperm = 5 if thorough else 2
    if U >= 2 or (spec['panel'] and len(us[0]) > 1):
        for k in range(nperm):
            order = list(range(U))
            r.shuffle(order)
            uo = []
            for ui in order:
                rows = list(us[ui])
                r.shuffle(rows)
                uo.append(rows)
            sp = gm.subset(spec, uo)
            keep_labels = r.random() < 0.5
            if keep_labels:
                sp['index'] = [i for u_ in uo for i in u_]
            T = r.choice(tl)
            ok, pair = guarded('construction', lambda: _build(sp, T, 'param'), threads=T, permutation=order[:50], keep_labels=keep_labels)
            if not ok:
                return
            ok, v = guarded('likelihood-entry-points', lambda: _evaluate(pair[0], x), threads=T, permutation=order[:50])
            if not ok:
                return
            J.same(v, base, RT_ENGINE, 'depends-on-row-order', f'permuted rows (labels kept={keep_labels}) threads={T}', threads=T,
                   permutation=order[:200], keep_labels=keep_labels)
            J.cmp('f', v['fs'], base['fs'], RT_ENGINE, 'depends-on-row-order-scaled-value', 'scaled value, permuted rows', div=float(U))
            rec.c('permutations_compared')
            rec.c('permutation_labels_kept' if keep_labels else 'permutation_labels_reset')

    # (8) partitions: parts evaluated separately must add up
    npart = 3 if thorough else 1
    if U >= 2:
        for k in range(npart):
            P = r.randint(2, min(5, U))
            assign = list(range(P)) + [r.randrange(P) for _ in range(U - P)]
            r.shuffle(assign)
            tot = {'f': 0.0, 'fd': 0.0, 'g': 0.0, 'H': 0.0, 'B': 0.0, 'fsN': 0.0, 'gsN': 0.0}
            sizes = []
            failed = False
            for p_ in range(P):
                uo = [us[i] for i in range(U) if assign[i] == p_]
                sp = gm.subset(spec, uo)
                T = r.choice(tl)
                ok, pair = guarded('construction', lambda: _build(sp, T, 'param'), threads=T, part_size=len(uo))
                if not ok:
                    return
                ok, v = guarded('likelihood-entry-points', lambda: _evaluate(pair[0], x), threads=T, part_size=len(uo))
                if not ok:
                    return
                sizes.append(len(uo))
                for kk in ('f', 'fd', 'g', 'H', 'B'):
                    tot[kk] = tot[kk] + v[kk]
                tot['fsN'] += v['fs'] * len(uo)
                tot['gsN'] = tot['gsN'] + v['gs'] * len(uo)
            J.same(tot, base, RT_ENGINE, 'parts-do-not-add-up', f'sum over {P} parts of sizes {sizes} vs whole', part_sizes=sizes, assignment=assign[:200])
            J.cmp('f', tot['fsN'] / U, base['fs'], RT_ENGINE, 'parts-do-not-add-up-scaled-value', 'sum of part_size*scaled / N vs scaled whole', div=float(U), part_sizes=sizes)
            J.cmp('g', tot['gsN'] / U, base['gs'], RT_ENGINE, 'parts-do-not-add-up-scaled-gradient', 'sum of part_size*scaled gradient / N', div=float(U), part_sizes=sizes)
            rec.c('partitions_compared')
            rec.c('partition_parts_%d' % P)
    if len(compared_threads) < 3:
        rec.keys.clear()


# --------------------------------------------------------------------------------------------
# directed cases


def _directed_spec(n=23, weight=True):
    from ..gen import c04_models as gm

    spec = gm.make(424242, 7, 'quick', kind='logit', nrows=n)
    r = random.Random(5)
    if weight:
        spec['data'] = dict(spec['data'])
        spec['data']['WGT'] = [round(r.uniform(0.5, 2.0), 3) for _ in range(n)]
        spec['weight_ast'] = ['var', 'WGT']
        spec['weight_kind'] = 'column'
        spec['bare'] = False
    return spec


def _thread_change_child(arg):
    """runs in its own forked process: configure t_build threads, evaluate, change the parameter through the public
    setter, simulate, evaluate again"""
    spec, t_build, t_new = arg
    bg, d = _build(spec, t_build, 'param')
    names = list(bg.free_beta_names)
    x = _xlist(names, spec)
    point = {n: spec['point'][n] for n in names}
    before = float(bg.calculate_likelihood(x, scaled=False))
    bg.number_of_threads = t_new
    sim = bg.simulate(point)
    ssum = math.fsum((sim[spec['ll_key']].to_numpy(dtype=float) * sim[spec['w_key']].to_numpy(dtype=float)).tolist())
    after = float(bg.calculate_likelihood(x, scaled=False))
    r = bg.calculate_likelihood_and_derivatives(x, scaled=False, hessian=True, bhhh=True)
    return {'before': before, 'simulated_weighted_sum': ssum, 'after': after, 'after_with_derivatives': float(r.function),
            'names': names, 'x': x}


def _directed(case, rec):
    from ..worker import run_forked
    from ..gen import c04_models as gm

    name = case['name']
    rec.c('directed_' + name)
    if name in ('threads-lowered-then-simulate', 'threads-raised-then-simulate'):
        spec = _directed_spec()
        tb, tn = (4, 1) if name.startswith('threads-lowered') else (1, 4)
        res = run_forked(_thread_change_child, (spec, tb, tn), 120)
        wit = {'spec': spec, 'threads_at_construction': tb, 'threads_set_before_simulate': tn, 'outcome': res}
        rec.ev()
        rec.key(['directed', name])
        direction = 'lowered' if tn < tb else 'raised'
        mech = f'C04/threads-{direction}-by-setter-then-simulate-then-likelihood'
        if res.get('timeout'):
            rec.inconc(f'{name}: watchdog')
            return
        if 'crash_signal' in res:
            rec.violation(mech, f'constructed with {tb} threads, number_of_threads set to {tn}, simulate, then calculate_likelihood: '
                                f'process died with signal {res["crash_signal"]}', wit)
            return
        if 'harness_error' in res:
            rec.violation(mech, f'constructed with {tb} threads, number_of_threads set to {tn}, simulate, then calculate_likelihood raised: '
                                f'{res["harness_error"]}', wit)
            return
        names = res['names']
        bv = {k: v[0] for k, v in spec['betas'].items()}
        bv.update(spec['point'])
        ref = reference(spec, bv, names, derivatives=False)
        if not ref['ok']:
            rec.inconc(f'{name}: reference rejected the directed case')
            return
        tol = RT_REF_F * ref['S_f'] + ATOL
        if abs(res['before'] - ref['F']) > tol or abs(res['simulated_weighted_sum'] - ref['F']) > tol:
            rec.violation('C04/directed-baseline-differs-from-reference', f'before={res["before"]} sim={res["simulated_weighted_sum"]} ref={ref["F"]}', wit)
            return
        if abs(res['after'] - ref['F']) > tol or abs(res['after_with_derivatives'] - ref['F']) > tol:
            rec.violation(mech, f'constructed with {tb} threads, number_of_threads set to {tn}, simulate, then calculate_likelihood returns '
                                f'{res["after"]} (with derivatives {res["after_with_derivatives"]}) but the weighted sum of what simulate reported is '
                                f'{res["simulated_weighted_sum"]} (reference {ref["F"]}, value before {res["before"]})', wit)
        return
    if name == 'panel-data-weight':
        # informational: where the observable domain ends (engine refuses a data-dependent weight on panel data)
        spec = gm.make(424242, 9, 'quick', kind='panel', nrows=6)
        n = len(spec['data']['ID'])
        col = []
        last = None
        v = 1.0
        for i_ in spec['data']['ID']:
            if i_ != last:
                v = round(0.5 + 0.25 * len(col) % 3, 3)
                last = i_
            col.append(v)
        spec['data'] = dict(spec['data'], WGT=col)
        spec['weight_ast'] = ['var', 'WGT']
        spec['bare'] = False

        def child(_):
            bg, d = _build(spec, 2, 'param')
            names = list(bg.free_beta_names)
            return {'value': float(bg.calculate_likelihood(_xlist(names, spec), scaled=False))}

        res = run_forked(child, None, 120)
        if 'harness_error' in res:
            rec.c('panel_data_weight_refused_with_error')
        elif 'crash_signal' in res:
            rec.violation('C04/panel-data-weight-native-crash', f'signal {res["crash_signal"]}', {'spec': spec})
        else:
            rec.c('panel_data_weight_returned_value')
        return
    if name == 'threads-default-is-cpu-count':
        spec = _directed_spec(n=40)
        bg, d = _build(spec, 0, 'default')
        names = list(bg.free_beta_names)
        bv = {k: v[0] for k, v in spec['betas'].items()}
        bv.update(spec['point'])
        ref = reference(spec, bv, names)
        J = _Judge(rec, spec, ref, _xlist(names, spec), names)
        _proxy_checks(J, bg, spec, 0, 'default', rec, 'default parameters')
        v = _evaluate(bg, _xlist(names, spec))
        J.cmp('f', v['f'], ref['F'], RT_REF_F, 'value-differs-from-reference-weighted-sum', 'default thread count')
        rec.key(['directed', name])
        rec.c('threads_0_resolved_to_cpu_count')
        return
    if name == 'simulate-then-likelihood-same-threads':
        spec = _directed_spec(n=23)
        for T in (1, 4, 23, 64):
            bg, d = _build(spec, T, 'param')
            names = list(bg.free_beta_names)
            x = _xlist(names, spec)
            bv = {k: v[0] for k, v in spec['betas'].items()}
            bv.update(spec['point'])
            ref = reference(spec, bv, names)
            J = _Judge(rec, spec, ref, x, names)
            bg.simulate({n: spec['point'][n] for n in names})
            v = _evaluate(bg, x)
            J.cmp('f', v['f'], ref['F'], RT_REF_F, 'value-differs-from-reference-weighted-sum', f'simulate first, then likelihood, threads={T}', threads=T)
            J.cmp('g', v['g'], ref['G'], RT_REF_G, 'gradient-differs-from-reference-weighted-sum', f'simulate first, threads={T}', threads=T)
        rec.key(['directed', name])
        return
    raise ValueError(name)


# --------------------------------------------------------------------------------------------
# histories on one object


HIST_OPS = ['like', 'like_scaled', 'deriv', 'deriv_scaled', 'deriv_nohess', 'simulate', 'set_threads', 'set_threads_alias',
            'estimate', 'quick_estimate', 'bootstrap', 'validate', 'dbop', 'init_like', 'change_init', 'random_init', 'null_like']
HIST_WEIGHTS = [4, 3, 4, 3, 2, 4, 3, 1, 1, 1, 2, 0.4, 1.2, 3, 2, 1, 0.6]


def _force_weight(spec, want, r):
    n = len(next(iter(spec['data'].values())))
    if not want:
        spec['weight_ast'] = None
        spec['weight_kind'] = 'none'
        spec['data'] = {k: v for k, v in spec['data'].items() if k != 'WGT'}
    elif spec['weight_ast'] is None:
        if spec['panel']:
            spec['weight_ast'] = ['num', 2.5]
            spec['weight_kind'] = 'const'
        else:
            spec['data'] = dict(spec['data'], WGT=[round(r.uniform(0.2, 3.0), 3) for _ in range(n)])
            spec['weight_ast'] = ['var', 'WGT']
            spec['weight_kind'] = 'column'
    spec['bare'] = spec['weight_ast'] is None and spec.get('bare', False)


_PROGRESS = {'path': None}


def _progress(history, flags):
    if _PROGRESS['path']:
        try:
            with open(_PROGRESS['path'], 'w') as f:
                json.dump({'history': list(history), 'flags': flags}, f)
        except OSError:
            pass


def _history_child(case):
    rec = Rec(case)
    warnings.simplefilter('ignore')
    if _PROGRESS.get('cwd'):
        # iteration files, biogeme.toml of validate ... stay private to this history
        os.makedirs(_PROGRESS['cwd'], exist_ok=True)
        os.chdir(_PROGRESS['cwd'])
    _history_case(case, rec)
    return rec.out()


def _history_forked(case):
    """The history runs in its own forked process (a native crash must leave a structured witness: the operations
    executed so far are streamed to a progress file)."""
    from ..worker import run_forked

    _PROGRESS['path'] = os.path.join(os.environ.get('BIOMON_WORKDIR') or '.', f'c04_history_progress_{os.getpid()}.json')
    try:
        os.remove(_PROGRESS['path'])
    except OSError:
        pass
    _PROGRESS['cwd'] = os.path.join(os.environ.get('BIOMON_WORKDIR') or '.', f'c04_history_cwd_{os.getpid()}')
    import shutil

    shutil.rmtree(_PROGRESS['cwd'], ignore_errors=True)
    try:
        res = run_forked(_history_child, case, max(60.0, CASE_TIMEOUT - 60.0))
    finally:
        shutil.rmtree(_PROGRESS['cwd'], ignore_errors=True)
    prog = {}
    try:
        with open(_PROGRESS['path']) as f:
            prog = json.load(f)
        os.remove(_PROGRESS['path'])
    except (OSError, ValueError):
        pass
    if 'n' in res:
        return res
    rec = Rec(case)
    rec.c('history_cases_run')
    if res.get('timeout'):
        rec.inconc(f'history case watchdog after {prog.get("history")}')
        return rec.out()
    if 'crash_signal' in res:
        hist = prog.get('history') or ['(before the first operation)']
        flags = prog.get('flags') or {}
        last = hist[-1].split('=')[0].split(':')[0]
        entry = {'like': 'calculate_likelihood', 'like_scaled': 'calculate_likelihood', 'deriv': 'calculate_likelihood_and_derivatives',
                 'deriv_scaled': 'calculate_likelihood_and_derivatives', 'deriv_nohess': 'calculate_likelihood_and_derivatives'}.get(last, last)
        # estimations evaluate the function alone too (line search of the optimiser)
        if entry in ('calculate_likelihood', 'estimate', 'quick_estimate', 'bootstrap', 'validate') and flags.get('threads_raised_after_derivatives'):
            mech = 'C04/history-native-crash-calculate_likelihood-after-derivatives-then-threads-raised-by-setter'
        else:
            mech = f'C04/history-native-crash-in-{entry}'
        rec.ev()
        rec.key(['history-crash', case])
        rec.violation(mech, f'process died with signal {res["crash_signal"]} in {hist[-1]} after {hist[:-1]} on one BIOGEME object',
                      {'history': hist, 'flags': flags, 'case': case})
        return rec.out()
    rec.inconc('history case: ' + str(res.get('harness_error'))[:300] + ' | ' + str(res.get('tb'))[-600:])
    return rec.out()


def _history_case(case, rec):
    """One BIOGEME object taken through a sequence of public operations; after every likelihood call the value is
    judged against (a) the weighted sum of what simulate reports on a fresh single-thread object built on the data
    set in force, (b) that fresh object's own likelihood / derivatives, (c) the reference evaluator."""
    from ..gen import c04_models as gm
    from ..gen import build
    import biogeme.expressions as ex

    tier = case.get('tier', 'quick')
    r = random.Random(f'c04hist/{case["seed"]}/{case["i"]}')
    kind = case.get('kind') or r.choice(['logit', 'logit', 'panel'])
    n = r.choice([4, 5, 6, 7, 9, 13, 17, 23, 40, 60])
    spec = gm.make(case['seed'], 500000 + case['i'], tier, kind=kind, nrows=n)
    _force_weight(spec, case['weight'] if 'weight' in case else (r.random() < 0.5), r)
    us = gm.units(spec)
    U = len(us)
    tpool = sorted({1, 2, 3, 5, 8, 16, 64, U + 1, max(1, U - 1), 4 * U})
    T0 = r.choice(tpool + [0])
    if 'script' in case and 'set_threads_down' in case['script']:
        T0 = r.choice([8, 16, 0])
    if 'script' in case and 'set_threads_up' in case['script']:
        T0 = r.choice([1, 2])
    flags = {'derivatives_called': False, 'threads_raised_after_derivatives': False, 'resolved_threads': _expected_threads(T0, 'param')}
    params = {'max_iterations': (r.randint(1, 4), 'SimpleBounds'), 'bootstrap_samples': (r.randint(1, 3), None),
              'generate_html': (False, None), 'generate_pickle': (False, None)}
    if r.random() < 0.3:
        # a later estimate then starts from the saved iteration file (private cwd): the starting point handed to the
        # optimiser is observed (spy on optimize), never assumed
        params['save_iterations'] = (True, None)
        rec.c('history_save_iterations_on')
    state = {'spec': spec, 'version': 0}
    history = []
    wit = {'spec': spec, 'threads_at_construction': T0, 'parameters': {k: v[0] for k, v in params.items()}, 'history': history}

    def viol(mech, msg, **kw):
        w = dict(wit)
        w['history'] = list(history)
        if rec.cov.get('violations_raw', 0):
            w['spec'] = '(see the first violation of this case)'
        w.update(kw)
        rec.violation('C04/' + mech, msg, w)

    try:
        bg, d = _build(spec, T0, 'param', params=params)
    except BaseException as e:
        viol(f'history-construction-raises-{type(e).__name__}', str(e)[:400])
        return
    state['bg'], state['d'] = bg, d
    names = list(bg.free_beta_names)
    if not names:
        rec.c('rejected_no_free_parameter')
        return
    rec.c('history_family_' + kind)
    rec.c('history_weight_' + ('yes' if spec['weight_ast'] is not None else 'no'))
    pts = [dict(spec['point'])]
    used = set()
    pts.append({k: round(v + r.uniform(-0.4, 0.4), 3) for k, v in spec['point'].items()})
    fresh_cache = {}

    def fresh(pt):
        """expected values at the point on the data set in force: independent reference + fresh single-thread object"""
        sp = state['spec']
        key = (state['version'], tuple(sorted(pt.items())))
        if key in fresh_cache:
            return fresh_cache[key]
        bv = {k: v[0] for k, v in sp['betas'].items()}
        bv.update(pt)
        ref = reference(sp, bv, names)
        out = None
        if ref['ok']:
            fb, _ = _build(sp, 1, 'param')
            x = [float(pt[nm]) for nm in names]
            ev = _evaluate(fb, x)
            sim_spec_ok = not (sp['panel'] and sp['weight_ast'] is not None)
            sb = fb if sim_spec_ok else _build(sp, 1, 'param', formulas='loglike_only')[0]
            sim = sb.simulate({nm: pt[nm] for nm in names})
            llname = 'log_like' if (sp.get('bare') and sp['weight_ast'] is None) else sp['ll_key']
            sl = sim[llname].to_numpy(dtype=float)
            sw = sim[sp['w_key']].to_numpy(dtype=float) if (sp['weight_ast'] is not None and sim_spec_ok) else ref['w']
            out = {'ref': ref, 'fresh': ev, 'sim_sum': math.fsum((sw * sl).tolist()), 'sim_ll': sl, 'U': ref['U'], 'x': x,
                   'J': _Judge(rec, sp, ref, x, names)}
            J = out['J']
            # the expectation itself must be coherent before it judges anything
            J.cmp('f', ev['f'], ref['F'], RT_REF_F, 'fresh-single-thread-value-differs-from-reference-weighted-sum', 'fresh object vs reference')
            J.cmp('f', out['sim_sum'], ref['F'], RT_REF_F, 'weighted-sum-of-simulated-differs-from-reference-weighted-sum', 'fresh simulate sum vs reference')
        fresh_cache[key] = out
        return out

    def judge_call(op, pt, got, scaled, which):
        exp = fresh(pt)
        if exp is None:
            rec.c('history_point_rejected_by_reference')
            return
        J = exp['J']
        div = float(exp['U']) if scaled else 1.0
        hw = {'history': list(history), 'after': op, 'scaled': scaled, 'x': exp['x']}
        rec.c('history_calls_judged')
        if any(h in ('bootstrap',) for h in history[:-1]):
            rec.c('history_calls_judged_after_bootstrap')
        if any(h in ('estimate', 'quick_estimate') for h in history[:-1]):
            rec.c('history_calls_judged_after_estimation')
        if 'simulate' in history[:-1]:
            rec.c('history_calls_judged_after_simulate')
        if any(h.startswith('set_threads') for h in history[:-1]):
            rec.c('history_calls_judged_after_thread_change')
        J.cmp('f', got['f'], exp['sim_sum'] / div, RT_ENGINE, 'history-value-differs-from-weighted-sum-of-simulated',
              f'{op} after {history[:-1]}: value vs weighted sum of simulate (data set in force)', div=div, **hw)
        J.cmp('f', got['f'], exp['ref']['F'] / div, RT_REF_F, 'history-value-differs-from-reference-weighted-sum',
              f'{op} after {history[:-1]}: value vs reference', div=div, **hw)
        J.cmp('f', got['f'], exp['fresh']['f'] / div, RT_ENGINE, 'history-value-differs-from-fresh-single-thread-object',
              f'{op} after {history[:-1]}: value vs fresh single-thread object', div=div, **hw)
        for k_, what in (('g', 'g'), ('H', 'H'), ('B', 'B')):
            if k_ in which:
                J.cmp(what, got[k_], exp['fresh'][k_] / div, RT_ENGINE, f'history-{_nm(k_)}-differs-from-fresh-single-thread-object',
                      f'{op} after {history[:-1]}: {_nm(k_)} vs fresh single-thread object', div=div, **hw)

    def pick_point():
        return r.choice(pts)

    def do_like(scaled):
        pt = pick_point()
        x = [float(pt[nm]) for nm in names]
        f = float(state['bg'].calculate_likelihood(x, scaled=scaled))
        judge_call(history[-1], pt, {'f': f}, scaled, '')

    def do_deriv(scaled, hessian=True, bhhh=True):
        pt = pick_point()
        x = [float(pt[nm]) for nm in names]
        o = state['bg'].calculate_likelihood_and_derivatives(x, scaled=scaled, hessian=hessian, bhhh=bhhh)
        flags['derivatives_called'] = True
        flags['threads_raised_after_derivatives'] = False
        got = {'f': float(o.function), 'g': np.array(o.gradient, dtype=float)}
        which = 'g'
        if hessian:
            got['H'] = np.array(o.hessian, dtype=float)
            which += 'H'
        if bhhh:
            got['B'] = np.array(o.bhhh, dtype=float)
            which += 'B'
        judge_call(history[-1], pt, got, scaled, which)

    def do_simulate():
        sp = state['spec']
        if sp['panel'] and sp['weight_ast'] is not None:
            rec.c('history_simulate_skipped_panel_constant_weight')
            return
        pt = pick_point()
        sim = state['bg'].simulate({nm: pt[nm] for nm in names})
        exp = fresh(pt)
        if exp is None:
            return
        llname = 'log_like' if (sp.get('bare') and sp['weight_ast'] is None) else sp['ll_key']
        rec.ev()
        sl = sim[llname].to_numpy(dtype=float)
        if sl.shape != exp['sim_ll'].shape or not np.all(np.abs(sl - exp['sim_ll']) <= RT_ENGINE * np.abs(exp['sim_ll']) + ATOL):
            viol('history-simulate-differs-from-fresh-single-thread-object', f'simulate after {history[:-1]} differs from a fresh object',
                 observed=sl[:20], expected=exp['sim_ll'][:20])

    def do_threads(alias):
        t = r.choice(tpool + [0])
        if 'script' in case:
            t = 8 if history[-1] == 'set_threads_up' else 1
        history[-1] = f'{history[-1]}={t}'
        rt = _expected_threads(t, 'param')
        if flags['derivatives_called'] and rt > flags['resolved_threads']:
            flags['threads_raised_after_derivatives'] = True
        flags['resolved_threads'] = rt
        _progress(history, flags)
        if alias:
            state['bg'].numberOfThreads = t
        else:
            state['bg'].number_of_threads = t

    def do_estimate(which):
        b = state['bg']
        starts = []
        real_optimize = b.optimize

        def spy(starting_values=None):
            starts.append(None if starting_values is None else np.array(starting_values, dtype=float).copy())
            return real_optimize(starting_values)

        b.optimize = spy  # instance attribute: observes the point actually handed to the optimiser
        try:
            if which == 'estimate':
                res_ = b.estimate()
            elif which == 'quick_estimate':
                res_ = b.quick_estimate()
            else:
                res_ = b.estimate(run_bootstrap=True)
        except BaseException as e:  # estimation itself is not the subject here: recorded, history stops
            rec.c(f'history_{which}_raised_{type(e).__name__}')
            return False
        finally:
            try:
                del b.optimize
            except AttributeError:
                pass
        state['results'] = res_
        ill = getattr(res_.data, 'initLogLike', None)
        if ill is not None:
            if starts and starts[0] is not None and len(starts[0]) == len(names):
                judge_init(f'{which}: results.data.initLogLike', float(ill), {nm: float(v) for nm, v in zip(names, starts[0])})
            else:
                rec.c('history_estimation_start_not_observed')
        flags['derivatives_called'] = True
        flags['threads_raised_after_derivatives'] = False
        est = res_.get_beta_values()
        pt = {nm: float(est[nm]) for nm in names if nm in est}
        if len(pt) == len(names) and all(math.isfinite(v) and abs(v) < 50 for v in pt.values()):
            pts.append(pt)
            exp = fresh(pt)
            if exp is not None:
                # the final log likelihood the estimation reports is a log likelihood reported for the data set
                rec.c('history_estimation_final_loglikelihood_judged')
                exp['J'].cmp('f', float(res_.data.logLike), exp['sim_sum'], RT_ENGINE, 'history-estimation-final-loglikelihood-differs-from-weighted-sum-of-simulated',
                             f'{which}: reported final log likelihood vs weighted sum of simulate at the estimates', history=list(history))
        return True

    def current_start():
        b = state['bg']
        return {nm: float(v) for nm, v in zip(b.free_beta_names, b.id_manager.free_betas_values)}

    def judge_init(label, reported, pt):
        """a reported initial log likelihood vs the weighted sum of simulate at the starting values in force"""
        exp = fresh(pt)
        if exp is None:
            rec.c('history_starting_point_rejected_by_reference')
            return
        rec.c('history_initial_loglikelihood_judged')
        if flags.get('start_changed'):
            rec.c('history_initial_loglikelihood_judged_after_start_change')
        hw = {'history': list(history), 'starting_values': pt}
        exp['J'].cmp('f', reported, exp['sim_sum'], RT_ENGINE, 'history-initial-loglikelihood-differs-from-weighted-sum-of-simulated-at-current-starting-values',
                     f'{label} after {history[:-1]}: vs weighted sum of simulate at the starting values in force', **hw)
        exp['J'].cmp('f', reported, exp['ref']['F'], RT_REF_F, 'history-initial-loglikelihood-differs-from-reference-weighted-sum-at-current-starting-values',
                     f'{label} after {history[:-1]}: vs reference at the starting values in force', **hw)

    def do_init_like():
        pt = current_start()
        v = float(state['bg'].calculate_init_likelihood())
        judge_init('calculate_init_likelihood()', v, pt)
        rec.ev()
        if state['bg'].initLogLike != v:
            viol('history-initLogLike-attribute-differs-from-returned-value', f'initLogLike={state["bg"].initLogLike} returned {v}')

    def do_change_init():
        sub = [nm for nm in names if r.random() < 0.8] or list(names)
        new = {nm: round(r.uniform(-1.0, 1.0), 3) for nm in sub}
        state['bg'].change_init_values(new)
        flags['start_changed'] = True
        rec.ev()
        now = current_start()
        if any(abs(now[nm] - v) > 0 for nm, v in new.items()):
            viol('history-change_init_values-not-applied', f'asked {new}, starting values now {now}')

    def do_random_init():
        state['bg'].set_random_init_values(default_bound=r.choice([0.5, 1.0, 1.5]))
        flags['start_changed'] = True

    def do_null_like():
        sp = state['spec']
        if sp['kind'] != 'logit':
            rec.c('history_null_loglikelihood_skipped')
            return
        node = sp['ast']
        alts = [k for k, _ in node[1]]
        avs = None if node[2] is None else {int(k): a for k, a in node[2]}
        av_expr = {int(k): (1 if avs is None else build.build({'ast': avs[int(k)], 'shared': [], 'betas': {}})[0]) for k in alts}
        v = float(state['bg'].calculate_null_loglikelihood(av_expr))
        # equal-probability model: -log(number of available alternatives) per row (the library defines it unweighted)
        cnt = np.zeros(len(next(iter(sp['data'].values()))))
        for k in alts:
            cnt = cnt + (1.0 if avs is None else np.asarray(sp['data'][avs[int(k)][1]], dtype=float))
        rec.ev()
        rec.c('history_null_loglikelihood_judged')
        expv = -math.fsum(np.log(cnt).tolist())
        if not abs(v - expv) <= 1e-9 * abs(expv) + 1e-11:
            viol('history-null-loglikelihood-differs-from-sum-of-minus-log-availabilities', f'reported {v}, expected {expv}')

    def do_validate():
        sp = state['spec']
        if sp['panel'] or U < 8:
            rec.c('history_validate_skipped')
            return True
        if 'results' not in state:
            history[-1] = 'estimate'
            if not do_estimate('estimate'):
                return False
            history.append('validate')
        try:
            slices = state['d'].split(slices=2)
            state['bg'].validate(state['results'], slices)
        except BaseException as e:
            rec.c(f'history_validate_raised_{type(e).__name__}')
            return False
        return True

    def do_dbop():
        sp = state['spec']
        d_ = state['d']
        cols = sorted(c for c in sp['data'] if c.startswith(('t_', 'x_')))
        op = r.choice(['scale', 'remove', 'add_column'])
        if op == 'scale':
            c = r.choice(cols)
            sc = r.choice([0.5, 2.0, 0.1])
            d_.scale_column(c, sc)
            history[-1] = f'dbop:scale_column({c},{sc})+new_object'
        elif op == 'remove':
            c = r.choice([c for c in cols if c.startswith('x_')])
            vals = sorted(sp['data'][c])
            thr = vals[max(1, (3 * len(vals)) // 4) - 1] if len(vals) > 2 else max(vals) + 1
            d_.remove(ex.Variable(c) > thr)
            history[-1] = f'dbop:remove({c}>{thr})+new_object'
        else:
            c = r.choice(cols)
            d_.add_column(ex.Variable(c) * 2 + 1, 'NEWCOL%d' % state['version'])
            history[-1] = f'dbop:add_column(2*{c}+1)+new_object'
        if d_.is_panel():
            d_.build_panel_map()
        df = d_.data
        if len(df) == 0:
            rec.c('history_dbop_emptied_table')
            return False
        sp2 = dict(sp)
        sp2['data'] = {c: [float(v) for v in df[c].tolist()] for c in df.columns}
        sp2['index'] = None
        state['spec'] = sp2
        state['version'] += 1
        T = r.choice(tpool + [0])
        state['bg'], _ = _build(sp2, T, 'param', params=params, database=d_)
        flags.update({'derivatives_called': False, 'threads_raised_after_derivatives': False, 'resolved_threads': _expected_threads(T, 'param'),
                      'start_changed': False})
        state.pop('results', None)
        return True

    if 'script' in case:
        ops = list(case['script'])
    else:
        L = r.randint(5, 9) if tier == 'quick' else r.randint(6, 13)
        ops = r.choices(HIST_OPS, weights=HIST_WEIGHTS, k=L)
        ops += [r.choice(['like', 'like_scaled']), r.choice(['deriv', 'deriv_scaled'])]
    rec.key(['history', spec['ast'], spec['weight_ast'], spec['data'], ops, T0])
    rec.sample({'history': ops, 'family': kind, 'units': U, 'threads_at_construction': T0, 'weight': spec['weight_kind']})
    for op in ops:
        history.append(op)
        _progress(history, flags)
        rec.c('history_op_' + op.split('=')[0])
        try:
            if op == 'like':
                do_like(False)
            elif op == 'like_scaled':
                do_like(True)
            elif op == 'deriv':
                do_deriv(False)
            elif op == 'deriv_scaled':
                do_deriv(True)
            elif op == 'deriv_nohess':
                do_deriv(False, hessian=False, bhhh=r.random() < 0.5)
            elif op == 'simulate':
                do_simulate()
            elif op in ('set_threads', 'set_threads_down', 'set_threads_up'):
                do_threads(False)
            elif op == 'set_threads_alias':
                do_threads(True)
            elif op in ('estimate', 'quick_estimate', 'bootstrap'):
                if not do_estimate(op):
                    break
            elif op == 'validate':
                if not do_validate():
                    break
            elif op == 'init_like':
                do_init_like()
            elif op == 'change_init':
                do_change_init()
            elif op == 'random_init':
                do_random_init()
            elif op == 'null_like':
                do_null_like()
            elif op == 'dbop':
                if not do_dbop():
                    break
            else:
                raise ValueError(op)
        except BaseException as e:  # noqa
            if isinstance(e, ValueError) and str(e) == op:
                raise
            viol(f'history-{op.split("=")[0]}-raises-{type(e).__name__}', f'{op} after {history[:-1]} raised {type(e).__name__}: {str(e)[:400]}')
            break
    rec.c('history_cases_run')


# --------------------------------------------------------------------------------------------
# coverage requirements


def finalize(cov, tier):
    out = []
    for k in ('reference_compared', 'simulate_sum_compared', 'disaggregate_compared', 'permutations_compared',
              'partitions_compared', 'repeated_evaluations', 'after_simulate_compared', 'negative_likelihood_compared',
              'init_likelihood_compared', 'proxy_setExpressions_checked', 'threads_0_resolved_to_cpu_count',
              'family_logit', 'family_random', 'family_panel', 'weight_none', 'weight_const', 'weight_column', 'weight_expr',
              'thread_rel_lt_units', 'thread_rel_eq_units', 'thread_rel_gt_units', 'route_param', 'route_kwarg', 'route_oldkwarg',
              'units_1', 'units_2-8', 'units_9-64', 'units_65-400', 'permutation_labels_kept', 'permutation_labels_reset'):
        if cov.get(k, 0) == 0:
            out.append(f'monitor / configuration never observed: {k}')
    for t in (1, 2, 3, 5, 7, 8, 16, 64):
        if cov.get(f'threads_{t}', 0) == 0:
            out.append(f'thread count {t} never run')
    for k in ('history_cases_run', 'history_calls_judged', 'history_calls_judged_after_bootstrap', 'history_calls_judged_after_estimation',
              'history_calls_judged_after_simulate', 'history_calls_judged_after_thread_change', 'history_family_logit',
              'history_family_panel', 'history_weight_yes', 'history_weight_no', 'history_op_dbop', 'history_op_bootstrap',
              'history_op_quick_estimate', 'history_estimation_final_loglikelihood_judged', 'history_initial_loglikelihood_judged',
              'history_initial_loglikelihood_judged_after_start_change', 'history_op_change_init', 'history_op_random_init',
              'history_op_init_like', 'history_save_iterations_on'):
        if cov.get(k, 0) == 0:
            out.append(f'history family: never observed: {k}')
    for d in DIRECTED:
        if cov.get('directed_' + d, 0) == 0:
            out.append(f'directed case not run: {d}')
    tc = sorted(int(k.split('_')[1]) for k in cov if k.startswith('threads_') and k.split('_')[1].isdigit() and len(k.split('_')) == 2)
    cov['distinct_thread_counts_run'] = len(tc)
    cov['largest_thread_count_run'] = max(tc) if tc else 0
    # fold the long tail of per-count counters (kept: the canonical ones)
    keep = {1, 2, 3, 5, 7, 8, 16, 64}
    other = 0
    for k in [k for k in cov if k.startswith('threads_') and k.split('_')[1].isdigit() and len(k.split('_')) == 2]:
        if int(k.split('_')[1]) not in keep:
            other += cov.pop(k)
    cov['threads_other_counts_objects'] = other
    return out


# --------------------------------------------------------------------------------------------
# schedules: taskset / oversubscription / ThreadSanitizer (main process, stand-alone children)


def _stress_script():
    return os.path.join(env.VERIF, 'biomon', 'gen', 'c04_stress.py')


def _run_stress(label, profile, seed, workdir, prefix=None, launcher=None, extra_env=None, pythonpath=None, timeout=600):
    outf = os.path.join(workdir, f'stress_{label}.json')
    cmd = list(prefix or []) + [launcher or sys.executable, _stress_script(), str(seed), profile, outf]
    e = dict(os.environ)
    e['PYTHONPATH'] = pythonpath or (env.VERIF + os.pathsep + env.SRC)
    e.update(extra_env or {})
    cwd = os.path.join(workdir, f'stress_{label}_cwd')
    os.makedirs(cwd, exist_ok=True)
    t0 = time.monotonic()
    try:
        p = subprocess.run(cmd, cwd=cwd, env=e, timeout=timeout, stdout=subprocess.PIPE, stderr=subprocess.STDOUT)
        rc = p.returncode
        tail = p.stdout.decode(errors='replace')[-1500:]
    except subprocess.TimeoutExpired:
        return {'timeout': True, 'wall': time.monotonic() - t0}
    doc = None
    if os.path.exists(outf):
        try:
            with open(outf) as f:
                doc = json.load(f)
        except Exception:
            doc = None
    return {'rc': rc, 'doc': doc, 'tail': tail, 'wall': time.monotonic() - t0}


def _judge_stress(label, res, summary, prop='C04'):
    cov = summary['cov']
    if res.get('timeout'):
        summary['inconclusive'].append(f'schedule sub-run {label}: watchdog')
        return
    if res['rc'] is not None and res['rc'] < 0:
        summary['viol'].append({'mech': f'{prop}/schedule-run-native-crash', 'msg': f'{label}: stand-alone thread sweep died with signal {-res["rc"]}: {res["tail"][-600:]}',
                                'witness': {'label': label}})
        return
    doc = res['doc']
    if doc is None:
        summary['inconclusive'].append(f'schedule sub-run {label}: no result (rc={res["rc"]}): {res["tail"][-400:]}')
        return
    cov[f'schedule_{label}_pairs'] = doc['pairs']
    cov[f'schedule_{label}_evaluations'] = doc['evaluations']
    cov[f'schedule_{label}_cpus_allowed'] = doc.get('cpus_allowed') or 0
    cov[f'schedule_{label}_distinct_thread_counts'] = len(doc['threads_seen'])
    cov[f'schedule_{label}_monte_carlo_tables'] = doc.get('monte_carlo_tables', 0)
    summary['n'] += doc['evaluations']
    if doc['errors']:
        summary['viol'].append({'mech': f'{prop}/schedule-run-raises', 'msg': f'{label}: {doc["errors"]}', 'witness': doc})
        return
    if doc['pairs'] == 0:
        summary['inconclusive'].append(f'schedule sub-run {label}: nothing evaluated')
    if doc['max_dev_vs_single'] > RT_ENGINE:
        summary['viol'].append({'mech': f'{prop}/schedule-depends-on-thread-count', 'msg': f'{label}: deviation/scale {doc["max_dev_vs_single"]:.3g} vs single thread; worst {doc["worst"]}', 'witness': doc})
    if doc['max_run_to_run'] > RT_RUN:
        summary['viol'].append({'mech': f'{prop}/schedule-run-to-run-variation', 'msg': f'{label}: run-to-run deviation/scale {doc["max_run_to_run"]:.3g}', 'witness': doc})
    if doc['max_dev_simulate_sum'] > RT_ENGINE:
        summary['viol'].append({'mech': f'{prop}/schedule-simulate-sum-differs', 'msg': f'{label}: simulate deviation {doc["max_dev_simulate_sum"]:.3g}', 'witness': doc})


def extra(seed, tier, workdir):
    from . import _sanitizer

    summary = {'n': 0, 'keys': [], 'viol': [], 'cov': {}, 'samples': [], 'inconclusive': []}
    d = os.path.join(workdir, 'sched')
    os.makedirs(d, exist_ok=True)
    thorough = tier == 'thorough'
    prof = 'sched_full' if thorough else 'sched_quick'
    ncpu = os.cpu_count() or 1
    have_taskset = subprocess.run(['sh', '-c', 'command -v taskset'], stdout=subprocess.DEVNULL).returncode == 0
    plans = []
    if have_taskset:
        plans.append(('cpus1', ['taskset', '-c', '0']))
        if ncpu >= 2:
            plans.append(('cpus2', ['taskset', '-c', '0,1']))
    else:
        summary['inconclusive'].append('taskset unavailable: CPU-set schedules not run')
    if thorough:
        plans.append(('cpusall', []))
    # run the CPU-set plans concurrently (they are pinned to few CPUs)
    procs = []
    import concurrent.futures as cf

    with cf.ThreadPoolExecutor(max_workers=4) as ex:
        futs = {ex.submit(_run_stress, label, prof, seed, d, prefix=pre, timeout=2400 if thorough else 900): label for label, pre in plans}
        # TSan smoke / full alongside
        tsan_fut = None
        if _sanitizer.available('tsan') or (thorough and _sanitizer.ensure('tsan')):
            logbase = os.path.join(d, 'tsan_log')
            pp = os.pathsep.join([_sanitizer.tsan_pkg(), env.VERIF, env.SRC] + [p for p in sys.path if p.endswith('site-packages')])
            tsan_env = {'TSAN_OPTIONS': f'halt_on_error=0 log_path={logbase} report_signal_unsafe=0 verbosity=1'}
            tsan_fut = ex.submit(_run_stress, 'tsan', 'tsan_full' if thorough else 'tsan_smoke', seed, d, launcher=_sanitizer.tsan_launcher(),
                                 extra_env=tsan_env, pythonpath=pp, timeout=3000 if thorough else 900)
        for fu, label in futs.items():
            _judge_stress(label, fu.result(), summary)
        if tsan_fut is not None:
            res = tsan_fut.result()
            logs = glob.glob(logbase + '*')
            active = False
            for lf in logs:
                try:
                    if 'Running under ThreadSanitizer' in open(lf, errors='replace').read(4000):
                        active = True
                except OSError:
                    pass
            if res.get('timeout'):
                summary['inconclusive'].append('TSan sub-check: watchdog fired')
            elif not active:
                summary['inconclusive'].append(f'TSan sub-check: runtime not active (rc={res.get("rc")}): {str(res.get("tail"))[-300:]}')
            else:
                _judge_stress('tsan', res, summary)
                reps = _sanitizer.parse_reports(logs)
                summary['cov']['tsan_report_blocks_with_engine_frame'] = len(reps)
                summary['cov']['tsan_runs'] = 1
                for rp in reps:
                    summary['viol'].append({'mech': f'C04/sanitizer-tsan-{_race_kind(rp["text"])}', 'msg': rp['text'][:1500],
                                            'witness': {'key': rp['key'], 'count': rp.get('count')}})
        else:
            summary['inconclusive'].append('TSan engine build unavailable: data-race sub-check not run') if thorough else None
            summary['cov']['tsan_runs'] = 0
    # oversubscription: busy competitors while the sweep runs on all CPUs (thorough only)
    if thorough:
        comp = []
        try:
            for _ in range(min(48, 3 * ncpu)):
                comp.append(subprocess.Popen([sys.executable, '-c', 'import time\nt=time.time()\nwhile time.time()-t<600: pass'],
                                             stdout=subprocess.DEVNULL, stderr=subprocess.DEVNULL))
            _judge_stress('oversubscribed', _run_stress('oversubscribed', 'sched_quick', seed + 1, d, timeout=2400), summary)
            summary['cov']['schedule_oversubscribed_competitors'] = len(comp)
        finally:
            for p in comp:
                try:
                    p.kill()
                    p.wait()
                except Exception:
                    pass
    return [summary]


def _race_kind(text):
    first = text.strip().splitlines()[0] if text.strip() else ''
    if 'data race' in first:
        return 'data-race'
    if 'heap-use-after-free' in first:
        return 'use-after-free'
    if 'lock-order' in first:
        return 'lock-order-inversion'
    if 'thread leak' in first:
        return 'thread-leak'
    return 'report'
