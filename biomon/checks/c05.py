"""C05 — choice models return proper probability distributions over the available options.

Workload: seeded random choice-model configurations (biomon/gen/c05_models.py):
2-7 alternatives with arbitrary labels, rows of utilities and availability
patterns (whole nests unavailable, a single alternative available ...), nested
structures (partitions of a subset, the rest alone), cross-nested structures
(overlapping nests, allocation alpha, optional zero allocations), nest and
scale parameters in [1, 10], MEV models with hand-written generating terms,
ordered logit / probit with positive threshold increments.

Execution: the REAL models.* functions build the expressions; they are
evaluated for every alternative through Expression.get_value_c on a database,
BIOGEME.simulate, and the pure-Python Expression.get_value.

Monitors (biomon/oracle/c05_props.py, numpy only): every probability finite and
in [0,1], sum over alternatives = 1, zero for unavailable alternatives,
unchanged when a constant is added to all utilities (built-in logit / nested /
cross-nested, with and without scale), log-function == log(probability function).
"""
from __future__ import annotations

import numpy as np

from .. import env  # noqa: F401
from ..rec import Rec

LEVEL = 'exploration'
RULE = (
    'cases = seeded random choice-model configurations: 2-7 alternatives with arbitrary integer labels, 3-6 base rows '
    '(utilities within a band of 1..30, availability patterns incl. a whole nest unavailable and a single available '
    'alternative; availability dictionaries in several object-sharing styles: a fresh expression per alternative, one '
    'Variable / compound object reused by members of a nest and across nests, one Numeric(1) object, plain int / bool, None; '
    'utilities sharing or not their sub-expression objects; utility dict, availability dict, nest member lists, allocation '
    'dicts and the choice sets of the nest objects each in an independently shuffled insertion order; every alternative '
    'unavailable on some row) x up to 7 constants added to all utilities, a nested structure (partition of a subset, others alone), a '
    'cross-nested structure (overlapping nests, allocation rows summing to one, optional explicit zeros), nest parameters '
    'and scale in [1,10] given as float / Numeric / fixed or free Beta, three hand-written MEV term sets, ordered '
    'logit/probit with 2-6 categories; plus a fixed list of directed configurations. A case is non-trivial when at least '
    'one model produced a distribution that the monitors judged on >= 1 table line with >= 2 alternatives; distinct = hash '
    'of the whole configuration'
)
ASSUMPTIONS = [
    'utilities are kept where exp(nest parameter x (utility + constant)) is representable in float64 (|arg| <= 650): '
    'overflow of the un-shifted nest sums is not judged; the logit kernel alone is also run on a stress band |V| <= 300',
    'availabilities are 0/1 indicators',
    'tolerances: range 1e-12, sum 1e-9, constant-shift 1e-9 relative, log vs probability 1e-9 absolute where P > 1e-200',
    'ordered probit: range judged at 1e-8 (the external engine normal CDF overshoots 1 by up to 9.9e-10, calibrated; the '
    'number of cases where 1 - Phi(z) came out slightly negative is reported in monitor_counters); sums telescope exactly',
]
MIN_DISTINCT = {'quick': 300, 'thorough': 3000}
CASE_TIMEOUT = 300
N_RANDOM = {'quick': 360, 'thorough': 4000}

BUILTIN = ['logit', 'nested', 'nested_mu', 'cnl', 'cnlmu']
MEV = ['mev_zero', 'mev_nested', 'mev_cross']
MODELS = BUILTIN + MEV
SHIFT_MODELS = set(BUILTIN)
ORDERED = ['ordered_logit', 'ordered_probit']
PROBIT_RANGE_EPS = 1e-8

DIRECTED = [
    # deterministic configurations, identical for every seed
    {'name': 'python_unavailable', 'force': {'J': 4, 'av_mode': 'var', 'choice_mode': 'numeric', 'entry': 'get_value_c', 'n_alone': 1}},
    {'name': 'two_alternatives', 'force': {'J': 2, 'av_mode': 'var', 'n_alone': 0}},
    {'name': 'seven_alternatives', 'force': {'J': 7, 'av_mode': 'var', 'n_alone': 2, 'n_alone_cnl': 1}},
    {'name': 'alpha_zero_listed', 'force': {'J': 5, 'av_mode': 'var', 'alpha_zero': True, 'n_alone_cnl': 0}},
    {'name': 'alpha_zero_listed_b', 'force': {'J': 6, 'av_mode': 'var', 'alpha_zero': True, 'n_alone_cnl': 1, 'choice_mode': 'variable'}},
    {'name': 'all_available_none', 'force': {'J': 5, 'av_mode': 'none', 'n_alone': 1}},
    {'name': 'simulate_entry', 'force': {'J': 4, 'av_mode': 'var', 'entry': 'simulate', 'n_alone': 1}},
    {'name': 'variable_choice', 'force': {'J': 5, 'av_mode': 'mixed', 'choice_mode': 'variable', 'n_alone': 2}},
    {'name': 'large_band', 'force': {'J': 5, 'av_mode': 'var', 'vband': 30.0, 'n_alone': 1}},
    {'name': 'alpha_zero_dead_nest', 'force': {'labels': [1, 2, 3], 'av_mode': 'var', 'av_share': 'fresh', 'util_form': 'var', 'override': {
        'cnl': [{'param': 2.0, 'kind': 'beta_free', 'alpha': [[1, 0.0], [2, 0.6]]},
                {'param': 1.5, 'kind': 'beta_free', 'alpha': [[1, 1.0], [2, 0.4], [3, 1.0]]}],
        'mu_cnl': 1.2, 'alpha_kind': 'float',
        'rows': [{'V': [0.5, 0.1, -0.3], 'A': [1, 1, 1]}, {'V': [0.5, 0.1, -0.3], 'A': [1, 0, 1]}, {'V': [-1.0, 2.0, 0.25], 'A': [1, 0, 0]}]}}},
    {'name': 'nest_members_share_availability_variable', 'force': {'J': 5, 'av_mode': 'var', 'av_share': 'group_var', 'n_alone': 1}},
    {'name': 'nest_members_share_availability_expression', 'force': {'J': 6, 'av_mode': 'var', 'av_share': 'group_expr', 'n_alone': 0, 'choice_mode': 'variable'}},
    {'name': 'always_available_share_one_object', 'force': {'J': 5, 'av_mode': 'mixed', 'av_share': 'one_object', 'one_kind': 'numeric', 'n_alone': 1}},
    {'name': 'plain_number_utility', 'force': {'J': 4, 'av_mode': 'var', 'util_form': 'const1', 'n_alone': 1}},
]


def cases(seed, tier):
    out = [{'mode': 'directed', 'k': k} for k in range(len(DIRECTED))]
    out += [{'mode': 'random', 'seed': seed, 'i': i} for i in range(N_RANDOM[tier])]
    out += [{'mode': 'stress', 'seed': seed, 'i': i} for i in range(N_RANDOM[tier] // 10)]
    return out


def warmup():
    import biogeme.biogeme  # noqa
    import biogeme.database  # noqa
    import biogeme.expressions  # noqa
    from biogeme import models  # noqa
    import biogeme.nests  # noqa


def selftest():
    from ..oracle import c05_props

    return c05_props.selftest()


# ---------------------------------------------------------------------------
def model_expr(b, name, choice, syntax, log=False, shifted=True):
    """fresh expression of model `name` for alternative `choice` built by the real library"""
    from biogeme import models

    util = b.util(shifted=shifted)
    av = b.av()
    if name == 'logit':
        return (models.loglogit if log else models.logit)(util, av, choice)
    if name == 'nested':
        return (models.lognested if log else models.nested)(util, av, b.nl_nests(syntax), choice)
    if name == 'nested_mu':
        return (models.lognested_mev_mu if log else models.nested_mev_mu)(util, av, b.nl_nests(syntax), choice, b.mu('nl'))
    if name == 'cnl':
        return (models.logcnl if log else models.cnl)(util, av, b.cnl_nests(syntax), choice)
    if name == 'cnlmu':
        return (models.logcnlmu if log else models.cnlmu)(util, av, b.cnl_nests(syntax), choice, b.mu('cnl'))
    if name.startswith('mev_'):
        terms = b.hand_terms({'mev_zero': 'zero', 'mev_nested': 'nested', 'mev_cross': 'cross'}[name], util, av)
        return (models.logmev if log else models.mev)(util, terms, av, choice)
    raise ValueError(name)


def _config(case):
    from ..gen import c05_models as g

    if case['mode'] == 'directed':
        d = DIRECTED[case['k']]
        return g.make_config(424242, case['k'], force=d['force']), d['name']
    if case['mode'] == 'stress':
        cfg = g.make_config(case['seed'] + 7919, case['i'], force={'util_form': 'var'})
        return cfg, 'stress'
    return g.make_config(case['seed'], case['i']), 'random'


class EngineError(Exception):
    pass


def run_case(case):
    from ..gen import c05_models as g
    from ..oracle import c05_props as props
    import biogeme.database as bdb
    import biogeme.expressions as ex
    from biogeme.exceptions import BiogemeError

    rec = Rec(case)
    cfg, label = _config(case)
    rec.c('cases_' + label)
    alts = cfg['alts']
    J = len(alts)
    syntax = 'tuple' if (case.get('i', case.get('k', 0)) % 5 == 4) else 'object'
    rec.c('syntax_' + syntax)
    witness = {'config': cfg, 'syntax': syntax}

    def viol(mech, msg, **kw):
        w = dict(witness)
        w.update(kw)
        rec.violation('C05/' + mech, msg, w)

    if case['mode'] == 'stress':
        return _stress(rec, cfg, viol)

    variable = cfg['choice_mode'] == 'variable'
    df = g.table(cfg, replicate_choice=alts if variable else None)
    db = bdb.Database('c05', df.copy())
    base = df[df['CH'] == alts[0]] if variable else df
    rowidx = base['ROW'].to_numpy()
    shift = base['C'].to_numpy()
    L = len(base)
    avail = None
    if cfg['av_mode'] != 'none':
        avail = {a: base[f'A{a}'].to_numpy() for a in alts}

    # ---- build every expression through the real library ---------------------
    b = g.Builder(cfg)
    exprs = {}  # (model, 'P'|'LP', alt|'CH') -> expression
    broken = set()
    for m in MODELS:
        try:
            if variable:
                exprs[(m, 'P', 'CH')] = model_expr(b, m, ex.Variable('CH'), syntax)
                exprs[(m, 'LP', 'CH')] = model_expr(b, m, ex.Variable('CH'), syntax, log=True)
            else:
                for k, a in enumerate(alts):
                    ch = a if k % 2 else ex.Numeric(a)
                    exprs[(m, 'P', a)] = model_expr(b, m, ch, syntax)
                    exprs[(m, 'LP', a)] = model_expr(b, m, ch, syntax, log=True)
        except Exception as e:
            broken.add(m)
            viol(f'{m}-construction-raises-{type(e).__name__}', f'building {m} on a valid structure raised {type(e).__name__}: {e}')
    incs = {}
    for which in ('logit', 'probit'):
        try:
            d, incs = b.ordered(which)
            for c, e in d.items():
                exprs[('ordered_' + which, 'P', c)] = e
        except Exception as e:
            broken.add('ordered_' + which)
            viol(f'ordered_{which}-construction-raises-{type(e).__name__}', str(e))
    over = {k: v for k, v in incs.items() if v != 1.0}

    # ---- evaluate through a public entry point -----------------------------------
    vals = {}
    entry = cfg['entry']
    rec.c('entry_' + entry)
    try:
        if entry == 'simulate':
            from biogeme.biogeme import BIOGEME
            from biogeme.parameters import Parameters

            names = {f'f{n}': k for n, k in enumerate(exprs)}
            bg = BIOGEME(db, {n: exprs[k] for n, k in names.items()}, parameters=Parameters())
            bv = dict(b.free)
            bv.update({k: 1.0 for k in incs})
            bv.update(over)
            missing = [n for n in bg.free_beta_names if n not in bv]
            if missing:
                rec.inconc(f'harness: free parameters without a value {missing}')
                return rec.out()
            sim = bg.simulate({n: bv[n] for n in bg.free_beta_names})
            for n, k in names.items():
                vals[k] = sim[n].to_numpy(dtype=float)
        else:
            for k, e in exprs.items():
                try:
                    vals[k] = np.asarray(e.get_value_c(database=db, betas=(over or None) if k[0].startswith('ordered') else None,
                                                       prepare_ids=True), dtype=float)
                except RuntimeError as e2:
                    raise EngineError(f'{k[0]}: {e2}')
                except Exception as e2:  # anything the library raises on a valid model is a refutation, not a harness error
                    broken.add(k[0])
                    viol(f'{k[0]}-evaluation-raises-{type(e2).__name__}', f'{k}: {e2}')
    except EngineError as e:
        m = str(e).split(':')[0]
        viol(f'{m}-evaluation-raises-engine-error', str(e)[:600])
        return rec.out()  # sticky engine error flag: nothing evaluated afterwards is trustworthy
    except RuntimeError as e:
        viol('simulate-raises-engine-error', str(e)[:600])
        return rec.out()
    except Exception as e:
        viol(f'simulate-raises-{type(e).__name__}', str(e)[:600])
        return rec.out()

    # ---- judge ---------------------------------------------------------------------
    judged = 0
    for m in MODELS:
        if m in broken:
            continue
        if variable:
            ch = df['CH'].to_numpy()
            P = {a: vals[(m, 'P', 'CH')][ch == a] for a in alts}
            LP = {a: vals[(m, 'LP', 'CH')][ch == a] for a in alts}
        else:
            P = {a: vals[(m, 'P', a)] for a in alts}
            LP = {a: vals[(m, 'LP', a)] for a in alts}
        if any(len(P[a]) != L for a in alts):
            viol(f'{m}-wrong-number-of-values', f'{[len(P[a]) for a in alts]} values for {L} lines')
            continue
        res = props.check_distribution(P, avail)
        res += props.check_log(P, LP, avail)
        if m in SHIFT_MODELS:
            res += props.check_shift(P, rowidx, shift)
            rec.c('shift_pairs_compared', props.count_shift_pairs(rowidx, shift) * J)
        rec.ev(L)
        judged += L
        rec.c(f'lines_{m}', L)
        rec.c('log_values_compared', L * J)
        if avail is not None:
            rec.c('unavailable_probabilities_checked', int(sum((avail[a] == 0).sum() for a in alts)))
        for shape, msg, line in res:
            viol(f'{m}-{shape}', f'{m}: {msg}', line=(None if line is None else base.iloc[line].to_dict()),
                 P={str(a): P[a] for a in alts}, logP={str(a): LP[a] for a in alts})
    for m in ORDERED:
        if m in broken:
            continue
        cats = cfg['ordered']['cats']
        P = {c: vals[(m, 'P', c)] for c in cats}
        # the engine's normal CDF is a rational approximation that overshoots 1 by up to 9.9e-10 (calibrated on
        # x in [-40, 40], max abs error 2.0e-9): 1 - Phi(z) is judged at that accuracy, the logistic CDF at 1e-12
        res = props.check_distribution(P, None, range_eps=(PROBIT_RANGE_EPS if m == 'ordered_probit' else props.RANGE_EPS))
        n = len(P[cats[0]])
        if m == 'ordered_probit' and min(float(np.min(P[c])) for c in cats) < -props.RANGE_EPS:
            rec.c('ordered_probit_negative_within_engine_cdf_accuracy')
        rec.ev(n)
        judged += n
        rec.c(f'lines_{m}', n)
        rec.c(f'ordered_categories_{len(cats)}')
        for shape, msg, line in res:
            viol(f'{m}-{shape}', f'{m}: {msg}', thresholds=cfg['ordered'], P={str(c): P[c] for c in cats})

    # ---- the pure-Python evaluator on one base row (data-free formulas) ----------------
    _python_path(rec, cfg, syntax, viol)

    if judged and J >= 2:
        rec.key(cfg)
    for k, v in g.features(cfg).items():
        if k == 'J':
            rec.c(f'alternatives_{v}')
        elif v:
            rec.c('feature_' + k, v if k.startswith('rows_') else 1)
    rec.c('choice_' + cfg['choice_mode'])
    rec.c('availability_' + cfg['av_mode'])
    rec.c('availability_objects_' + cfg['av_share'])
    rec.c('utility_objects_' + cfg['util_share'])
    rec.c('utility_form_' + cfg['util_form'])
    rec.sample({'config': cfg, 'nested_P_first_line': {str(a): float(vals[('nested', 'P', 'CH' if variable else a)][0]) for a in alts[:1]}
                if 'nested' not in broken else None})
    return rec.out()


def _python_path(rec, cfg, syntax, viol):
    from ..gen import c05_models as g
    from ..oracle import c05_props as props
    from biogeme.exceptions import BiogemeError

    alts = cfg['alts']
    # prefer a base row with an unavailable alternative
    rows = [k for k, r in enumerate(cfg['rows']) if not all(r['A'])] or [0]
    k = rows[0]
    shifts = [None] + [c for c in (7.0,) if c in cfg['shifts']]
    avail = None
    if cfg['av_mode'] != 'none':
        avail = {a: np.array([cfg['rows'][k]['A'][j]] * len(shifts), dtype=float) for j, a in enumerate(alts)}
    known_hit = False
    for m in MODELS:
        P = {a: [] for a in alts}
        LP = {a: [] for a in alts}
        try:
            for c in shifts:
                bb = g.Builder(cfg, datafree_row=k, shift_value=c)
                for a in alts:
                    P[a].append(float(model_expr(bb, m, a, syntax).get_value()))
                    LP[a].append(float(model_expr(bb, m, a, syntax, log=True).get_value()))
        except NotImplementedError:
            rec.c('python_evaluator_not_accepting')
            continue
        except Exception as e:
            viol(f'python-evaluator-{m}-raises-{type(e).__name__}', f'{m}.get_value() raised {type(e).__name__}: {e}', row=k)
            continue
        P = {a: np.array(v) for a, v in P.items()}
        LP = {a: np.array(v) for a, v in LP.items()}
        if m in ('cnl', 'cnlmu') and avail is not None:
            # structural signature of a second mechanism: 0 * (empty nest sum ** negative power) = NaN in the
            # pure-Python evaluator for an alternative listed with a zero allocation in a nest without available member
            dead = [a for a in g.zero_allocation_dead_nest(cfg, k) if np.isnan(P[a]).any() or np.isnan(LP[a]).any()]
            if dead:
                viol('python-evaluator-cnl-zero-allocation-in-nest-without-available-member-nan',
                     f'{m}: get_value() = {P[dead[0]][0]!r} for available alternative {dead[0]}, listed with alpha = 0 in a nest '
                     f'whose other members are all unavailable', row=k, model=m, P={str(a): P[a] for a in alts})
                rec.c('python_evaluator_nan_zero_allocation_dead_nest')
                continue
        if avail is not None:
            # structural signature of one mechanism: +infinity returned for an unavailable alternative
            for a in alts:
                sig = (avail[a] == 0) & ((P[a] == np.inf) | (LP[a] == np.inf))
                if sig.any():
                    if not known_hit:
                        viol('python-evaluator-unavailable-alternative-probability-plus-infinity',
                             f'{m}: get_value() of the probability of unavailable alternative {a} = {P[a][0]!r} '
                             f'(log function {LP[a][0]!r}); expected 0 (-inf)', row=k, model=m)
                        known_hit = True
                    rec.c('python_evaluator_plus_infinity_for_unavailable')
                    P[a] = np.where(sig, 0.0, P[a])
                    LP[a] = np.where(sig, -np.inf, LP[a])
        res = props.check_distribution(P, avail) + props.check_log(P, LP, avail)
        if m in SHIFT_MODELS and len(shifts) > 1:
            res += props.check_shift(P, np.zeros(len(shifts)), np.array([0.0 if c is None else c for c in shifts]))
        rec.ev(len(shifts))
        rec.c('python_evaluator_distributions', len(shifts))
        for shape, msg, line in res:
            viol(f'python-evaluator-{m}-{shape}', f'get_value() {m}: {msg}', row=k, P={str(a): P[a] for a in alts},
                 logP={str(a): LP[a] for a in alts})


def _stress(rec, cfg, viol):
    """the logit kernel (shifted log-sum-exp) on utilities up to +-300, also for the unavailable ones"""
    import random

    import pandas as pd
    import biogeme.database as bdb
    import biogeme.expressions as ex
    from biogeme import models
    from ..oracle import c05_props as props

    alts = cfg['alts']
    r = random.Random(repr(cfg['rows']))
    recs = []
    for row in cfg['rows']:
        d = {}
        for j, a in enumerate(alts):
            d[f'V{a}'] = round(r.uniform(-300, 300), 3)
            d[f'A{a}'] = float(row['A'][j])
        for c in [0.0] + [7.0, -40.0]:
            dd = dict(d)
            dd['C'] = c
            recs.append(dd)
    df = pd.DataFrame(recs)
    db = bdb.Database('c05s', df.copy())
    none = cfg['av_mode'] == 'none'
    avail = None if none else {a: df[f'A{a}'].to_numpy() for a in alts}
    witness_cfg = {'alts': alts, 'table': recs}
    for m in ('logit', 'mev_zero'):
        P, LP = {}, {}
        try:
            for a in alts:
                util = {x: ex.Variable(f'V{x}') + ex.Variable('C') for x in alts}
                av = None if none else {x: ex.Variable(f'A{x}') for x in reversed(alts)}  # other insertion order than util
                util2 = {x: ex.Variable(f'V{x}') + ex.Variable('C') for x in alts}
                av2 = None if none else {x: ex.Variable(f'A{x}') for x in alts}
                if m == 'logit':
                    pe, le = models.logit(util, av, a), models.loglogit(util2, av2, a)
                else:
                    z = {x: 0 for x in alts}
                    pe, le = models.mev(util, z, av, a), models.logmev(util2, dict(z), av2, a)
                P[a] = np.asarray(pe.get_value_c(database=db, prepare_ids=True), dtype=float)
                LP[a] = np.asarray(le.get_value_c(database=db, prepare_ids=True), dtype=float)
        except RuntimeError as e:
            viol(f'{m}-stress-evaluation-raises-engine-error', str(e)[:500], stress=witness_cfg)
            return rec.out()
        res = props.check_distribution(P, avail) + props.check_log(P, LP, avail)
        if m == 'logit':
            res += props.check_shift(P, np.repeat(np.arange(len(cfg['rows'])), 3), df['C'].to_numpy())
        rec.ev(len(df))
        rec.c(f'stress_lines_{m}', len(df))
        for shape, msg, line in res:
            viol(f'{m}-stress-{shape}', f'{m} (|V| <= 300): {msg}', stress=witness_cfg, P={str(a): P[a] for a in alts})
    rec.key(['stress', witness_cfg])
    return rec.out()


def finalize(cov, tier):
    out = []
    for m in MODELS + ORDERED:
        if cov.get(f'lines_{m}', 0) == 0:
            out.append(f'model never judged: {m}')
    for k in ('shift_pairs_compared', 'log_values_compared', 'unavailable_probabilities_checked',
              'python_evaluator_distributions', 'entry_simulate', 'entry_get_value_c', 'choice_variable', 'choice_numeric',
              'feature_rows_whole_nest_unavailable', 'feature_nl_alone', 'feature_cnl_overlapping_alts',
              'feature_cnl_alpha_zero_listed', 'availability_none', 'stress_lines_logit', 'syntax_tuple',
              'feature_same_nest_members_share_availability_object', 'availability_objects_group_var',
              'availability_objects_group_expr', 'availability_objects_one_object', 'utility_objects_shared',
              'feature_utility_and_availability_dicts_in_different_orders', 'feature_every_alternative_unavailable_on_some_row'):
        if cov.get(k, 0) == 0:
            out.append(f'monitor / workload feature never observed: {k}')
    return out
