"""Sanitizer tiers: run a workload on the ASan/UBSan or TSan build of the pinned engine.

Builds live in /verif/.build (git-ignored, made by engine/build.sh from the
sources shipped inside the installed cythonbiogeme wheel). A report block whose
stack contains an engine frame is a violation of the property whose workload
was running; no build -> inconclusive for this sub-check only.
"""
from __future__ import annotations

import glob
import json
import os
import re
import subprocess
import sys

from .. import env

BUILD = os.path.join(env.VERIF, '.build')


def asan_pkg():
    return os.path.join(BUILD, 'asan', 'pkg')


def tsan_pkg():
    return os.path.join(BUILD, 'tsan', 'pkg')


def tsan_launcher():
    return os.path.join(BUILD, 'pylaunch_tsan')


def available(kind):
    if kind == 'asan':
        return bool(glob.glob(os.path.join(asan_pkg(), 'cythonbiogeme', 'cythonbiogeme*.so')))
    return bool(glob.glob(os.path.join(tsan_pkg(), 'cythonbiogeme', 'cythonbiogeme*.so'))) and os.path.exists(tsan_launcher())


def ensure(kind, timeout=1500):
    if available(kind):
        return True
    try:
        subprocess.run(['bash', os.path.join(env.VERIF, 'engine', 'build.sh'), kind], timeout=timeout,
                       stdout=subprocess.DEVNULL, stderr=subprocess.DEVNULL)
    except Exception:
        pass
    return available(kind)


def _asan_runtime():
    out = subprocess.run(['clang', '-print-file-name=libclang_rt.asan-x86_64.so'], capture_output=True, text=True).stdout.strip()
    return out


IGNORED: list = []
ENGINE_FRAME = re.compile(r'(bio[A-Z]\w+|cythonbiogeme|evaluateExpressions|biogeme\.cc|bioExpr|bioThread|bioFormula)')


def parse_reports(logfiles):
    """returns list of dict(kind, summary, stack_key, text) for report blocks having an engine frame"""
    reps = []
    ignored = IGNORED
    for lf in logfiles:
        try:
            txt = open(lf, errors='replace').read()
        except OSError:
            continue
        # ASan blocks start with ==pid==ERROR, UBSan lines contain 'runtime error:', TSan 'WARNING: ThreadSanitizer'
        blocks = re.split(r'(?m)^(?==+\d+==+ERROR|WARNING: ThreadSanitizer|.*runtime error:)', txt)
        for b in blocks:
            if not b.strip():
                continue
            kind = None
            if 'ERROR: AddressSanitizer' in b:
                kind = 'asan'
            elif 'runtime error:' in b:
                kind = 'ubsan'
            elif 'WARNING: ThreadSanitizer' in b:
                kind = 'tsan'
            if not kind:
                continue
            if not ENGINE_FRAME.search(b):
                continue
            if kind == 'ubsan' and 'is outside the range of representable values of type' in b:
                # engine-internal double->unsigned conversion of negative alternative / key labels
                # (external engine; the returned values are checked by the behavioural oracle).
                # Counted, not a verdict on the Python side.
                ignored.append(b[:300])
                continue
            frames = re.findall(r'#\d+ 0x[0-9a-f]+ in (\S+)', b)
            key = kind + ':' + '|'.join(f for f in frames if ENGINE_FRAME.search(f))[:300]
            if kind == 'ubsan':
                key = 'ubsan:' + re.sub(r'0x[0-9a-f]+', '', b.strip().splitlines()[0])[:200]
            reps.append({'kind': kind, 'key': key, 'text': b[:3000]})
    # dedupe
    seen = {}
    for r in reps:
        seen.setdefault(r['key'], r)
        seen[r['key']]['count'] = seen[r['key']].get('count', 0) + 1
    return list(seen.values())


def report_mechanism(r) -> str:
    """structural name of a sanitizer report (error class + what freed / owns the memory)"""
    t = r['text']
    if r['kind'] == 'asan':
        m = re.search(r'AddressSanitizer: ([a-z-]+)', t)
        err = m.group(1) if m else 'error'
        if err == 'heap-use-after-free' and 'getValueAndDerivatives' in t and re.search(r'freed by thread', t):
            # a parent operator still reads the derivative buffers of a child whose buffers were re-allocated when the
            # same (shared) child object was evaluated again with other derivative flags
            return 'sanitizer-asan-heap-use-after-free-of-child-derivative-buffers'
        return f'sanitizer-asan-{err}'
    if r['kind'] == 'ubsan':
        return 'sanitizer-ubsan-report'
    return 'sanitizer-tsan-report'


def run_under_asan(prop, modname, cases, workdir, tier, jobs=None):
    """Run cases through the normal worker, but on the ASan/UBSan engine. Returns result dicts."""
    from ..main import run_workers

    if not ensure('asan'):
        return [{'n': 0, 'keys': [], 'viol': [], 'cov': {}, 'samples': [],
                 'inconclusive': ['ASan/UBSan engine build unavailable: sanitizer sub-check not run']}]
    d = os.path.join(workdir, 'asan')
    os.makedirs(d, exist_ok=True)
    old = {k: os.environ.get(k) for k in ('LD_PRELOAD', 'ASAN_OPTIONS', 'UBSAN_OPTIONS', 'PYTHONPATH', 'BIOMON_SAN')}
    os.environ['LD_PRELOAD'] = _asan_runtime()
    logbase = os.path.join(d, 'san')
    os.environ['ASAN_OPTIONS'] = f'halt_on_error=0:detect_leaks=0:log_path={logbase}:abort_on_error=0:allocator_may_return_null=1'
    os.environ['UBSAN_OPTIONS'] = f'halt_on_error=0:print_stacktrace=1:log_path={logbase}'
    os.environ['PYTHONPATH'] = asan_pkg() + os.pathsep + (old['PYTHONPATH'] or '')
    os.environ['BIOMON_SAN'] = 'asan'
    try:
        res, problems = run_workers(modname, cases, jobs or env.ncpu(), 3600, d)
    finally:
        for k, v in old.items():
            if v is None:
                os.environ.pop(k, None)
            else:
                os.environ[k] = v
    reps = parse_reports(glob.glob(logbase + '*'))
    ran = sum(1 for r in res if 'n' in r and r.get('n', 0) > 0)
    summary = {'n': 0, 'keys': [], 'viol': [], 'cov': {'asan_cases_run': ran, 'asan_report_blocks_with_engine_frame': len(reps),
                           'ubsan_float_cast_reports_engine_internal_ignored': len(IGNORED)},
               'samples': [], 'inconclusive': list(problems)}
    if ran == 0:
        summary['inconclusive'].append('no case ran on the sanitizer engine')
    for r in reps:
        summary['viol'].append({'mech': f'{prop}/{report_mechanism(r)}', 'msg': r['text'][:1500],
                                'witness': {'key': r['key'], 'count': r.get('count')}})
    # the behavioural verdicts of the sanitizer run count too, but keys/evaluations are tagged
    for r in res:
        if 'cov' in r:
            r['cov'] = {('asan_' + k): v for k, v in r['cov'].items() if k in ('violations_raw',)}
            r['keys'] = []
            r['samples'] = []
    return res + [summary]


def asan_stage_on_sample(prop, modname, all_cases, workdir, tier, n_quick, n_thorough):
    """ASan/UBSan stage for a check: an evenly spaced sub-sample of the check's own case list (every family represented).
    Quick: only when the build is already there (setup.sh builds it); thorough: builds it when needed."""
    if tier != 'thorough' and not available('asan'):
        return []
    n = n_thorough if tier == 'thorough' else n_quick
    step = max(1, len(all_cases) // max(1, n))
    return run_under_asan(prop, modname, all_cases[::step][:n + 8], workdir, tier)
