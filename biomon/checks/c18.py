"""C18 — MDCEV forecasts solve the consumer problem and model pieces agree.

Workload: seeded MDCEV specifications (biomon/gen/c18_models.py): the four
utility variants x with/without outside good x prices x scale x integer
labelings (1..n, 0..n-1, shuffled, small overlapping subsets, wide/negative,
random) x budgets (1e-2 .. 1e7) x 1-3 observations x error draws, every one
also under a random label bijection with another insertion order.

Execution: the real `biogeme.mdcev` classes through `Mdcev.forecast`,
`forecast_bisection_one_draw`, `forecast_bruteforce_one_draw`, `validation`
and the per-variant pieces.

Monitors: (a) icontract post-condition on the real
`Mdcev.forecast_bisection_one_draw` (biomon/oracle/c18_contract.py) judging
every returned consumption vector - also those produced inside `forecast` -
against the consumer problem written independently in
biomon/oracle/c18_kkt.py (non-negativity, budget, equal marginal utility of
consumed goods, lower marginal utility at zero of the others, outside good
consumed, distance to / objective of the unique optimum); (b) the library's
own derivative and central differences of its own utility at the forecast;
(c) brute-force optimiser of the library as a lower bound on the objective;
(d) pieces: numeric utility = engine value of the symbolic utility = closed
form, derivative = engine gradient = closed form = central difference,
closed-form consumption inverts the derivative, `validation` returns no
message; (e) label <-> position maps; (f) relabelling relabels the forecasts
and nothing else; (g) histories on ONE model object: forecast / numeric pieces /
validation / per-draw call / brute force on data set A, then on other data
sets with the same row names, on A with its rows permuted, on A again, with
estimation results (real bioResults from BIOGEME.estimate) attached between
calls; every call judged for the observation actually handed over and the
parameter values carried at that moment, and compared with a model object
without history; row objects kept across an estimation are compared with
twin objects of identical content; (h) frame index styles of the data set
(default, sorted frame, shuffled frame, Database.remove with gaps,
extract_rows in another order, offset, string labels, duplicated labels from
pd.concat) in every family that calls forecast / validate_forecast /
mdcev_row_split: entry i is the i-th row by position - rows handed to the
per-draw method, Database.mdcev_row_split entries, agreement of forecast entry
(i, d) with forecast_bisection_one_draw on the i-th observation; Mdcev.
validate_forecast runs, hands rows over by position and does not warn about
different utilities of solutions that have the same utility.
"""
from __future__ import annotations

import math
import random
import warnings

import numpy as np

from .. import env  # noqa: F401
from ..rec import Rec, stable_hash

LEVEL = 'exploration'
RULE = (
    'cases = seeded random MDCEV specifications: variant in {translated, generalized, gamma_profile, non_monotonic}, '
    '2-8 alternatives, with/without outside good, with/without prices and scale, parameters given as free/fixed Beta, '
    'Numeric or expression of a Beta, baseline (and mu) utilities linear in 0-2 of 3 data columns (+ optional product '
    'term), 1-3 observations, Gumbel error draws, budget log-uniform 1e-2..2e3 (stratum "large": 1e4..1e7), labels '
    'from 6 labelling schemes, each case repeated under a random label bijection and insertion order; a stratified '
    'part enumerates variant x outside x labelling; a history family (variant x outside x 3 call sequences over data '
    'sets A/B/C, A permuted and attached estimation results) re-uses one model object over 3-4 data sets with 2-3 '
    'observations whose baseline utilities all depend on the data; three quarters of the random and two thirds of the '
    'stratified cases, and every history step, put the observations in a Database whose frame index has one of 8 '
    'styles obtained through public routes (observation i = i-th row by position). A case is non-trivial when at least one forecast of it was judged '
    'by the post-condition and at least one piece comparison was made; distinct = hash of the specification'
)
ASSUMPTIONS = [
    'direct utility functions of the four variants as written in biomon/oracle/c18_kkt.py (technical report "Estimating '
    'the MDCEV model with Biogeme"); strictly concave for 0<alpha<1, gamma>0, so the KKT point is the unique optimum; '
    'the oracle (closed forms, complex-step derivatives, own bisection) is self-tested at every run against scipy SLSQP '
    'and random feasible points',
    'parameter domain: alpha in (0.05,0.95), gamma in (0.05,20), price in (0.2,5), scale in (0.3,5), baseline utilities '
    'within about +-4, mu utilities within about +-3 (so that the multiplier 10 hard-coded in Mdcev.validation is feasible)',
    'budget exhaustion is judged at 1e-6 relative, or at 10x what the convergence criteria passed to the call promise '
    '(max(|d demand/d multiplier| * tolerance_dual, tolerance_budget)) when that is looser; the count of forecasts '
    'judged at 1e-6 is reported',
    'error draws are handed over in the column order the model publishes as index_to_key',
    'forecasts are requested half with the library defaults (forecast: 1e-10/1e-10, forecast_bisection_one_draw: '
    '1e-13/1e-13) and half with tolerance_dual=1e-15, tolerance_budget=1e-9*budget; four directed cases use 1e-7*budget',
    'Mdcev.validation hard-codes the multiplier 10 and the draw 0.01: its verdict is taken only where 10 is attainable '
    'and the remaining fraction 1 + x/(price*gamma) at the implied consumption is >= 1e-7 (otherwise float64 '
    'cancellation, not the code, decides; counted as validation_skipped_multiplier_10_ill_conditioned); the harness\'s '
    'own inverse test above the marginal utility at zero uses remaining fractions in [1e-3, 0.9]',
    'finite differences of the library utility use a step of 1e-4 of the curvature scale (x + price*gamma, x for the '
    'outside good) and are not taken for an outside-good consumption below the library\'s SMALLEST_NON_ZERO_NUMBER (1e-6)',
]
MIN_DISTINCT = {'quick': 500, 'thorough': 3000}
CASE_TIMEOUT = 600
# generous watchdogs (never a verdict): the machine is shared, a quick run costs ~5 CPU-minutes in total
SHARD_TIMEOUT = {'quick': 3600, 'thorough': 6 * 3600}

REPS = {'quick': 8, 'thorough': 24}
N_RANDOM = {'quick': 400, 'thorough': 2000}
N_LARGE = {'quick': 64, 'thorough': 300}
DRAWS = {'quick': 6, 'thorough': 16}
BRUTE_EVERY = {'quick': 6, 'thorough': 5}
VALIDATE_FORECAST_EVERY = {'quick': 8, 'thorough': 8}
N_HISTORY = {'quick': 96, 'thorough': 480}
HISTORY_DRAWS = {'quick': 3, 'thorough': 6}
# A = the data set of the specification, B / C = other values in the same rows, P = A with its rows rotated,
# E = attach estimation results carrying other parameter values, S = numeric pieces on the SAME one-row Database
# objects that were used before the last E
HISTORY_SEQUENCES = (('A', 'B', 'P', 'A'), ('A', 'E', 'S', 'A', 'B'), ('B', 'A', 'E', 'C', 'E', 'A'))

PIECE_VAL_RTOL = 1e-8
PIECE_DER_RTOL = 1e-8
ENGINE_DER_RTOL = 1e-7
FD_RTOL = 1e-5
RELABEL_RTOL = 1e-7


def cases(seed, tier):
    from ..gen import c18_models as g

    out = [{'mode': 'directed', 'k': k, 'tier': tier} for k in range(len(g.directed()))]
    i = 0
    for rep in range(REPS[tier]):
        for v in g.VARIANTS:
            for outside in (False, True):
                for lab in g.LABELINGS:
                    out.append({'mode': 'strat', 'seed': seed, 'i': i, 'variant': v, 'outside': outside, 'labeling': lab,
                                'tol': 'default' if (i + rep) % 2 else 'tight', 'tier': tier,
                                'index': g.INDEX_STYLES[(i // 3 + rep) % len(g.INDEX_STYLES)] if i % 3 else 'default'})
                    i += 1
    out += [{'mode': 'random', 'seed': seed, 'i': i, 'tol': 'default' if i % 2 else 'tight', 'tier': tier,
             'index': g.INDEX_STYLES[(i // 2) % len(g.INDEX_STYLES)] if i % 4 < 3 else 'default'} for i in range(N_RANDOM[tier])]
    out += [{'mode': 'large', 'seed': seed, 'i': i, 'variant': g.VARIANTS[i % 4], 'tol': 'tight' if i % 3 else 'default', 'tier': tier}
            for i in range(N_LARGE[tier])]
    # histories on ONE model object: data set A, then other data sets / the same rows permuted / A again, with
    # estimation results attached between calls in two of the three sequences
    for i in range(N_HISTORY[tier]):
        out.append({'mode': 'history', 'seed': seed, 'i': i, 'variant': g.VARIANTS[i % 4], 'outside': bool((i // 4) % 2),
                    'sequence': (i // 8) % len(HISTORY_SEQUENCES), 'tol': 'default' if (i // 24) % 2 else 'tight', 'tier': tier})
    return out


def warmup():
    import biogeme.mdcev  # noqa
    import biogeme.database  # noqa
    import biogeme.expressions  # noqa
    import scipy.optimize  # noqa
    from ..oracle import c18_contract

    c18_contract.install()


def selftest():
    from ..oracle import c18_kkt

    return c18_kkt.selftest()


def spec_of(case):
    from ..gen import c18_models as g

    draws = DRAWS[case.get('tier', 'quick')]
    m = case['mode']
    rows = None
    if case.get('index', 'default') != 'default':
        rows = 2 + case['i'] % 3  # an index style only matters with several observations
        draws = max(3, draws * 2 // (rows + 1))
    if m == 'directed':
        return g.directed()[case['k']]
    if m == 'strat':
        return g.make_spec(case['seed'], 100000 + case['i'], variant=case['variant'], outside=case['outside'],
                           labeling=case['labeling'], draws=draws, rows=rows)
    if m == 'large':
        rnd = random.Random(f'c18-large-{case["seed"]}-{case["i"]}')
        return g.make_spec(case['seed'], 200000 + case['i'], variant=case['variant'],
                           budget=float('%.4g' % (10 ** rnd.uniform(4, 7))), draws=draws)
    return g.make_spec(case['seed'], case['i'], draws=draws, rows=rows)


# ---------------------------------------------------------------------------
class Ctx:
    def __init__(self, rec, spec):
        self.rec = rec
        self.spec = spec
        self.per_mech = {}

    def viol(self, monitor, msg, tag='', generic=False, **wit):
        # generic: the mechanism sits in the base class Mdcev, the variant is not part of its name
        mech = f'C18/{monitor}' if generic else f'C18/{monitor}-{self.spec["variant"]}{tag}'
        k = self.per_mech.get(mech, 0)
        self.per_mech[mech] = k + 1
        if k < 2:
            w = {'spec': self.spec}
            w.update(wit)
            self.rec.violation(mech, msg, w)
        else:
            self.rec.c('violations_raw')


def collision_tag(spec, model):
    """structural shape: an inside good carries, as its label, the position at
    which the model stores the outside good (label and position overlap)"""
    out = spec['outside']
    if out is None:
        return ''
    try:
        pos = list(model.index_to_key).index(out)
    except ValueError:
        return ''
    if any(l == pos for l in spec['labels'] if l != out):
        return '-inside-label-equals-outside-position'
    return ''


def one_row_db(spec, r, name):
    import pandas as pd
    from biogeme.database import Database

    return Database(name, pd.DataFrame({c: [float(spec['data'][c][r])] for c in spec['data']}))


def _relclose(a, b, rtol, scale):
    a, b = float(a), float(b)
    if math.isnan(a) or math.isnan(b):
        return False
    if a == b:
        return True
    return abs(a - b) <= rtol * max(scale, abs(b))


# ---------------------------------------------------------------------------
def check_maps(cx, spec, model, tag, which):
    rec = cx.rec
    rec.ev()
    rec.c('maps_checked')
    labels = spec['labels']
    itk = list(model.index_to_key)
    kti = dict(model.key_to_index)
    ok = True
    if sorted(itk) != sorted(labels) or len(itk) != len(labels):
        cx.viol('maps-index_to_key-is-not-the-label-set', f'{which}: index_to_key={itk} labels={labels}', tag)
        ok = False
    if sorted(kti.keys()) != sorted(labels):
        cx.viol('maps-key_to_index-keys-are-not-the-label-set', f'{which}: key_to_index={kti} labels={labels}', tag)
        ok = False
    if ok:
        bad = [l for l in labels if not (0 <= kti[l] < len(itk) and itk[kti[l]] == l)]
        if bad:
            cx.viol('maps-key_to_index-does-not-invert-index_to_key', f'{which}: index_to_key={itk} key_to_index={kti}', tag)
            ok = False
    if model.outside_good_key != spec['outside']:
        cx.viol('maps-outside_good_key-wrong', f'{which}: outside_good_key={model.outside_good_key} expected {spec["outside"]}', tag)
        ok = False
    ogi = model.outside_good_index
    if spec['outside'] is None:
        if ogi is not None:
            cx.viol('maps-outside_good_index-wrong', f'{which}: outside_good_index={ogi} without outside good', tag)
            ok = False
    elif ok and not (ogi is not None and 0 <= ogi < len(itk) and itk[ogi] == spec['outside']):
        cx.viol('maps-outside_good_index-wrong', f'{which}: outside_good_index={ogi} index_to_key={itk} outside={spec["outside"]}', tag)
        ok = False
    if model.number_of_alternatives != len(labels):
        cx.viol('maps-number_of_alternatives-wrong', f'{which}: {model.number_of_alternatives} for {len(labels)} labels', tag)
        ok = False
    if itk != sorted(itk):
        rec.c('maps_position_order_differs_from_sorted_labels')
    if any(l != kti.get(l) for l in labels):
        rec.c('maps_label_differs_from_position')
    return ok


def check_pieces(cx, spec, model, tag, which, rnd, rows, npts):
    """numeric utility / derivative / inverse of every alternative against the
    engine value of the symbolic utility and against the closed forms"""
    from biogeme.expressions import Beta, Numeric
    from ..oracle import c18_kkt as K

    rec = cx.rec
    for l in spec['labels']:
        r = rnd.randrange(len(rows))
        row_db = rows[r]
        is_out = spec['gamma'][str(l)] is None
        for pt in range(npts):
            eps = round(-math.log(-math.log(rnd.uniform(1e-4, 1 - 1e-4))), 5)
            x = float('%.5g' % (10 ** rnd.uniform(-3, 3)))
            gd = K.goods_of(spec, r, {str(k): (eps if k == l else 0.0) for k in spec['labels']})[l]
            with np.errstate(all='ignore'):
                u_ref = float(np.real(gd.U(x)))
                d_ref = gd.dU(x)
            u_scale = abs(u_ref) + abs(d_ref) * x + abs(gd.m) * x
            d_scale = abs(d_ref) + (abs(gd.m) if spec['variant'] == 'non_monotonic' else 0.0)
            wit = dict(which=which, label=l, row=r, x=x, eps=eps, outside_good=is_out)

            def call(name, fn):
                try:
                    with warnings.catch_warnings():
                        warnings.simplefilter('ignore')
                        return True, fn()
                except BaseException as e:  # noqa
                    cx.viol(f'pieces-{name}-raises-{type(e).__name__}', f'{which}: {name}(alt {l}, x={x}, eps={eps}) raised {type(e).__name__}: {e}', tag, **wit)
                    return False, None

            # numeric utility
            ok, u_lib = call('utility_one_alternative', lambda: model.utility_one_alternative(
                the_id=l, the_consumption=x, epsilon=eps, one_observation=row_db))
            if ok:
                rec.ev()
                rec.c('pieces_utility_compared')
                if not _relclose(u_lib, u_ref, PIECE_VAL_RTOL, u_scale):
                    cx.viol('pieces-numeric-utility-differs-from-closed-form' + ('-outside-good' if is_out else ''),
                            f'{which}: utility_one_alternative={u_lib!r} closed form={u_ref!r}', tag, **wit)
            # symbolic utility through the engine (value and derivative w.r.t. consumption)
            def sym():
                cons = Beta('consumption', x, None, None, 0)
                e = model.utility_expression_one_alternative(the_id=l, the_consumption=cons, unscaled_epsilon=Numeric(eps))
                res = e.get_value_and_derivatives(database=row_db, prepare_ids=True, gradient=True, named_results=True)
                return float(res.function), float(res.gradient['consumption'])

            oks, sv = call('utility_expression_one_alternative', sym)
            if oks and ok:
                rec.ev()
                rec.c('pieces_symbolic_compared')
                if not _relclose(u_lib, sv[0], PIECE_VAL_RTOL, u_scale):
                    cx.viol('pieces-numeric-utility-differs-from-symbolic-utility' + ('-outside-good' if is_out else ''),
                            f'{which}: utility_one_alternative={u_lib!r} engine value of utility_expression_one_alternative={sv[0]!r} '
                            f'(closed form {u_ref!r})', tag, **wit)
            # derivative
            okd, d_lib = call('derivative_utility_one_alternative', lambda: model.derivative_utility_one_alternative(
                the_id=l, the_consumption=x, epsilon=eps, one_observation=row_db))
            if okd:
                rec.ev()
                rec.c('pieces_derivative_compared')
                if not _relclose(d_lib, d_ref, PIECE_DER_RTOL, d_scale):
                    cx.viol('pieces-derivative-differs-from-closed-form' + ('-outside-good' if is_out else ''),
                            f'{which}: derivative_utility_one_alternative={d_lib!r} closed form={d_ref!r}', tag, **wit)
                if oks and not _relclose(d_lib, sv[1], ENGINE_DER_RTOL, d_scale):
                    cx.viol('pieces-derivative-differs-from-gradient-of-symbolic-utility' + ('-outside-good' if is_out else ''),
                            f'{which}: derivative_utility_one_alternative={d_lib!r} engine gradient={sv[1]!r}', tag, **wit)
                # central difference of the library's own numeric utility
                h = 1e-4 * (x if is_out else x + gd.g * gd.p)  # curvature scale of the variant's utility
                okf, fd = call('utility_one_alternative', lambda: (
                    model.utility_one_alternative(the_id=l, the_consumption=x + h, epsilon=eps, one_observation=row_db)
                    - model.utility_one_alternative(the_id=l, the_consumption=x - h, epsilon=eps, one_observation=row_db)) / (2 * h))
                if okf:
                    rec.ev()
                    rec.c('pieces_finite_difference_compared')
                    noise = 1e-13 * u_scale / h
                    if not (abs(float(fd) - float(d_lib)) <= FD_RTOL * max(d_scale, abs(d_lib)) + noise):
                        cx.viol('pieces-derivative-differs-from-finite-difference-of-numeric-utility' + ('-outside-good' if is_out else ''),
                                f'{which}: derivative_utility_one_alternative={d_lib!r} central difference of utility_one_alternative={fd!r}', tag, **wit)
            # inverse: optimal consumption at the multiplier equal to the marginal utility at x gives x back
            lam = d_ref
            oki, x_lib = call('optimal_consumption_one_alternative', lambda: model.optimal_consumption_one_alternative(
                the_id=l, dual_variable=float(lam), epsilon=float(eps), one_observation=row_db))
            if oki:
                rec.ev()
                rec.c('pieces_inverse_compared')
                xs = x + (gd.g or 0.0) * gd.p
                if not _relclose(x_lib, x, 1e-7, xs):
                    cx.viol('pieces-optimal-consumption-does-not-invert-derivative' + ('-outside-good' if is_out else ''),
                            f'{which}: optimal_consumption_one_alternative(lambda = U\'({x})) = {x_lib!r}', tag, lam=lam, **wit)
        # marginal utility at zero (inside goods) and a multiplier above it
        if not is_out:
            eps = round(-math.log(-math.log(rnd.uniform(1e-4, 1 - 1e-4))), 5)
            gd = K.goods_of(spec, r, {str(k): (eps if k == l else 0.0) for k in spec['labels']})[l]
            w0 = gd.w0()
            d_scale = abs(w0) + (abs(gd.m) if spec['variant'] == 'non_monotonic' else 0.0)
            wit = dict(which=which, label=l, row=r, x=0, eps=eps, outside_good=False)
            for zero in (0, 0.0):
                try:
                    with warnings.catch_warnings():
                        warnings.simplefilter('ignore')
                        d0 = model.derivative_utility_one_alternative(the_id=l, the_consumption=zero, epsilon=eps, one_observation=row_db)
                    rec.ev()
                    rec.c('pieces_derivative_at_zero_compared')
                    if not _relclose(d0, w0, PIECE_DER_RTOL, d_scale):
                        cx.viol('pieces-derivative-at-zero-differs-from-closed-form',
                                f'{which}: derivative_utility_one_alternative(alt {l}, consumption 0)={d0!r} closed form={w0!r}', tag, **wit)
                        break
                except BaseException as e:  # noqa
                    cx.viol(f'pieces-derivative-at-zero-raises-{type(e).__name__}', f'{which}: alt {l}: {e}', tag, **wit)
                    break
            # a multiplier above the marginal utility at zero (negative consumption, still inside the domain
            # x > -price*gamma): chosen through the remaining fraction t = 1 + x/(price*gamma) in [1e-3, 0.9] so that the
            # inversion is well conditioned (cancellation amplifies rounding by 1/t)
            t = 10 ** rnd.uniform(-3, -0.05)
            x2_ref = gd.g * gd.p * (t - 1.0)
            lam2 = gd.dU(x2_ref)
            try:
                with warnings.catch_warnings():
                    warnings.simplefilter('ignore')
                    x2 = model.optimal_consumption_one_alternative(the_id=l, dual_variable=float(lam2), epsilon=float(eps), one_observation=row_db)
                    back = model.derivative_utility_one_alternative(the_id=l, the_consumption=float(x2), epsilon=eps, one_observation=row_db)
                rec.ev()
                rec.c('pieces_inverse_above_w0_compared')
                if not _relclose(x2, x2_ref, 1e-7, gd.g * gd.p * t):
                    cx.viol('pieces-optimal-consumption-differs-from-closed-form',
                            f'{which}: optimal_consumption_one_alternative(alt {l}, lambda={lam2!r})={x2!r} closed form={x2_ref!r}', tag, lam=lam2, **wit)
                elif not _relclose(back, lam2, 1e-7, d_scale):
                    cx.viol('pieces-derivative-of-optimal-consumption-is-not-the-multiplier',
                            f'{which}: derivative(optimal_consumption(lambda={lam2!r}))={back!r}', tag, lam=lam2, **wit)
            except BaseException as e:  # noqa
                cx.viol(f'pieces-optimal-consumption-raises-{type(e).__name__}', f'{which}: alt {l}: {e}', tag, **wit)


def validation_well_conditioned(spec, r):
    """Mdcev.validation hard-codes the multiplier 10 and the draw 0.01: its round trip
    derivative(optimal_consumption(10)) is only meaningful where 10 is attainable and the remaining fraction
    1 + x/(price*gamma) is not tiny (cancellation).  Decided on the oracle."""
    from ..oracle import c18_kkt as K

    goods = K.goods_of(spec, r, {str(l): 0.01 for l in spec['labels']})
    for l, gd in goods.items():
        if 10.0 - gd.floor() <= 1e-3:
            return False
        x = gd.inv(10.0)
        if not math.isfinite(x):
            return False
        if gd.g is not None:
            t = 1.0 + x / (gd.g * gd.p)
            if not 1e-7 <= t <= 1e12:  # rounding of t is amplified by 1/t; validation compares at rtol 1e-5
                return False
        elif not 1e-12 <= x <= 1e12:
            return False
    return True


def check_validation(cx, spec, model, tag, which, row_db, r):
    rec = cx.rec
    if not validation_well_conditioned(spec, r):
        rec.c('validation_skipped_multiplier_10_ill_conditioned')
        return
    try:
        with warnings.catch_warnings():
            warnings.simplefilter('ignore')
            msgs = model.validation(one_row=row_db)
        rec.ev()
        rec.c('validation_runs')
        if msgs:
            cx.viol('validation-reports-inconsistency', f'{which}: Mdcev.validation returned {msgs[:4]}', tag, which=which)
    except BaseException as e:  # noqa
        cx.viol(f'validation-raises-{type(e).__name__}', f'{which}: Mdcev.validation raised {type(e).__name__}: {e}', tag, which=which)


def run_forecast(cx, spec, model, db, tag, which, tol):
    """Mdcev.forecast over all observations and draws; returns (frames or None, log entries)"""
    from ..gen import c18_models as g
    from ..oracle import c18_contract as C

    eps = [g.eps_matrix(model, r) for r in spec['eps']]
    kw = {}
    if tol == 'tight':
        kw = {'tolerance_dual': 1e-15, 'tolerance_budget': 1e-9 * spec['budget']}
    elif tol == 'budget1e-7':
        kw = {'tolerance_dual': 1e-15, 'tolerance_budget': 1e-7 * spec['budget']}
    C.reset()
    try:
        with warnings.catch_warnings():
            warnings.simplefilter('ignore')
            frames = model.forecast(database=db, total_budget=spec['budget'], epsilons=eps, **kw)
    except BaseException as e:  # noqa
        cx.viol(f'forecast-raises-{type(e).__name__}', f'{which}: Mdcev.forecast raised {type(e).__name__}: {e} '
                f'(after {len(C.LOG)} draws)', tag, which=which, labels=spec['labels'], outside=spec['outside'],
                index_to_key=list(model.index_to_key))
        return None, list(C.LOG), eps
    return frames, list(C.LOG), eps


def budget_miss_only_with_budget_criterion(model, e):
    """second observation of the real method on the same input with the budget stopping criterion switched off
    (tolerance_budget=0, same tolerance_dual): does it exhaust the budget then?  Separates 'the loop was left on the
    budget criterion and the returned point is not the one that met it' from any other way of missing the budget."""
    import pandas as pd
    from biogeme.database import Database
    from ..oracle import c18_contract as C

    saved = list(C.LOG)
    try:
        row = Database('c18recall', pd.DataFrame({c: [v] for c, v in e['rowvals'].items()}))
        with warnings.catch_warnings():
            warnings.simplefilter('ignore')
            res = model.forecast_bisection_one_draw(one_row_of_database=row, total_budget=e['budget'], epsilon=np.array(e['eps'], dtype=float),
                                                    tolerance_dual=e['tol_dual'], tolerance_budget=0.0)
        tot = float(sum(res.values()))
        return abs(tot - e['budget']) <= 1e-7 * e['budget'], tot
    except BaseException:  # noqa
        return False, None
    finally:
        C.LOG[:] = saved


def absorb_log(cx, spec, entries, tag, which, count=True, model=None):
    """turn the post-condition records into verdicts + coverage"""
    rec = cx.rec
    n_ok = 0
    for e in entries:
        if 'monitor_error' in e:
            rec.inconc('C18 post-condition failed: ' + e['monitor_error'][:300])
            continue
        if 'problems' not in e:
            continue
        rec.ev()
        n_ok += 1
        m = e['meas']
        if count:
            rec.c('forecasts_judged')
            rec.c('forecasts_judged_' + spec['variant'] + ('_outside' if spec['outside'] is not None else '_no_outside'))
            if m.get('budget_judged_at_1e-6'):
                rec.c('forecasts_budget_judged_at_1e-6')
            else:
                rec.c('forecasts_budget_judged_at_callers_tolerance')
            if 'oracle_failed' in m:
                rec.c('forecasts_oracle_no_bracket')
            x = m.get('x')
            if x:
                npos = sum(1 for v in x.values() if v > 0)
                rec.c('solution_interior' if npos == len(x) else 'solution_corner')
                rec.c('solution_consumed_%s' % (npos if npos < 4 else '4plus'))
            rec.c('budget_decade_%+d' % int(math.floor(math.log10(e['budget']))))
        for mon, msg in e['problems']:
            if mon == 'forecast-budget-not-exhausted' and model is not None and e['tol_budget'] > 0:
                rec.c('budget_miss_reobserved_without_budget_criterion')
                only, tot2 = budget_miss_only_with_budget_criterion(model, e)
                if only:
                    cx.viol('forecast-budget-not-exhausted-only-when-loop-left-on-budget-criterion',
                            f'{which}: {msg}; the same call with tolerance_budget=0 returns a sum of {tot2!r}', generic=True, which=which,
                            eps_by_label=e.get('eps_by_label'), rowvals=e.get('rowvals'), budget=e['budget'], result=e['result'],
                            tolerances=[e['tol_dual'], e['tol_budget']])
                    continue
            cx.viol(mon, f'{which}: {msg}', tag, which=which, eps_by_label=e.get('eps_by_label'), rowvals=e.get('rowvals'),
                    budget=e['budget'], result=e['result'], tolerances=[e['tol_dual'], e['tol_budget']],
                    reference=m.get('ref'), multiplier_reference=m.get('lam_ref'))
    return n_ok


def check_frames_against_log(cx, spec, model, frames, entries, eps, tag, which, tol):
    """what `forecast` returns is exactly what the per-draw method returned, in order, for the draw handed over"""
    rec = cx.rec
    R, D = len(spec['eps']), len(spec['eps'][0])
    rec.ev()
    rec.c('forecast_frames_checked')
    if len(frames) != R:
        cx.viol('forecast-number-of-frames-wrong', f'{which}: {len(frames)} data frames for {R} observations', tag)
        return False
    if len(entries) != R * D:
        cx.viol('forecast-number-of-draws-evaluated-wrong', f'{which}: {len(entries)} per-draw calls for {R}x{D} draws', tag)
        return False
    for r, df in enumerate(frames):
        if sorted(int(c) for c in df.columns) != sorted(spec['labels']) or len(df) != D:
            cx.viol('forecast-frame-shape-wrong', f'{which}: frame {r} columns {list(df.columns)} rows {len(df)} for labels {spec["labels"]} draws {D}', tag)
            return False
        for d in range(D):
            e = entries[r * D + d]
            if e['eps'] != [float(v) for v in eps[r][d]]:
                cx.viol('forecast-draw-handed-to-bisection-is-not-the-draw-of-the-observation',
                        f'{which}: observation {r} draw {d}: per-draw call received {e["eps"]} but the caller supplied {list(eps[r][d])}', tag)
                return False
            want = {c: float(spec['data'][c][r]) for c in spec['data']}
            if {c: e['rowvals'].get(c) for c in want} != want or e.get('nrows') != 1:
                cx.viol('forecast-row-handed-to-bisection-is-not-the-observation', f'{which}: observation {r}: per-draw call saw {e["rowvals"]}', tag)
                return False
            if e['budget'] != spec['budget']:
                cx.viol('forecast-budget-handed-to-bisection-differs', f'{which}: {e["budget"]} vs {spec["budget"]}', tag)
                return False
            if tol != 'default' and (e['tol_dual'] != 1e-15 or e['tol_budget'] != (1e-9 if tol == 'tight' else 1e-7) * spec['budget']):
                cx.viol('forecast-tolerances-not-forwarded', f'{which}: per-draw call got tolerances {e["tol_dual"]}, {e["tol_budget"]}', tag)
                return False
            got = {int(c): float(df[c].iloc[d]) for c in df.columns}
            if isinstance(e['result'], dict) and got != {int(k): v for k, v in e['result'].items()}:
                cx.viol('forecast-frame-differs-from-per-draw-result', f'{which}: observation {r} draw {d}: frame {got} per-draw result {e["result"]}', tag)
                return False
    return True


def check_row_split(cx, spec, db, tag, which):
    """Database.mdcev_row_split: one-row databases in the order of the rows (position), whatever the index labels"""
    rec = cx.rec
    R = len(spec['eps'])
    try:
        rows = db.mdcev_row_split()
    except BaseException as e:  # noqa
        cx.viol(f'mdcev_row_split-raises-{type(e).__name__}', f'{which}: {type(e).__name__}: {e} (index labels {list(db.data.index)})', tag)
        return None
    rec.ev()
    rec.c('row_split_checked')
    if len(rows) != R:
        cx.viol('mdcev_row_split-number-of-rows-wrong', f'{which}: {len(rows)} one-row databases for {R} observations', tag)
        return None
    for r, row in enumerate(rows):
        want = {c: float(spec['data'][c][r]) for c in spec['data']}
        try:
            got = {c: float(row.data[c].iloc[0]) for c in want} if len(row.data) == 1 else None
        except BaseException:  # noqa
            got = None
        if got != want:
            cx.viol('mdcev_row_split-row-is-not-the-observation-at-that-position',
                    f'{which}: entry {r} holds {got} but the {r}-th row of the frame is {want} (index labels {list(db.data.index)})', tag)
            return None
    return rows


def check_entries_against_direct(cx, spec, frames, direct, entries, tag, which):
    """entry (i, d) of Mdcev.forecast is the forecast of the i-th observation (position) for draw d: it agrees with
    forecast_bisection_one_draw on that observation with the same draw"""
    rec = cx.rec
    B = spec['budget']
    allow = RELABEL_RTOL * B
    for e in entries:
        if 'meas' in e:
            allow = max(allow, 4 * e['meas'].get('budget_relerr', 0.0) * B)
    for (r, d), res in direct.items():
        rec.ev()
        rec.c('forecast_entries_compared_with_per_draw_call')
        try:
            worst = max(abs(float(frames[r][l].iloc[d]) - float(res[l])) for l in spec['labels'])
        except BaseException:  # noqa
            worst = math.inf
        # the per-draw call ran with its own (default, absolute) tolerances: its own budget miss is part of the distance
        try:
            own = 4 * abs(sum(float(v) for v in res.values()) - B)
        except BaseException:  # noqa
            own = 0.0
        if not worst <= allow + own:
            cx.viol('forecast-entry-differs-from-per-draw-forecast-of-the-observation-at-that-position',
                    f'{which}: entry ({r}, draw {d}) of forecast = { {l: float(frames[r][l].iloc[d]) for l in spec["labels"]} } but '
                    f'forecast_bisection_one_draw on the {r}-th observation with the same draw = { {l: float(res[l]) for l in spec["labels"]} }',
                    tag, row=r, draw=d)
            return


def check_validate_forecast(cx, spec, model, db, eps, tag, which):
    """Mdcev.validate_forecast (comparison of the two algorithms, first draw of each observation): runs on a
    legitimate model, hands the observations over by position, and its warning about different optimal utilities is
    not raised when the two solutions it compares have the same utility"""
    import logging

    from ..oracle import c18_contract as C
    from ..oracle import c18_kkt as K

    rec = cx.rec
    itk = list(model.index_to_key)
    otag = tag + ('-position-order-differs-from-sorted-labels' if itk != sorted(itk) else '')
    records = []

    class H(logging.Handler):
        def emit(self, record):
            records.append(record.getMessage())

    lg = logging.getLogger('biogeme.mdcev.mdcev')
    h = H(level=logging.WARNING)
    old_level = lg.level
    lg.addHandler(h)
    lg.setLevel(logging.WARNING)
    C.reset()
    try:
        with warnings.catch_warnings():
            warnings.simplefilter('ignore')
            model.validate_forecast(database=db, total_budget=spec['budget'], epsilons=[e[:1] for e in eps])
        ok = True
    except BaseException as e:  # noqa
        ok = False
        if otag != tag:  # the site is in the base class: one mechanism, no variant in its name
            cx.viol(f'validate_forecast-raises-{type(e).__name__}-position-order-differs-from-sorted-labels',
                    f'{which}: Mdcev.validate_forecast raised {type(e).__name__}: {e} (index_to_key {itk}, outside good {spec["outside"]})',
                    generic=True, index_to_key=itk)
        else:
            cx.viol(f'validate_forecast-raises-{type(e).__name__}', f'{which}: Mdcev.validate_forecast raised {type(e).__name__}: {e} '
                    f'(index_to_key {itk}, outside good {spec["outside"]})', tag, index_to_key=itk)
    finally:
        lg.removeHandler(h)
        lg.setLevel(old_level)
    log = list(C.LOG)
    rec.ev()
    rec.c('validate_forecast_runs')
    if not ok:
        return
    absorb_log(cx, spec, log, tag, which + ' (inside validate_forecast)', count=False, model=model)
    R = len(spec['eps'])
    if len(log) != R:
        cx.viol('validate_forecast-number-of-per-draw-calls-wrong', f'{which}: {len(log)} per-draw calls for {R} observations x 1 draw', tag)
        return
    for r, e in enumerate(log):
        want = {c: float(spec['data'][c][r]) for c in spec['data']}
        if {c: e['rowvals'].get(c) for c in want} != want or e['eps'] != [float(v) for v in eps[r][0]]:
            cx.viol('validate_forecast-row-or-draw-handed-over-is-not-that-of-the-observation',
                    f'{which}: observation {r}: per-draw call saw row {e["rowvals"]} draw {e["eps"]}', tag)
            return
    # spurious warning: recompute the two solutions the method compares and their utilities with the closed forms
    spurious = [m for m in records if 'Difference between optimal utility' in m]
    if spurious:
        rec.c('validate_forecast_utility_warnings')
        same = 0
        for r in range(R):
            try:
                with warnings.catch_warnings():
                    warnings.simplefilter('ignore')
                    row = db.mdcev_row_split()[r]
                    bf = model.forecast_bruteforce_one_draw(one_row_database=row, total_budget=spec['budget'], epsilon=np.array(eps[r][0], dtype=float))
                if bf is None or not isinstance(log[r]['result'], dict):
                    continue
                goods = K.goods_of(spec, r, spec['eps'][r][0])
                if spec['outside'] is not None and not bf[spec['outside']] > 0:
                    continue
                ub = K.total_utility(goods, {l: max(float(bf[l]), 0.0) for l in spec['labels']})
                ua = K.total_utility(goods, {l: max(float(log[r]['result'][l]), 0.0) for l in spec['labels']})
                if np.isclose(ua, ub, rtol=1e-7, atol=1e-9):
                    same += 1
            except BaseException:  # noqa
                continue
        if same == R:
            msg = (f'{which}: {spurious[0][:200]} -- while the two solutions have the same total utility for every observation '
                   f'(index_to_key {itk})')
            if otag != tag:
                cx.viol('validate_forecast-warns-about-different-utilities-of-solutions-with-equal-utility-position-order-differs-from-sorted-labels',
                        msg, generic=True, index_to_key=itk)
            else:
                cx.viol('validate_forecast-warns-about-different-utilities-of-solutions-with-equal-utility', msg, tag, index_to_key=itk)


def check_library_kkt(cx, spec, model, tag, which, row_db, eps_vec, got, goods):
    """the library's own pieces at its own forecast: derivative_utility_one_alternative and central
    differences of utility_one_alternative are equal over consumed goods"""
    rec = cx.rec
    kti = model.key_to_index
    cons = [l for l in spec['labels'] if got[l] > 0]
    if len(cons) < 2:
        return
    try:
        with warnings.catch_warnings():
            warnings.simplefilter('ignore')
            d = {l: float(model.derivative_utility_one_alternative(the_id=l, the_consumption=float(got[l]),
                                                                   epsilon=float(eps_vec[kti[l]]), one_observation=row_db)) for l in cons}
            fd = {}
            for l in cons:
                x = float(got[l])
                gd = goods[l]
                if gd.g is None and x < 1e-6:
                    continue  # below the library's SMALLEST_NON_ZERO_NUMBER the outside-good utility is guarded (isclose(x, 0))
                h = 1e-4 * (x if gd.g is None else x + gd.g * gd.p)  # curvature scale of the variant's utility
                up = model.utility_one_alternative(the_id=l, the_consumption=x + h, epsilon=float(eps_vec[kti[l]]), one_observation=row_db)
                dn = model.utility_one_alternative(the_id=l, the_consumption=x - h, epsilon=float(eps_vec[kti[l]]), one_observation=row_db)
                fd[l] = (float(up) - float(dn)) / (2 * h)
    except BaseException as e:  # noqa
        cx.viol(f'library-pieces-at-forecast-raise-{type(e).__name__}', f'{which}: {e}', tag, result=got)
        return
    rec.ev()
    rec.c('library_kkt_checked')
    sc = max(abs(v) for v in d.values())
    if spec['variant'] == 'non_monotonic':
        sc = max(sc, max(abs(goods[l].m) for l in cons))
    if max(d.values()) - min(d.values()) > 1e-5 * sc:
        cx.viol('library-derivatives-of-consumed-goods-differ-at-forecast', f'{which}: derivative_utility_one_alternative at the forecast: {d}', tag, result=got)
    if len(fd) >= 2:
        rec.c('library_kkt_finite_difference_checked')
        if max(fd.values()) - min(fd.values()) > 1e-4 * sc:
            cx.viol('library-finite-differences-of-consumed-goods-differ-at-forecast',
                    f'{which}: central differences of utility_one_alternative at the forecast: {fd} (derivatives {d})', tag, result=got)


def check_bruteforce(cx, spec, model, tag, which, row_db, r, d, eps_vec, got):
    from ..oracle import c18_kkt as K

    rec = cx.rec
    B = spec['budget']
    try:
        with warnings.catch_warnings():
            warnings.simplefilter('ignore')
            bf = model.forecast_bruteforce_one_draw(one_row_database=row_db, total_budget=B, epsilon=np.array(eps_vec, dtype=float))
    except BaseException as e:  # noqa
        rec.c('bruteforce_raised_' + type(e).__name__)
        return
    if bf is None:
        rec.c('bruteforce_returned_none')
        return
    goods = K.goods_of(spec, r, spec['eps'][r][d])
    try:
        xb = {l: float(bf[l]) for l in spec['labels']}
    except (KeyError, TypeError):
        rec.c('bruteforce_malformed')
        return
    tot_b = sum(xb.values())
    out = spec['outside']
    if min(xb.values()) < -1e-9 * B or abs(tot_b - B) > 1e-5 * B or any(math.isnan(v) for v in xb.values()) or (out is not None and not xb[out] > 0):
        rec.c('bruteforce_infeasible_result')
        return
    xb = {l: max(v, 0.0) for l, v in xb.items()}
    xg = {l: max(float(got[l]), 0.0) for l in spec['labels']}
    if out is not None and not xg[out] > 0:
        return  # already reported by the post-condition
    u_b = K.total_utility(goods, xb)
    u_g = K.total_utility(goods, xg)
    ref, lam = K.solve(goods, B)
    rec.ev()
    rec.c('bruteforce_compared')
    slack = abs(lam) * (abs(tot_b - B) + abs(sum(xg.values()) - B)) + 1e-6 * (1 + abs(u_b))
    if not u_g >= u_b - slack:
        cx.viol('forecast-worse-than-bruteforce', f'{which}: total utility of the bisection forecast {u_g!r} < {u_b!r} of forecast_bruteforce_one_draw '
                f'(forecast {xg}, brute force {xb})', tag, row=r, draw=d)
    # the library's own objective gives the same ranking
    try:
        with warnings.catch_warnings():
            warnings.simplefilter('ignore')
            itk = list(model.index_to_key)
            sl_g = float(model.sum_of_utilities(consumptions=np.array([xg[k] for k in itk]), epsilon=np.array(eps_vec, dtype=float), data_row=row_db))
        rec.ev()
        rec.c('sum_of_utilities_compared')
        if not _relclose(sl_g, u_g, 1e-7, abs(u_g) + 1.0):
            cx.viol('sum_of_utilities-differs-from-closed-form', f'{which}: sum_of_utilities={sl_g!r} closed form={u_g!r} at {xg}', tag)
    except BaseException as e:  # noqa
        rec.c('sum_of_utilities_raised_' + type(e).__name__)
    if u_b > K.total_utility(goods, ref) + slack:
        rec.inconc(f'brute force beats the oracle optimum ({u_b} > {K.total_utility(goods, ref)}): oracle suspect')


# ---------------------------------------------------------------------------
def attach_results(model, betas):
    """a real bioResults object carrying the parameter values `betas`, obtained through BIOGEME.estimate() on the
    concave quadratic -sum (beta - value)^2, attached with the public setter Mdcev.estimation_results"""
    import pandas as pd
    from biogeme.biogeme import BIOGEME
    from biogeme.database import Database
    from biogeme.expressions import Beta, Numeric
    from biogeme.parameters import Parameters

    f = None
    for n, v in betas.items():
        t = -((Beta(n, 0.0, None, None, 0) - Numeric(float(v))) ** 2)
        f = t if f is None else f + t
    pr = Parameters()
    pr.set_value('generate_html', False, 'Output')
    pr.set_value('generate_pickle', False, 'Output')
    pr.set_value('save_iterations', False, 'Estimation')
    pr.set_value('number_of_threads', 1, 'MultiThreading')
    bg = BIOGEME(Database('c18est', pd.DataFrame({'x1': [0.0, 1.0]})), f, parameters=pr)
    bg.modelName = 'c18est'
    res = bg.estimate()
    model.estimation_results = res
    return {k: float(v) for k, v in res.get_beta_values().items()}


def run_history(case):
    """one model object, several calls: each call is judged for the observation actually given and for the
    parameter values the model carries at that moment, and compared with a model object that has no history"""
    from ..gen import c18_models as g
    from ..oracle import c18_contract as C
    from ..oracle import c18_kkt as K

    rec = Rec(case)
    tier = case.get('tier', 'quick')
    spec0 = g.history_spec(case['seed'], case['i'], variant=case['variant'], outside=case['outside'], draws=HISTORY_DRAWS[tier])
    rnd = random.Random(f'c18-hist-run-{stable_hash(case)}')
    tol = case.get('tol', 'default')
    seq = HISTORY_SEQUENCES[case['sequence']]
    datasets = {'A': spec0['data'], 'B': g.other_data(rnd, spec0), 'C': g.other_data(rnd, spec0), 'P': g.permuted_data(spec0)}
    per_mech = {}
    cx0 = Ctx(rec, spec0)
    cx0.per_mech = per_mech
    try:
        model, _ = g.build(spec0, 'h')
    except BaseException as e:  # noqa
        cx0.viol(f'constructor-raises-{type(e).__name__}', f'{e}')
        return rec.out()
    tag0 = collision_tag(spec0, model)
    if not check_maps(cx0, spec0, model, tag0, 'model'):
        return rec.out()
    rec.c('history_cases')
    rec.c('history_sequence_' + ''.join(seq))
    rec.c('history_variant_' + spec0['variant'] + ('_outside' if spec0['outside'] is not None else '_no_outside'))
    cur = spec0  # parameter values the model carries now
    B = spec0['budget']
    R, D = len(spec0['eps']), len(spec0['eps'][0])
    held_rows = None  # one-row Database objects kept by the caller across steps
    n_est = 0
    judged = pieces = 0
    for k, step in enumerate(seq):
        htag = tag0 + ('' if k == 0 else '-model-object-used-before' + ('-estimation-results-attached' if n_est else ''))
        if step == 'E':
            want = g.perturbed_betas(rnd, cur)
            try:
                got = attach_results(model, want)
            except BaseException as e:  # noqa
                cx0.viol(f'history-attaching-estimation-results-raises-{type(e).__name__}', f'step {k}: {type(e).__name__}: {e}', htag)
                break
            if set(got) != set(want) or any(abs(got[n] - want[n]) > 1e-6 for n in want):
                rec.inconc(f'auxiliary estimation did not reach the requested parameter values: {want} -> {got}')
                break
            cur = g.spec_with_betas(cur, got)
            n_est += 1
            rec.c('history_estimation_results_attached')
            continue
        if step == 'S':
            # the caller kept the one-row Database objects of the previous step and uses them again now that the model
            # carries other parameter values
            if held_rows is None:
                continue
            sp = dict(cur, data=held_rows[0])
            cx = Ctx(rec, sp)
            cx.per_mech = per_mech
            C.register(model, sp, 'h')
            rec.c('history_same_row_objects_after_estimation_steps')
            MECH = 'history-row-object-reused-after-estimation-results-keeps-old-parameter-values'
            where = f'history step {k} (one-row Database objects of the previous step, new parameter values)'
            for r in range(R):
                held = held_rows[1][r]
                twin = one_row_db(sp, r, f'row_{r}')  # same name, same content, another object
                for l in sp['labels']:
                    e1 = round(-math.log(-math.log(rnd.uniform(1e-3, 1 - 1e-3))), 5)
                    x = float('%.5g' % (10 ** rnd.uniform(-2, 2)))
                    gd = K.goods_of(sp, r, {str(q): (e1 if q == l else 0.0) for q in sp['labels']})[l]
                    with np.errstate(all='ignore'):
                        u_ref = float(np.real(gd.U(x)))
                        sc = abs(u_ref) + abs(gd.dU(x)) * x + abs(gd.m) * x
                    try:
                        with warnings.catch_warnings():
                            warnings.simplefilter('ignore')
                            u_twin = float(model.utility_one_alternative(the_id=l, the_consumption=x, epsilon=e1, one_observation=twin))
                            u_held = float(model.utility_one_alternative(the_id=l, the_consumption=x, epsilon=e1, one_observation=held))
                    except BaseException as e:  # noqa
                        cx.viol(f'history-numeric-utility-raises-{type(e).__name__}', f'{where}: {e}', tag0)
                        continue
                    rec.ev()
                    pieces += 1
                    rec.c('history_reused_row_object_utilities_compared')
                    if not _relclose(u_twin, u_ref, PIECE_VAL_RTOL, sc):
                        cx.viol('history-numeric-utility-differs-from-closed-form-after-estimation-results',
                                f'{where}: alt {l}: utility_one_alternative on a new row object {u_twin!r}, closed form for the attached values {u_ref!r}', tag0)
                    elif not _relclose(u_held, u_ref, PIECE_VAL_RTOL, sc):
                        cx.viol(MECH, f'{where}: alt {l}, x={x}: utility_one_alternative gives {u_held!r} on the row object used before the results were '
                                f'attached and {u_twin!r} (= closed form for the attached values) on a new object with the same content', generic=True,
                                label=l, row=r, x=x, eps=e1)
                # per-draw forecast on the held object against the same call on the twin
                ev = g.eps_matrix(model, sp['eps'][r])[0]
                C.reset()
                try:
                    with warnings.catch_warnings():
                        warnings.simplefilter('ignore')
                        f_twin = model.forecast_bisection_one_draw(one_row_of_database=twin, total_budget=B, epsilon=ev.copy())
                    judged += absorb_log(cx, sp, list(C.LOG), tag0, where + ', new row object', count=False, model=model)
                    C.reset()
                    with warnings.catch_warnings():
                        warnings.simplefilter('ignore')
                        f_held = model.forecast_bisection_one_draw(one_row_of_database=held, total_budget=B, epsilon=ev.copy())
                    log_held = list(C.LOG)
                except BaseException as e:  # noqa
                    cx.viol(f'history-forecast-on-reused-row-object-raises-{type(e).__name__}', f'{where}: {e}', tag0)
                    continue
                rec.ev()
                rec.c('history_reused_row_object_forecasts_compared')
                worst = max(abs(float(f_twin[l]) - float(f_held[l])) for l in sp['labels'])
                bad_held = any(e.get('problems') for e in log_held)
                if worst > 1e-6 * B or bad_held:
                    cx.viol(MECH, f'{where}: observation {r}: forecast_bisection_one_draw gives {f_held} on the row object used before the results '
                            f'were attached and {f_twin} on a new object with the same content'
                            + (f'; post-condition on the former: {[e["problems"] for e in log_held if e.get("problems")][:1]}' if bad_held else ''),
                            generic=True, row=r)
            continue
        data = datasets[step]
        hstyle = rnd.choice(g.INDEX_STYLES)
        try:
            db, data, _labels = g.routed_database(data, hstyle, rnd, 'c18hist')
            rec.c('index_style_' + hstyle)
        except BaseException as e:  # noqa
            rec.c('index_route_failed_' + hstyle + '_' + type(e).__name__)
            db = None
        sp = dict(cur, data=data)
        cx = Ctx(rec, sp)
        cx.per_mech = per_mech
        which = f'history step {k} (data set {step} of {"".join(seq)})'
        C.register(model, sp, 'h')
        rec.c('history_steps')
        if k > 0:
            rec.c('history_steps_after_first')
        # (a) forecast over the data set, judged by the post-condition for the rows actually handed over
        import pandas as pd
        from biogeme.database import Database

        if db is None:
            db = Database('c18hist', pd.DataFrame({c: [float(x) for x in data[c]] for c in data}))
        frames, entries, eps = run_forecast(cx, sp, model, db, htag, which, tol)
        judged += absorb_log(cx, sp, entries, htag, which, model=model)
        ok_frames = frames is not None and check_frames_against_log(cx, sp, model, frames, entries, eps, htag, which, tol)
        # (b) a model object without history gives the same forecast
        try:
            fresh, _ = g.build(sp, 'f')
            C.register(fresh, sp, 'f')
            frames_f, entries_f, _ = run_forecast(cx, sp, fresh, db, htag, which + ', fresh model object', tol)
            absorb_log(cx, sp, entries_f, htag, which + ', fresh model object', count=False, model=fresh)
        except BaseException as e:  # noqa
            frames_f = None
            rec.c('history_fresh_model_failed_' + type(e).__name__)
        if ok_frames and frames_f is not None:
            rec.ev()
            rec.c('history_compared_with_fresh_model')
            worst = 0.0
            for r in range(R):
                for l in sp['labels']:
                    a = frames[r][l].to_numpy(dtype=float)
                    b = frames_f[r][l].to_numpy(dtype=float)
                    worst = max(worst, float(np.max(np.abs(a - b))) if len(a) == len(b) else math.inf)
            allow = RELABEL_RTOL * B
            for e in entries + entries_f:
                if 'meas' in e:
                    allow = max(allow, 4 * e['meas'].get('budget_relerr', 0.0) * B)
            if not worst <= allow:
                cx.viol('history-forecast-differs-from-model-object-without-history',
                        f'{which}: forecasts differ by {worst:.3g} (budget {B}) from those of a new model object on the same data set', htag,
                        sequence=list(seq), step=k)
        elif (frames is None) != (frames_f is None):
            cx.viol('history-changes-whether-forecast-succeeds', f'{which}: forecast {"raised" if frames is None else "succeeded"} on the used '
                    f'model object and {"raised" if frames_f is None else "succeeded"} on a new one', htag, sequence=list(seq), step=k)
        # (c) numeric pieces / validation / per-draw call / brute force on one-row databases named as the library and
        #     typical callers name them (the same names for every data set)
        rows = [one_row_db(sp, r, f'row_{r}') for r in range(R)]
        n0 = rec.n
        check_pieces(cx, sp, model, htag, which, rnd, rows, 1)
        pieces += rec.n - n0
        rv = rnd.randrange(R)
        check_validation(cx, sp, model, htag, which, one_row_db(sp, rv, 'row_0'), rv)
        r1 = rnd.randrange(R)
        one = one_row_db(sp, r1, 'one_row')
        C.reset()
        try:
            with warnings.catch_warnings():
                warnings.simplefilter('ignore')
                model.forecast_bisection_one_draw(one_row_of_database=one, total_budget=B, epsilon=eps[r1][0].copy())
            rec.c('direct_bisection_calls')
        except BaseException as e:  # noqa
            cx.viol(f'forecast_bisection_one_draw-raises-{type(e).__name__}', f'{which}: observation {r1}: {type(e).__name__}: {e}', htag)
        judged += absorb_log(cx, sp, list(C.LOG), htag, which + ' (direct call)', model=model)
        if ok_frames:
            got = {l: float(frames[r1][l].iloc[0]) for l in sp['labels']}
            check_library_kkt(cx, sp, model, htag, which, rows[r1], eps[r1][0], got, K.goods_of(sp, r1, sp['eps'][r1][0]))
            if B <= 1e4 and (case['i'] + k) % 3 == 0:
                check_bruteforce(cx, sp, model, htag, which, rows[r1], r1, 0, eps[r1][0], got)
        held_rows = (data, rows)
    if judged and pieces:
        rec.key(stable_hash([spec0, list(seq)]))
    if case['i'] % 41 == 0:
        rec.sample({'history': list(seq), 'variant': spec0['variant'], 'labels': spec0['labels'], 'outside': spec0['outside'],
                    'data_sets': datasets, 'budget': B, 'V': spec0['V']})
    return rec.out()


def run_case(case):
    from ..gen import c18_models as g
    from ..oracle import c18_contract as C
    from ..oracle import c18_kkt as K

    if case['mode'] == 'history':
        return run_history(case)
    rec = Rec(case)
    spec = spec_of(case)
    rnd = random.Random(f'c18-run-{stable_hash(case)}')
    # the data set as a user gets it: frame index style produced through a public route; observation i = i-th row
    style = case.get('index', 'default')
    db_routed, index_labels = None, None
    try:
        db_routed, data_pos, index_labels = g.routed_database(spec['data'], style, random.Random(f'c18-idx-{stable_hash(case)}'))
        spec = dict(spec, data=data_pos)
        rec.c('index_style_' + style)
        if index_labels != [str(j) for j in range(len(index_labels))]:
            rec.c('index_labels_differ_from_positions')
    except BaseException as e:  # noqa  (a route the library does not offer for this frame: counted, not judged)
        rec.c('index_route_failed_' + style + '_' + type(e).__name__)
        style = 'default'
    cx = Ctx(rec, spec)
    tol = spec.get('force_tol') or case.get('tol', 'default')
    B = spec['budget']
    R, D = len(spec['eps']), len(spec['eps'][0])

    # ---- real objects: the model, and the same model under other labels / insertion order
    try:
        model, db = g.build(spec, 'a')
    except BaseException as e:  # noqa
        cx.viol(f'constructor-raises-{type(e).__name__}', f'{e}')
        return rec.out()
    if db_routed is not None:
        db = db_routed
    sigma, order = g.random_bijection(rnd, spec['labels'])
    spec_b = g.relabel(spec, sigma, order)
    cxb = Ctx(rec, spec_b)
    cxb.per_mech = cx.per_mech
    try:
        model_b, db_b = g.build(spec_b, 'b')
        if db_routed is not None:
            from biogeme.database import Database as _Db

            db_b = _Db('c18idxb', db_routed.data.copy())
    except BaseException as e:  # noqa
        cxb.viol(f'constructor-raises-{type(e).__name__}', f'relabelled: {e}')
        model_b = None
    C.register(model, spec, 'a')
    if model_b is not None:
        C.register(model_b, spec_b, 'b')
    tag = collision_tag(spec, model)
    tag_b = collision_tag(spec_b, model_b) if model_b is not None else ''
    rec.c('variant_' + spec['variant'])
    rec.c('outside_good_yes' if spec['outside'] is not None else 'outside_good_no')
    rec.c('labeling_' + spec['labeling'])
    rec.c('prices_yes' if spec.get('price') else 'prices_no')
    rec.c('scale_yes' if spec.get('scale') is not None else 'scale_no')
    rec.c('tolerances_' + tol)
    rec.c('alternatives_%d' % len(spec['labels']))
    if tag:
        rec.c('shape_inside_label_equals_outside_position')
    if tag_b:
        rec.c('shape_inside_label_equals_outside_position_relabelled')

    # ---- (e) maps
    maps_ok = check_maps(cx, spec, model, tag, 'model')
    if model_b is not None:
        check_maps(cxb, spec_b, model_b, tag_b, 'relabelled model')
    if not maps_ok:
        return rec.out()  # error draws cannot be laid out

    rows = [one_row_db(spec, r, f'c18row{r}') for r in range(R)]
    if style != 'default' or case.get('i', 0) % 5 == 0:
        split = check_row_split(cx, spec, db, tag, f'index style {style}')
        if split is not None:
            rows = split
    # ---- (d) pieces + validation
    n_before = rec.n
    check_pieces(cx, spec, model, tag, 'model', rnd, rows, 2)
    if model_b is not None and case.get('i', 0) % 2 == 0:
        rows_b = [one_row_db(spec_b, r, f'c18rowb{r}') for r in range(R)]
        check_pieces(cxb, spec_b, model_b, tag_b, 'relabelled model', rnd, rows_b, 1)
    pieces_made = rec.n - n_before
    check_validation(cx, spec, model, tag, 'model', rows[0], 0)
    if model_b is not None and case.get('i', 0) % 3 == 0:
        check_validation(cxb, spec_b, model_b, tag_b, 'relabelled model', one_row_db(spec_b, R - 1, 'c18rowv'), R - 1)

    # ---- (a) forecasts through Mdcev.forecast, judged by the post-condition
    frames, entries, eps = run_forecast(cx, spec, model, db, tag, 'model', tol)
    judged = absorb_log(cx, spec, entries, tag, 'model', model=model)
    if frames is not None:
        ok_frames = check_frames_against_log(cx, spec, model, frames, entries, eps, tag, 'model', tol)
    else:
        ok_frames = False
    # direct calls with the method's own default tolerances
    direct = {}
    for r in range(R):
        for d in range(min(2, D)):
            C.reset()
            try:
                with warnings.catch_warnings():
                    warnings.simplefilter('ignore')
                    res = model.forecast_bisection_one_draw(one_row_of_database=rows[r], total_budget=B, epsilon=eps[r][d].copy())
                direct[(r, d)] = res
                rec.c('direct_bisection_calls')
            except BaseException as e:  # noqa
                cx.viol(f'forecast_bisection_one_draw-raises-{type(e).__name__}', f'model: observation {r} draw {d}: {type(e).__name__}: {e}', tag,
                        row=r, draw=d, labels=spec['labels'], outside=spec['outside'], index_to_key=list(model.index_to_key))
            judged += absorb_log(cx, spec, list(C.LOG), tag, 'model (direct call)', model=model)
    if C.COUNT['post_evaluated'] == 0 and (frames is not None or direct):
        rec.inconc('post-condition on forecast_bisection_one_draw never evaluated')
    if ok_frames and direct:
        check_entries_against_direct(cx, spec, frames, direct, entries, tag, f'model (index style {style})')
    if ok_frames and (case['mode'] == 'directed' or case.get('i', 0) % VALIDATE_FORECAST_EVERY[case.get('tier', 'quick')] == 1) and B <= 1e4:
        check_validate_forecast(cx, spec, model, db, eps, tag, f'model (index style {style})')

    # ---- (b) the library's own pieces at its own forecast, (c) brute force
    if ok_frames:
        for r in range(R):
            got = {l: float(frames[r][l].iloc[0]) for l in spec['labels']}
            check_library_kkt(cx, spec, model, tag, 'model', rows[r], eps[r][0], got, K.goods_of(spec, r, spec['eps'][r][0]))
        brute = case['mode'] == 'directed' or case.get('i', 0) % BRUTE_EVERY[case.get('tier', 'quick')] == 0
        if brute and B <= 1e4:
            for r in range(R):
                d = rnd.randrange(D)
                got = {l: float(frames[r][l].iloc[d]) for l in spec['labels']}
                check_bruteforce(cx, spec, model, tag, 'model', rows[r], r, d, eps[r][d], got)

    # ---- (f) relabelling relabels the forecasts and nothing else
    if model_b is not None:
        frames_b, entries_b, eps_b = run_forecast(cxb, spec_b, model_b, db_b, tag_b, 'relabelled model', tol)
        judged += absorb_log(cxb, spec_b, entries_b, tag_b, 'relabelled model', count=False, model=model_b)
        rtag = tag or tag_b
        if (frames is None) != (frames_b is None):
            cx.viol('relabelling-changes-whether-forecast-succeeds',
                    f'forecast {"raised" if frames is None else "succeeded"} with labels {spec["labels"]} (outside {spec["outside"]}) and '
                    f'{"raised" if frames_b is None else "succeeded"} with labels {spec_b["labels"]} (outside {spec_b["outside"]})', rtag,
                    sigma={str(k): v for k, v in sigma.items()})
        elif frames is not None and ok_frames:
            rec.ev()
            rec.c('relabel_compared')
            try:
                worst = 0.0
                for r in range(R):
                    for l in spec['labels']:
                        a = frames[r][l].to_numpy(dtype=float)
                        b = frames_b[r][sigma[l]].to_numpy(dtype=float)
                        worst = max(worst, float(np.max(np.abs(a - b))) if len(a) == len(b) else math.inf)
                allow = RELABEL_RTOL * B
                for e in entries + entries_b:
                    if 'meas' in e:
                        allow = max(allow, 4 * e['meas'].get('budget_relerr', 0.0) * B)
                if not worst <= allow:
                    cx.viol('relabelling-changes-forecast', f'forecasts differ by {worst:.3g} (budget {B}) between labels {spec["labels"]} and {spec_b["labels"]}',
                            rtag, sigma={str(k): v for k, v in sigma.items()})
            except KeyError as e:
                cx.viol('relabelling-forecast-columns-missing', f'{e}', rtag)

    if judged and pieces_made:
        rec.key(stable_hash(spec))
    if case.get('i', 1) % 97 == 0 or case['mode'] == 'directed' and case['k'] == 0:
        small = {k: spec[k] for k in ('variant', 'labels', 'outside', 'alpha', 'gamma', 'price', 'scale', 'budget', 'V')}
        small['eps_first_draw'] = spec['eps'][0][0]
        if frames is not None:
            small['forecast_first_draw'] = {str(l): float(frames[0][l].iloc[0]) for l in spec['labels']}
        rec.sample(small)
    return rec.out()


def finalize(cov, tier):
    from ..gen import c18_models as g

    out = []
    for v in g.VARIANTS:
        for o in ('_outside', '_no_outside'):
            if cov.get('forecasts_judged_' + v + o, 0) == 0:
                out.append(f'no forecast judged for variant {v}{o}')
    for k in ('solution_corner', 'solution_interior', 'bruteforce_compared', 'relabel_compared', 'validation_runs',
              'pieces_symbolic_compared', 'pieces_inverse_compared', 'pieces_derivative_at_zero_compared', 'library_kkt_checked',
              'forecast_frames_checked', 'maps_position_order_differs_from_sorted_labels', 'maps_label_differs_from_position',
              'forecasts_budget_judged_at_1e-6', 'direct_bisection_calls', 'prices_yes', 'scale_yes'):
        if cov.get(k, 0) == 0:
            out.append(f'monitor / situation never observed: {k}')
    for v in g.VARIANTS:
        for o in ('_outside', '_no_outside'):
            if cov.get('history_variant_' + v + o, 0) == 0:
                out.append(f'no history (one model object, several data sets) run for variant {v}{o}')
    for k in ('history_steps_after_first', 'history_compared_with_fresh_model', 'history_estimation_results_attached',
              'history_same_row_objects_after_estimation_steps'):
        if cov.get(k, 0) == 0:
            out.append(f'monitor / situation never observed: {k}')
    for st in g.INDEX_STYLES:
        if cov.get('index_style_' + st, 0) == 0:
            out.append(f'frame index style never run: {st}')
    for k in ('row_split_checked', 'forecast_entries_compared_with_per_draw_call', 'validate_forecast_runs', 'index_labels_differ_from_positions'):
        if cov.get(k, 0) == 0:
            out.append(f'monitor / situation never observed: {k}')
    for lab in g.LABELINGS:
        if cov.get('labeling_' + lab, 0) == 0:
            out.append(f'labelling scheme never run: {lab}')
    return out
