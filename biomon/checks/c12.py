"""C12 — invalid specifications are refused with a clear error, wherever the fault sits.

Fault enumeration: for each generated valid formula, plant one fault of each
kind at sampled positions (every operator kind x child slot is reached over a
run, matrix in the evidence) and push it through the public entry points. Each
(fault, entry point) runs in its own forked child (sticky engine error flag).
Monitors: exception type/module/message, engine proxy (was a calculation
completed before the rejection?), the un-faulted formula through the same
entry points (a valid specification is never rejected).
Missing-data code: planted in unreferenced columns, in referenced-but-unread
positions (engine laziness rules reproduced by a read-tracking reference
evaluation) and in read positions.
"""
from __future__ import annotations

import copy
import json
import os
import random

import numpy as np

from ..rec import Rec

LEVEL = 'fault_enumeration'
RULE = (
    'cases = (valid generated formula, fault kind, position) triples: fault kinds unknown-column, name used for two '
    'kinds of element (Beta vs column, free vs fixed), draws outside MonteCarlo, random variable outside Integrate, '
    'logit choice not among utilities, availability keys != utility keys, planted in operand slots of every operator '
    'kind (unary, binary, comparison, logical, BelongsTo child, bioMultSum term, Elem key/entry, ConditionalSum '
    'condition/term, LogLogit utility/availability/choice); plus nest-definition, data-audit, derivative-flag and '
    'variable-outside-trajectory faults, and the missing-data code planted in unreferenced / unread / read positions; '
    'entry points get_value_c, BIOGEME(...)+calculate_likelihood, simulate; every faulted case is paired with its '
    'un-faulted twin. non-trivial = the twin is inside the regular domain; distinct = hash of (formula, fault, position, entry)'
)
ASSUMPTIONS = [
    'laziness rules used to decide whether a planted missing value is read were taken from the engine source '
    '(Elem: selected entry only; ConditionalSum: terms with non-zero condition; LogLogit: available alternatives; '
    'And/Or right operand: ambiguous -> not judged)',
    'for missing data the statement only says "fails with an error": the engine RuntimeError is accepted there',
]
MIN_DISTINCT = {'quick': 800, 'thorough': 12000}
CASE_TIMEOUT = 300
N_PLANT = {'quick': 150, 'thorough': 3000}
PLANTS_PER_CASE = {'quick': 7, 'thorough': 10}

FAULTS = ['unknown_column', 'beta_named_as_column', 'free_and_fixed_same_name', 'draws_outside_mc', 'rv_outside_integrate',
          'logit_choice_not_in_utilities', 'logit_av_keys_differ']


def cases(seed, tier):
    out = [{'seed': seed, 'i': i, 'kind': 'plant', 'tier': tier} for i in range(N_PLANT[tier])]
    nm = 60 if tier == 'quick' else 1500
    out += [{'seed': seed, 'i': i, 'kind': 'missing', 'tier': tier} for i in range(nm)]
    nd = 300 if tier == 'quick' else 1850
    out += [{'seed': seed, 'i': i, 'kind': 'directed', 'tier': tier} for i in range(nd)]
    return out


def warmup():
    import biogeme.biogeme  # noqa
    import biogeme.expressions  # noqa
    import biogeme.database  # noqa
    import biogeme.models  # noqa
    import biogeme.nests  # noqa
    from ..monitors import engine_proxy

    engine_proxy.install()


# ---------------------------------------------------------------------------------------------
# tree surgery


def inline(node, shared):
    if isinstance(node, list):
        if node and node[0] == 'share':
            return inline(shared[node[1]], shared)
        return [inline(x, shared) for x in node]
    return node


def slots(ast):
    """[(path, parent_op, slot_label)] for every operand slot"""
    out = []

    def walk(n, path):
        if not isinstance(n, list) or not n or not isinstance(n[0], str):
            return
        op = n[0]
        if op in ('num', 'bool', 'beta', 'var', 'draws', 'rv', 'linutil'):
            return
        if op in ('neg', 'exp', 'log', 'logzero', 'sin', 'cos', 'ncdf', 'powc', 'belongs', 'mc', 'panel', 'integrate', 'derive'):
            out.append((path + [1], op, 'child'))
            walk(n[1], path + [1])
        elif op in ('add', 'sub', 'mul', 'div', 'pow', 'min', 'max', 'and', 'or', 'eq', 'ne', 'le', 'ge', 'lt', 'gt'):
            for k in (1, 2):
                out.append((path + [k], op, 'left' if k == 1 else 'right'))
                walk(n[k], path + [k])
        elif op == 'multsum':
            for i, a in enumerate(n[1]):
                out.append((path + [1, i], op, 'term'))
                walk(a, path + [1, i])
        elif op == 'elem':
            out.append((path + [1], op, 'key'))
            walk(n[1], path + [1])
            for i, (k, a) in enumerate(n[2]):
                out.append((path + [2, i, 1], op, 'entry'))
                walk(a, path + [2, i, 1])
        elif op == 'condsum':
            for i, (c, t) in enumerate(n[1]):
                out.append((path + [1, i, 0], op, 'condition'))
                walk(c, path + [1, i, 0])
                out.append((path + [1, i, 1], op, 'term'))
                walk(t, path + [1, i, 1])
        elif op == 'loglogit':
            for i, (k, a) in enumerate(n[1]):
                out.append((path + [1, i, 1], op, 'utility'))
                walk(a, path + [1, i, 1])
            if n[2] is not None:
                for i, (k, a) in enumerate(n[2]):
                    out.append((path + [2, i, 1], op, 'availability'))
                    walk(a, path + [2, i, 1])
            out.append((path + [3], op, 'choice'))
            walk(n[3], path + [3])

    out.append(([], 'root', 'root'))
    walk(ast, [])
    return out


def get_at(ast, path):
    n = ast
    for p in path:
        n = n[p]
    return n


def set_at(ast, path, new):
    ast = copy.deepcopy(ast)
    if not path:
        return new
    n = ast
    for p in path[:-1]:
        n = n[p]
    n[path[-1]] = new
    return ast


# ---------------------------------------------------------------------------------------------
# one monitored execution in its own process


def _attempt(payload):
    """child side: build the spec, run one entry point, report what happened"""
    from ..gen import build
    from ..monitors import engine_proxy as ep
    import biogeme.exceptions as bexc

    spec, entry = payload['spec'], payload['entry']
    out = {'outcome': None}
    ep.reset()
    try:
        expr, _ = build.build(spec)
        import pandas as pd
        import biogeme.database as dbm

        frame = pd.DataFrame({k: list(v) for k, v in spec['data'].items()})
        db = dbm.Database('c12', frame)
        if spec.get('panel_column'):
            db.panel(spec['panel_column'])
        if entry == 'get_value_c':
            v = expr.get_value_c(database=db, prepare_ids=True, number_of_draws=4)
            out['value'] = np.asarray(v, float).tolist()
        elif entry == 'get_value_and_derivatives':
            r = expr.get_value_and_derivatives(database=db, prepare_ids=True, number_of_draws=4, aggregation=False,
                                               **payload.get('flags', dict(gradient=False, hessian=False, bhhh=False)))
            out['value'] = np.asarray(r.functions, float).tolist()
        elif entry == 'create_function':
            # ids prepared by create_function, evaluation with prepare_ids=False
            names = sorted(n for n, v in spec['betas'].items() if v[1] == 0)
            f = expr.create_function(database=db, number_of_draws=4, gradient=False, hessian=False, bhhh=False)
            x = [spec['betas'][n][0] for n in expr.id_manager.free_betas.names]
            out['value'] = [float(f(x).function)]
        elif entry == 'prepared_ids':
            from biogeme.expressions import IdManager

            expr.set_id_manager(IdManager([expr], db, 4))
            v = expr.get_value_c(database=db, prepare_ids=False, number_of_draws=4)
            out['value'] = np.asarray(v, float).tolist()
        elif entry == 'rejected_then_valid_on_shared_objects':
            # history: the faulty formula is the valid twin (same objects) plus a faulty term; after the refusal the
            # valid twin itself must still evaluate to the same numbers (the refusal must not leave ids behind)
            twin, _ = build.build(payload['twin_spec'])
            before = np.asarray(twin.get_value_c(database=db, prepare_ids=True), float)
            fault_only = dict(spec)
            fault_only['ast'] = payload['fault_node']
            fexpr, _ = build.build(fault_only)
            whole = twin + fexpr
            refused = None
            try:
                whole.get_value_c(database=db, prepare_ids=True, number_of_draws=4)
            except bexc.BiogemeError as e:
                refused = ('library', str(e)[:300])
            except BaseException as e:
                refused = (type(e).__name__, str(e)[:300])
            out['refused'] = refused
            if refused is not None and refused[0] != 'RuntimeError':
                after = np.asarray(twin.get_value_c(database=db, prepare_ids=True), float)
                has_draws = '"draws"' in json.dumps(payload['twin_spec']['ast'])  # fresh random draws at every evaluation
                out['twin_same_after_refusal'] = True if has_draws else bool(np.array_equal(before, after, equal_nan=True))
                if has_draws:
                    before = after
                after2 = np.asarray(twin.get_value_and_derivatives(database=db, prepare_ids=True, gradient=False, hessian=False,
                                                                   bhhh=False, aggregation=False).functions, float)
                out['twin_same_after_refusal'] = out['twin_same_after_refusal'] and (has_draws or bool(np.array_equal(before, after2, equal_nan=True)))
            out['value'] = before.tolist()
        elif entry == 'BIOGEME_secondary_formula':
            # the faulty formula is not the log likelihood but another entry of the dictionary of formulas
            from biogeme.biogeme import BIOGEME
            from biogeme.parameters import Parameters

            twin, _ = build.build(payload['twin_spec'])
            # ... first, in the middle or last among two or three formulas (the audit must keep the findings of every one)
            import zlib
            import biogeme.expressions as ex_

            layout = zlib.crc32(json.dumps(spec['ast']).encode()) % 4
            forms = [{'other_formula': expr, 'log_like': twin}, {'log_like': twin, 'other_formula': expr},
                     {'log_like': twin, 'other_formula': expr, 'third_formula': ex_.Numeric(1.5)},
                     {'other_formula': expr, 'third_formula': ex_.Numeric(1.5), 'log_like': twin}][layout]
            out['layout'] = list(forms)
            bg = BIOGEME(db, forms, parameters=Parameters())
            out['constructed'] = True
            sim = bg.simulate({n: payload['twin_spec']['betas'].get(n, spec['betas'].get(n, [0.1]))[0] for n in bg.free_beta_names})
            out['value'] = sim['other_formula'].to_numpy(dtype=float).tolist()
        elif entry in ('BIOGEME', 'BIOGEME_threads', 'simulate'):
            from biogeme.biogeme import BIOGEME
            from biogeme.parameters import Parameters

            p = Parameters()
            p.set_value('number_of_draws', 4, 'MonteCarlo')
            if entry == 'BIOGEME_threads':
                p.set_value('number_of_threads', 3, 'MultiThreading')
            else:
                p.set_value('number_of_threads', 1, 'MultiThreading')
            if payload.get('missing_code') is not None:
                p.set_value('missing_data', payload['missing_code'], 'Specification')
            if entry == 'simulate':
                bg = BIOGEME(db, {'f': expr}, parameters=p)
                sim = bg.simulate({n: spec['betas'][n][0] for n in bg.free_beta_names})
                out['value'] = sim['f'].to_numpy(dtype=float).tolist()
            else:
                bg = BIOGEME(db, expr, parameters=p)
                out['constructed'] = True
                x = [spec['betas'][n][0] for n in bg.free_beta_names]
                v = bg.calculate_likelihood(x, scaled=False)
                out['value'] = [float(v)]
                if payload.get('also_derivatives') and len(x) > 0:
                    r = bg.calculate_likelihood_and_derivatives(x, scaled=False, hessian=True, bhhh=True)
                    out['value_d'] = float(r.function)
        out['outcome'] = 'ok'
    except BaseException as e:
        out['outcome'] = 'exc'
        out['type'] = type(e).__name__
        out['module'] = type(e).__module__
        out['biogeme_error'] = isinstance(e, bexc.BiogemeError)
        out['msg'] = str(e)[:1500]
    out['completed_calculations'] = ep.completed_calculations()
    return out


def attempt(spec, entry, **kw):
    from ..worker import run_forked

    payload = {'spec': spec, 'entry': entry}
    payload.update(kw)
    return run_forked(_attempt, payload, 60)


# ---------------------------------------------------------------------------------------------


def _fault_node(kind, spec, rr):
    """returns (replacement node, names that the message must mention, extra betas)"""
    data_cols = list(spec['data'])
    if kind == 'unknown_column':
        nm = rr.choice(['zz_unknown', 'Price_missing', 'x9'])
        return ['var', nm], [nm], {}
    if kind == 'beta_named_as_column':
        nm = rr.choice(data_cols)
        return ['beta', nm], [nm], {nm: [0.37, rr.choice([0, 1])]}
    if kind == 'free_and_fixed_same_name':
        used = sorted(_betas_in(spec['ast']))
        if used:
            nm = rr.choice(used)
            # a second Beta object with the same name but the other status
            return ['beta2', nm], [nm], {}
        nm = 'dup_q'
        return ['add', ['beta', nm], ['beta2', nm]], [nm], {nm: [0.3, 0]}
    if kind == 'draws_outside_mc':
        nm = rr.choice(['d_out', 'xi'])
        return ['draws', nm, rr.choice(['NORMAL', 'UNIFORM'])], [nm], {}
    if kind == 'rv_outside_integrate':
        nm = rr.choice(['omega_out', 'rv1'])
        return ['rv', nm], [nm], {}
    # logit faults need a key column
    keycols = [c for c in data_cols if all(float(v).is_integer() for v in spec['data'][c]) and len(set(spec['data'][c])) >= 1]
    kc = rr.choice(keycols)
    vals = sorted(set(int(v) for v in spec['data'][kc]))
    if kind == 'logit_choice_not_in_utilities' and rr.random() < 0.5:
        # the choice column is valid on every row but ONE (first, last or a middle row); with and without availabilities
        n_ = len(next(iter(spec['data'].values())))
        alts = [1, 2, 4]
        bad_row = rr.choice([0, 0, n_ - 1, rr.randrange(n_)])
        bad_value = rr.choice([3.0, 7.0, -1.0, 1.5])
        col = [float(rr.choice(alts)) for _ in range(n_)]
        col[bad_row] = bad_value
        spec['data']['ch_one_bad_row'] = col
        av = None if rr.random() < 0.6 else [[a, ['num', 1.0]] for a in alts]
        return (['loglogit', [[a, ['num', 0.1 * (i + 1)]] for i, a in enumerate(alts)], av, ['var', 'ch_one_bad_row'], 'log'],
                [str(int(bad_value)) if float(bad_value).is_integer() else str(bad_value)], {})
    if kind == 'logit_choice_not_in_utilities':
        # drop one observed value from the alternatives
        missing_alt = rr.choice(vals)
        alts = [v for v in vals if v != missing_alt] + [max(vals) + 5]
        if len(alts) < 1:
            alts = [max(vals) + 5]
        return ['loglogit', [[a, ['num', 0.1 * (i + 1)]] for i, a in enumerate(alts)], None, ['var', kc], 'log'], [str(missing_alt)], {}
    if kind == 'logit_av_keys_differ':
        alts = vals + [max(vals) + 3]
        extra = max(vals) + 7
        av = [[a, ['num', 1.0]] for a in alts[:-1]] + [[extra, ['num', 1.0]]]
        return ['loglogit', [[a, ['num', 0.1 * (i + 1)]] for i, a in enumerate(alts)], av, ['var', kc], 'log'], [str(extra)], {}
    raise ValueError(kind)


def _betas_in(node, acc=None):
    acc = set() if acc is None else acc
    if isinstance(node, list) and node:
        if node[0] == 'beta':
            acc.add(node[1])
        elif node[0] == 'linutil':
            for b, _ in node[1]:
                acc.add(b)
        else:
            for x in node:
                _betas_in(x, acc)
    return acc


def _build_with_beta2(spec):
    """gen.build does not know 'beta2' (same name, opposite status): rewrite into a distinct-name beta and
    patch the name after building is not possible -> handled by build through spec['betas_alt']"""
    return spec


def run_case(case):
    rec = Rec(case)
    if case['kind'] == 'plant':
        _plant_case(case, rec)
    elif case['kind'] == 'missing':
        _missing_case(case, rec)
    else:
        _directed_case(case, rec)
    return rec.out()


def _judge_outcome(rec, res, kind, entry, names, witness, parent, slot):
    """classify the outcome of a faulted execution"""
    base = f'C12/{kind}-{entry}'
    rec.ev()
    rec.c(f'fault_{kind}')
    rec.c(f'pos_{parent}.{slot}')
    rec.c(f'entry_{entry}')
    rec.c(f'matrix_{kind}|{parent}.{slot}|{entry}')
    if res.get('timeout') or 'crash_signal' in res or 'harness_error' in res:
        if 'crash_signal' in res:
            rec.violation(base + '-native-crash', f'process died with signal {res["crash_signal"]}', witness)
        else:
            rec.inconc(f'faulted execution gave no result: {str(res)[:200]}')
        return
    if res['outcome'] == 'ok':
        rec.violation(base + '-not-rejected', f'faulty specification accepted; value={res.get("value")}', witness)
        return
    if not res.get('biogeme_error'):
        rec.violation(base + f'-raises-{res["type"]}',
                      f'rejected with {res["module"]}.{res["type"]} instead of the library error type: {res["msg"][:300]}', witness)
        return
    # "before any number is produced": the entry point raised, so no number reached the caller. The library's own
    # audit evaluates choice / availability sub-formulas through the engine; those internal evaluations are counted
    # for information only.
    if res.get('completed_calculations', 0) > 0:
        rec.c('rejections_after_internal_audit_evaluations')
    if names and not any(n in res['msg'] for n in names):
        rec.violation(base + '-message-does-not-name-element', f'message {res["msg"][:300]!r} does not mention {names}', witness)
    rec.c('rejected_properly')


def _plant_case(case, rec):
    from ..gen import exprs
    from ..oracle import evalast

    rr = random.Random(f'c12/{case["seed"]}/{case["i"]}')
    spec = None
    for t in range(8):
        cand = exprs.make_case(case['seed'] + 500, case['i'] * 8 + t, max_depth=rr.randint(2, 4), nrows=rr.randint(2, 5))
        bv = {k: v[0] for k, v in cand['betas'].items()}
        j = evalast.judge(cand['ast'], cand['data'], bv, cand['shared'])
        if j['ok'] and exprs.ast_size(cand['ast'], cand['shared']) >= 3:
            spec = cand
            break
    if spec is None:
        rec.c('no_valid_base_formula')
        return
    base = dict(spec)
    base['ast'] = inline(spec['ast'], spec['shared'])
    base['shared'] = []
    base['one_beta_object'] = False
    ref = j['value']
    # the valid formula may sit inside a Monte-Carlo integral, a numerical integral or a derivative operator, so that
    # faults are also planted below those operators
    wrap = rr.random()
    wrapped = 'none'
    if wrap < 0.12:
        base['ast'] = ['mc', ['add', base['ast'], ['mul', ['num', 0.1], ['draws', 'xi_inside', 'NORMAL']]]]
        wrapped = 'mc'
    elif wrap < 0.22:
        base['ast'] = ['integrate', ['mul', ['sin', base['ast']], ['exp', ['neg', ['mul', ['rv', 'omega_inside'], ['rv', 'omega_inside']]]]],
                       'omega_inside']
        wrapped = 'integrate'
    elif wrap < 0.30:
        free_used = sorted(b for b in _betas_in(base['ast']) if base['betas'][b][1] == 0)
        if free_used and not (exprs.ops_in(base['ast'], []) & {'belongs', 'and', 'or', 'eq', 'ne', 'le', 'ge', 'lt', 'gt', 'min', 'max'}):
            base['ast'] = ['derive', base['ast'], rr.choice(free_used)]
            wrapped = 'derive'
    rec.c('wrapped_' + wrapped)
    # ---- the valid twin must be accepted on every entry point -----------------------------
    has_elementary = bool(_betas_in(base['ast'])) or '"var"' in json.dumps(base['ast'])
    for entry in ('get_value_c', 'BIOGEME', 'simulate', 'create_function', 'prepared_ids'):
        if entry == 'create_function' and not has_elementary:
            continue  # a constant formula has no ids to prepare: create_function is not meant for it
        res = attempt(base, entry)
        rec.ev()
        rec.c('valid_twin_runs')
        if res.get('outcome') != 'ok' and wrapped != 'none' and not res.get('biogeme_error'):
            rec.c('wrapped_twin_numerical_failure_not_judged')  # e.g. the engine cannot integrate / differentiate it
            if entry == 'get_value_c':
                return
        elif res.get('outcome') != 'ok':
            rec.violation(f'C12/valid-specification-rejected-{entry}',
                          f'valid formula rejected: {res.get("type")}: {str(res.get("msg"))[:300]} {str(res)[:200] if "outcome" not in res else ""}',
                          {'spec': base})
    sl = slots(base['ast'])
    n_plants = PLANTS_PER_CASE[case.get('tier', 'quick')]
    picks = []
    kinds = FAULTS[:]
    rr.shuffle(kinds)
    for k in range(n_plants):
        picks.append((kinds[k % len(kinds)], rr.choice(sl)))
    for kind, (path, parent, slot) in picks:
        if (kind == 'draws_outside_mc' and wrapped == 'mc') or (kind == 'rv_outside_integrate' and wrapped == 'integrate'):
            continue
        fbase = dict(base)
        fbase['data'] = {k_: list(v_) for k_, v_ in base['data'].items()}
        node, names, extra_betas = _fault_node(kind, fbase, rr)
        fs = dict(fbase)
        fs['betas'] = dict(base['betas'])
        fs['betas'].update(extra_betas)
        def _dup(nd):
            # same name, other status: needs a second Beta object -> special leaf materialised below
            if isinstance(nd, list):
                if nd and nd[0] == 'beta2':
                    return ['beta_dup', nd[1], 1 - fs['betas'][nd[1]][1]]
                return [_dup(x) for x in nd]
            return nd

        node = _dup(node)
        orig = get_at(base['ast'], path) if path else base['ast']
        # keep the slot's value type plausible: wrap instead of replace for real slots
        mode = rr.random()
        if kind == 'free_and_fixed_same_name' and slot not in ('key', 'choice'):
            new = ['add', orig, node]
        elif slot in ('key', 'choice') or kind.startswith('logit') and mode < 0.5 or not path:
            new = node if slot not in ('key', 'choice') or not kind.startswith('logit') else ['gt', node, ['num', -1e9]]
            if slot in ('key', 'choice') and node[0] in ('beta', 'beta_dup', 'draws', 'rv', 'add'):
                new = ['mul', orig, ['add', ['num', 1.0], ['mul', ['num', 0.0], node]]]
        elif mode < 0.5 or kind == 'free_and_fixed_same_name':
            new = ['add', orig, node]
        else:
            new = ['mul', node, orig] if mode < 0.75 else node
        fs['ast'] = set_at(base['ast'], path, new)
        fs = _materialise_dup(fs)
        witness = {'fault': kind, 'parent': parent, 'slot': slot, 'spec': fs}
        entries = ['get_value_c', 'BIOGEME']
        extra_entry = rr.random()
        if extra_entry < 0.3:
            entries.append('simulate')
        elif extra_entry < 0.55:
            entries.append('create_function')
        elif extra_entry < 0.8:
            entries.append('prepared_ids')
        if rr.random() < 0.5 and kind not in ('beta_named_as_column', 'free_and_fixed_same_name'):
            entries.append('BIOGEME_secondary_formula')
        if rr.random() < 0.3 and kind in ('unknown_column', 'draws_outside_mc', 'rv_outside_integrate',
                                           'logit_choice_not_in_utilities', 'logit_av_keys_differ'):
            res = attempt(fs, 'rejected_then_valid_on_shared_objects', twin_spec=base, fault_node=node)
            rec.ev()
            rec.c('rejected_then_valid_runs')
            if res.get('outcome') == 'ok':
                if res.get('refused') is None:
                    rec.violation(f'C12/{kind}-added-to-valid-formula-not-rejected', 'valid formula + faulty term accepted', witness)
                elif res.get('twin_same_after_refusal') is False:
                    rec.violation('C12/valid-formula-changes-after-a-refused-evaluation-sharing-its-objects',
                                  f'after the refusal ({res["refused"]}) the valid twin evaluates differently', witness)
            elif res.get('outcome') == 'exc':
                rec.violation('C12/valid-formula-rejected-after-a-refused-evaluation-sharing-its-objects',
                              f'{res.get("type")}: {res.get("msg", "")[:300]}', witness)
        for entry in entries:
            res = attempt(fs, entry, twin_spec=base) if entry == 'BIOGEME_secondary_formula' else attempt(fs, entry)
            rec.key([fs['ast'], kind, path, entry])
            _judge_outcome(rec, res, kind, entry, names, witness, parent, slot)
    rec.sample({'base_formula': base['ast'], 'planted': [[k, p[1], p[2]] for k, p in picks]})


def _materialise_dup(spec):
    """'beta_dup' leaves: a Beta with an existing name but the opposite status. gen.build creates one
    Beta object per leaf from spec['betas'][name]; we give the duplicate its own table entry keyed by a
    private marker and rename after the fact through spec['rename_after_build']."""
    found = []

    def walk(n):
        if isinstance(n, list):
            if n and n[0] == 'beta_dup':
                found.append(n)
                return ['beta', '\x00dup:' + n[1]]
            return [walk(x) for x in n]
        return n

    ast = walk(spec['ast'])
    if not found:
        return spec
    spec = dict(spec)
    spec['ast'] = ast
    spec['betas'] = dict(spec['betas'])
    for n in found:
        spec['betas']['\x00dup:' + n[1]] = [0.41, n[2]]
    spec['dup_names'] = {('\x00dup:' + n[1]): n[1] for n in found}
    return spec


# gen.build must give the duplicate the *same* name: patch Beta construction through a tiny wrapper
def _patch_build():
    from ..gen import build as B

    if getattr(B, '_c12_patched', False):
        return
    orig = B.build

    def build(spec, tree_copy=False):
        dn = spec.get('dup_names')
        if not dn:
            return orig(spec, tree_copy)
        import biogeme.expressions as ex

        real_beta = ex.Beta

        def beta(name, *a, **k):
            return real_beta(dn.get(name, name), *a, **k)

        ex.Beta = beta
        try:
            return orig(spec, tree_copy)
        finally:
            ex.Beta = real_beta

    B.build = build
    B._c12_patched = True


_patch_build()


# ---------------------------------------------------------------------------------------------
# missing data


def _read_status(ast, path, data_clean, betas, row):
    """'read' | 'unread' | 'ambiguous' for the sub-tree at path on the given row, following the
    engine's laziness rules; conditions / keys are evaluated by the reference evaluator on clean data."""
    from ..oracle import evalast

    def val(node):
        v, _ = evalast.evaluate(node, data_clean, betas, [])
        return float(v[row])

    n = ast
    unread = False
    for depth, p in enumerate(path):
        op = n[0] if isinstance(n, list) and n and isinstance(n[0], str) else None
        rest = path[depth:]
        if unread and op == 'loglogit' and rest[0] in (2, 3):
            # the formula does not read this branch on this row, but LogLogit.audit evaluates the choice and
            # every availability condition of every logit node on all rows before anything is computed
            return 'unread-but-audited'
        if op in ('and', 'or') and rest[0] == 2:
            if not unread:
                return 'ambiguous'
        if op == 'elem' and rest[0] == 2:
            i = rest[1]
            try:
                k = int(round(val(n[1])))
            except Exception:
                return 'ambiguous'
            if int(n[2][i][0]) != k:
                unread = True
        if op == 'condsum' and rest[0] == 1 and rest[2] == 1:
            i = rest[1]
            try:
                c = val(n[1][i][0])
            except Exception:
                return 'ambiguous'
            if c == 0:
                unread = True
        if op == 'loglogit' and rest[0] == 1 and n[2] is not None:
            i = rest[1]
            try:
                # availability looked up by alternative id: the two dictionaries need not be in the same order
                av_by_alt = {int(k_): a_ for k_, a_ in n[2]}
                a = val(av_by_alt[int(n[1][i][0])])
            except Exception:
                return 'ambiguous'
            if a == 0:
                unread = True
        n = n[p]
    return 'unread' if unread else 'read'


def _missing_case(case, rec):
    from ..gen import exprs
    from ..oracle import evalast

    rr = random.Random(f'c12m/{case["seed"]}/{case["i"]}')
    spec = None
    for t in range(10):
        diffable = case['i'] % 2 == 0
        cand = exprs.make_case(case['seed'] + 900, case['i'] * 10 + t, max_depth=rr.randint(2, 5), nrows=rr.randint(2, 6),
                               differentiable=diffable)
        if diffable and 'belongs' in exprs.ops_in(cand['ast'], cand['shared']):
            continue
        bv = {k: v[0] for k, v in cand['betas'].items()}
        j = evalast.judge(cand['ast'], cand['data'], bv, cand['shared'])
        if j['ok']:
            spec = cand
            break
    if spec is None:
        rec.c('no_valid_base_formula')
        return
    code = rr.choice([99999, 99999, -1234.5, 777])
    base = dict(spec)
    base['ast'] = inline(spec['ast'], spec['shared'])
    base['shared'] = []
    nrows = len(j['value'])
    row = rr.randrange(nrows)
    mode = case['i'] % 3
    audited = False
    # a fresh column carrying the code on one row
    col = 'm_col'
    data = {k: list(v) for k, v in base['data'].items()}
    data[col] = [round(rr.uniform(0.5, 2.0), 3) for _ in range(nrows)]
    clean = {k: list(v) for k, v in data.items()}
    data[col][row] = float(code)
    fs = dict(base)
    fs['data'] = data
    if mode == 0:
        # (i) the column is never referenced
        expect = 'harmless'
        where = 'unreferenced-column'
        path, parent, slot = [], 'none', 'none'
    else:
        sl = [s for s in slots(base['ast']) if s[2] not in ('key', 'choice', 'condition', 'availability')]
        # prefer lazy parents so that unread positions are exercised
        lazy = [s for s in sl if s[1] in ('elem', 'condsum', 'loglogit') and s[2] in ('entry', 'term', 'utility')]
        path, parent, slot = rr.choice(lazy) if (lazy and rr.random() < 0.7) else rr.choice(sl)
        orig = get_at(base['ast'], path) if path else base['ast']
        new = ['add', orig, ['mul', ['num', 0.0], ['var', col]]] if rr.random() < 0.5 else ['add', orig, ['sub', ['var', col], ['var', col]]]
        fs['ast'] = set_at(base['ast'], path, new)
        bvv = {k: v[0] for k, v in base['betas'].items()}
        try:
            st = _read_status(fs['ast'], path, clean, bvv, row)
        except Exception:
            st = 'ambiguous'
        if st == 'ambiguous':
            rec.c('missing_ambiguous_not_judged')
            return
        audited = st == 'unread-but-audited'
        expect = 'error' if st == 'read' else 'harmless'
        where = f'{"read" if st == "read" else "unread"}-under-{parent}.{slot}'
        # the value on other rows must stay regular
        jj = evalast.judge(fs['ast'], clean, bvv, [])
        if not jj['ok']:
            rec.c('missing_base_left_domain')
            return
    witness = {'code': code, 'row': row, 'where': where, 'spec': fs}
    for entry in ('get_value_c', 'BIOGEME', 'BIOGEME_threads', 'simulate'):
        kw = {'missing_code': code}
        if entry == 'get_value_c':
            if code != 99999:
                continue  # the custom code is declared through the BIOGEME parameters only
            kw = {}
        res = attempt(fs, entry, also_derivatives=(entry != 'simulate' and diffable), **kw)
        rec.ev()
        rec.key([fs['ast'], 'missing', where, row, code, entry])
        rec.c(f'missing_{expect}_{entry}')
        rec.c(f'missing_where_{where.split("-under-")[0]}')
        if 'outcome' not in res:
            if 'crash_signal' in res:
                rec.violation(f'C12/missing-data-{entry}-native-crash', str(res), witness)
            else:
                rec.inconc(f'missing-data execution gave no result: {str(res)[:200]}')
            continue
        if expect == 'error':
            if res['outcome'] == 'ok':
                vals = res.get('value')
                shown = 'NaN for that row' if (vals and len(vals) > row and vals[row] != vals[row]) else f'value {vals}'
                rec.violation(f'C12/missing-data-read-no-error-{entry}',
                              f'row {row} reads the missing-data code {code} ({where}) and no error is raised: {shown}', witness)
            else:
                rec.c('missing_read_error_raised')
        else:
            if res['outcome'] != 'ok' and audited:
                rec.violation('C12/missing-data-in-unread-branch-read-by-logit-audit',
                              f'code {code} sits inside a choice / availability condition of a logit that the formula does not '
                              f'evaluate on row {row} (enclosing Elem / ConditionalSum / unavailable alternative), but the audit of '
                              f'LogLogit evaluates it on all rows: {res["type"]}: {res["msg"][:200]}', witness)
            elif res['outcome'] != 'ok':
                rec.violation(f'C12/missing-data-unread-raises-{entry}',
                              f'code {code} sits in a position not read on row {row} ({where}) but {res["type"]}: {res["msg"][:200]}', witness)
            else:
                rec.c('missing_unread_harmless')
    rec.sample({'formula': fs['ast'], 'code': code, 'row': row, 'where': where, 'expect': expect})


# ---------------------------------------------------------------------------------------------
# directed faults: nests, data audit, derivative flags, panel, linear utility + missing data


def _directed_child(payload):
    import pandas as pd
    import biogeme.database as dbm
    import biogeme.expressions as ex
    import biogeme.exceptions as bexc
    from biogeme import models
    from biogeme.nests import (NestsForNestedLogit, NestsForCrossNestedLogit, OneNestForNestedLogit,
                               OneNestForCrossNestedLogit)
    from ..monitors import engine_proxy as ep

    k = payload['what']
    rr = random.Random(payload['rs'])
    out = {'outcome': None}
    ep.reset()
    try:
        n = rr.randint(3, 6)
        alts = rr.sample([1, 2, 3, 5, 8, 13, 21], rr.randint(3, 5))
        df = pd.DataFrame({'x': [rr.uniform(-1, 1) for _ in range(n)], 'y': [rr.uniform(0.5, 2) for _ in range(n)],
                           'ch': [float(rr.choice(alts)) for _ in range(n)], 'id': sorted(rr.choice([1, 2, 3]) for _ in range(n))})
        b = ex.Beta('b_dir', 0.2, None, None, 0)
        V = {a: (b * ex.Variable('x') * (i + 1) if i % 2 == 0 else ex.Variable('y') * 0.1 * i) for i, a in enumerate(alts)}
        if k.startswith('nl_') or k.startswith('cnl_'):
            db = dbm.Database('d', df)
            half = len(alts) // 2
            A, B = alts[:half], alts[half:]
            outside = max(alts) + 4
            if k == 'nl_ok':
                nests = NestsForNestedLogit(choice_set=alts, tuple_of_nests=(OneNestForNestedLogit(1.4, A, 'A'), OneNestForNestedLogit(1.1, B[:-1] or B, 'B')))
            elif k == 'nl_overlap':
                nests = NestsForNestedLogit(choice_set=alts, tuple_of_nests=(OneNestForNestedLogit(1.4, A + [B[0]], 'A'), OneNestForNestedLogit(1.1, B, 'B')))
                out['names'] = [str(B[0])]
            elif k == 'nl_overlap_nonadjacent':
                # three or four nests; the alternative listed twice sits in two nests that are NOT neighbours in the tuple
                pool = list(alts)
                while len(pool) < 6:
                    pool.append(max(pool) + 3)
                V.update({a: ex.Variable('y') * 0.05 * a for a in pool if a not in V})
                alts = pool
                n_nests = rr.choice([3, 4])
                groups = [[pool[i]] for i in range(n_nests)]
                for a in pool[n_nests:]:
                    rr.choice(groups).append(a)
                i_, j_ = rr.choice([(0, 2), (0, n_nests - 1), (1, n_nests - 1)] if n_nests > 3 else [(0, 2)])
                groups[j_].append(groups[i_][0])
                order = list(range(n_nests))
                if rr.random() < 0.5:
                    order = [i_] + [q for q in order if q not in (i_, j_)] + [j_]
                nests = NestsForNestedLogit(choice_set=alts, tuple_of_nests=tuple(
                    OneNestForNestedLogit(1.2 + 0.1 * q, groups[q], f'N{q}') for q in order))
                out['names'] = [str(groups[i_][0])]
            elif k == 'nl_outside':
                nests = NestsForNestedLogit(choice_set=alts, tuple_of_nests=(OneNestForNestedLogit(1.4, A + [outside], 'A'),))
                out['names'] = [str(outside)]
            elif k == 'cnl_ok':
                nests = NestsForCrossNestedLogit(choice_set=alts, tuple_of_nests=(
                    OneNestForCrossNestedLogit(1.3, {a: 0.5 for a in alts}, 'A'), OneNestForCrossNestedLogit(1.2, {a: 0.5 for a in alts}, 'B')))
            elif k == 'cnl_outside':
                d1 = {a: 0.5 for a in alts}
                d1[outside] = 1.0
                nests = NestsForCrossNestedLogit(choice_set=alts, tuple_of_nests=(
                    OneNestForCrossNestedLogit(1.3, d1, 'A'), OneNestForCrossNestedLogit(1.2, {a: 0.5 for a in alts}, 'B')))
                out['names'] = [str(outside)]
            if k.startswith('nl_'):
                e = models.lognested(V, None, nests, ex.Variable('ch'))
            else:
                e = models.logcnl(V, None, nests, ex.Variable('ch'))
            v = e.get_value_c(database=db, prepare_ids=True)
            out['value'] = np.asarray(v, float).tolist()
        elif k.startswith('data_'):
            if k == 'data_ok':
                db = dbm.Database('d', df)
            elif k == 'data_nonnumeric':
                col = rr.choice(['x', 'y', 'label'])
                df[col] = [rr.choice(['a', 'b', 'car']) for _ in range(n)]
                out['names'] = [col]
                db = dbm.Database('d', df)
            elif k == 'data_nan':
                col = rr.choice(['x', 'y', 'ch'])
                df.loc[rr.randrange(n), col] = float('nan')
                out['names'] = ['NaN', 'nan']
                db = dbm.Database('d', df)
            elif k == 'data_empty':
                db = dbm.Database('d', df.iloc[0:0] if rr.random() < 0.5 else pd.DataFrame())
                out['names'] = ['no entry', 'empty']
            v = (b * ex.Variable('x')).get_value_c(database=db, prepare_ids=True)
            out['value'] = np.asarray(v, float).tolist()
        elif k.startswith('flags_'):
            db = dbm.Database('d', df)
            e = ex.exp(b * ex.Variable('x')) + ex.Variable('y')
            flags = {'flags_ok': (True, True, True), 'flags_hessian_without_gradient': (False, True, False),
                     'flags_bhhh_without_gradient': (False, False, True)}[k]
            out['names'] = ['gradient']
            if rr.random() < 0.5:
                r = e.get_value_and_derivatives(database=db, prepare_ids=True, gradient=flags[0], hessian=flags[1], bhhh=flags[2])
            else:
                f = e.create_function(database=db, gradient=flags[0], hessian=flags[1], bhhh=flags[2])
                r = f([0.2])
            out['value'] = [float(r.function)]
        elif k.startswith('panel_'):
            db = dbm.Database('d', df)
            db.panel('id')
            from biogeme.biogeme import BIOGEME
            from biogeme.parameters import Parameters

            inner = ex.exp(b * ex.Variable('x')) / (1 + ex.exp(b * ex.Variable('x')))
            if k == 'panel_ok':
                e = ex.log(ex.PanelLikelihoodTrajectory(inner))
            else:
                wrap = rr.choice(['add', 'mul', 'cmp', 'elem'])
                outv = ex.Variable('y')
                out['names'] = ['y']
                pt = ex.PanelLikelihoodTrajectory(inner)
                e = {'add': lambda: ex.log(pt) + outv, 'mul': lambda: ex.log(pt * outv),
                     'cmp': lambda: ex.log(pt) * (outv > 0), 'elem': lambda: ex.Elem({0: ex.log(pt), 1: ex.log(pt) * 2}, outv > 1)}[wrap]()
            bg = BIOGEME(db, e, parameters=Parameters())
            out['value'] = [float(bg.calculate_likelihood([0.2], scaled=False))]
        elif k.startswith('dup_') or k.startswith('placement_'):
            db = dbm.Database('d', df)
            X, Y = ex.Variable('x'), ex.Variable('y')
            dens = lambda om: ex.exp(-om * om)
            if k == 'dup_ok':
                e = ex.MonteCarlo(b * X + ex.bioDraws('xi', 'NORMAL')) + ex.Integrate(dens(ex.RandomVariable('om')) * ex.exp(b * Y), 'om')
            elif k == 'dup_beta_draws':
                nm = rr.choice(['xi', 'b_dir'])
                e = ex.MonteCarlo(ex.Beta(nm, 0.3, None, None, rr.choice([0, 1])) * X + ex.bioDraws(nm, 'NORMAL'))
                out['names'] = [nm]
            elif k == 'dup_beta_rv':
                nm = 'om'
                e = ex.Integrate(dens(ex.RandomVariable(nm)) * ex.exp(ex.Beta(nm, 0.3, None, None, rr.choice([0, 1])) * Y), nm)
                out['names'] = [nm]
            elif k == 'dup_draws_column':
                nm = rr.choice(['x', 'y'])
                e = ex.MonteCarlo(b * X + ex.bioDraws(nm, 'NORMAL'))
                out['names'] = [nm]
            elif k == 'dup_rv_column':
                nm = rr.choice(['x', 'y'])
                e = ex.Integrate(dens(ex.RandomVariable(nm)) * ex.exp(b * Y), nm)
                out['names'] = [nm]
            elif k == 'dup_draws_rv':
                nm = 'shared_name'
                e = ex.MonteCarlo(b * X + ex.bioDraws(nm, 'NORMAL')) + ex.Integrate(dens(ex.RandomVariable(nm)), nm)
                out['names'] = [nm]
            elif k == 'placement_draws_beside_montecarlo':
                e = ex.MonteCarlo(b * X + ex.bioDraws('xi', 'NORMAL')) + rr.choice([
                    lambda: ex.bioDraws('d_out', 'UNIFORM') * Y,
                    lambda: ex.Elem({0: b, 1: ex.bioDraws('d_out', 'UNIFORM')}, X > 0),
                    lambda: ex.bioMultSum({1: Y, 2: ex.bioDraws('d_out', 'UNIFORM')}),
                    lambda: ex.ConditionalSum([ex.ConditionalTermTuple(condition=ex.bioDraws('d_out', 'UNIFORM') > 0, term=Y)]),
                ])()
                out['names'] = ['d_out']
            elif k == 'placement_rv_beside_integral':
                e = ex.Integrate(dens(ex.RandomVariable('om')) * ex.exp(b * Y), 'om') + rr.choice([
                    lambda: ex.RandomVariable('om_out') * Y,
                    lambda: ex.Elem({0: b, 1: ex.RandomVariable('om_out')}, X > 0),
                    lambda: ex.BelongsTo(ex.RandomVariable('om_out'), {1, 2}) * b,
                    lambda: ex.ConditionalSum([ex.ConditionalTermTuple(condition=X > 0, term=ex.RandomVariable('om_out'))]),
                ])()
                out['names'] = ['om_out']
            if rr.random() < 0.5:
                v = e.get_value_c(database=db, prepare_ids=True, number_of_draws=4)
                out['value'] = np.asarray(v, float).tolist()
            else:
                from biogeme.biogeme import BIOGEME
                from biogeme.parameters import Parameters

                p_ = Parameters()
                p_.set_value('number_of_draws', 4, 'MonteCarlo')
                bg = BIOGEME(db, e, parameters=p_)
                out['value'] = [float(bg.calculate_likelihood([0.2] * len(bg.free_beta_names), scaled=False))]
        elif k.startswith('twodb_'):
            # the SAME formula objects used with two Database objects in turn: the verdict of the second use must depend on
            # the second data set only (nothing remembered from the first audit / preparation)
            from biogeme.biogeme import BIOGEME
            from biogeme.parameters import Parameters

            _, order, fault = k.split('_', 2)
            X, Y, CH = ex.Variable('x'), ex.Variable('y'), ex.Variable('ch')
            dfv, dff = df.copy(), df.copy()
            row = rr.randrange(n)
            panel_valid = False
            if fault == 'choice':
                bad = float(max(alts) + 7)
                dff.loc[row, 'ch'] = bad
                e = models.loglogit(V, None, CH)
                out['names'] = [str(bad), str(int(bad))]
            elif fault == 'choiceav':
                # same fault with explicit availabilities (a chosen alternative that is merely unavailable is only a
                # warning in the library and is not a fault of the statement: not planted)
                bad = float(max(alts) + 7)
                dff.loc[row, 'ch'] = bad
                for a in alts:
                    dfv[f'av_{a}'] = 1.0
                    dff[f'av_{a}'] = 1.0
                e = models.loglogit(V, {a: ex.Variable(f'av_{a}') for a in alts}, CH)
                out['names'] = [str(bad), str(int(bad))]
            elif fault == 'column':
                dfv['z'] = [rr.uniform(0, 1) for _ in range(n)]
                e = b * X + ex.Variable('z') * Y
                out['names'] = ['z']
            elif fault == 'panel':
                inner = ex.exp(b * X) / (1 + ex.exp(b * X))
                e = ex.log(ex.PanelLikelihoodTrajectory(inner))
                panel_valid = True
            # (on panel data no row variable may sit outside the trajectory: parameter-only wrappers there)
            wrap = rr.choice(['root', 'addbeta', 'exp', 'neg', 'elembeta'] if fault == 'panel' else ['root', 'add', 'exp', 'elem', 'multsum', 'cmp', 'neg'])
            e = {'root': lambda: e, 'add': lambda: e + b * X, 'addbeta': lambda: e + b * 2, 'elembeta': lambda: ex.Elem({0: e, 1: b * 3}, b > 5), 'exp': lambda: ex.exp(e), 'elem': lambda: ex.Elem({0: e, 1: e * 2}, X > 0),
                 'multsum': lambda: ex.bioMultSum([e, b * Y]), 'cmp': lambda: e * (Y > 0), 'neg': lambda: -e}[wrap]()
            out['wrap'] = wrap
            entry = rr.choice(['get_value_c', 'BIOGEME', 'simulate'])
            out['entry'] = entry

            def mkdb(frame, panel):
                d_ = dbm.Database('d', frame.copy())
                if panel:
                    d_.panel('id')
                return d_

            def use(d_):
                if entry == 'get_value_c':
                    return np.asarray(e.get_value_c(database=d_, prepare_ids=True), float).tolist()
                if entry == 'BIOGEME':
                    bg_ = BIOGEME(d_, e, parameters=Parameters())
                    return [float(bg_.calculate_likelihood([0.2] * len(bg_.free_beta_names), scaled=False))]
                bg_ = BIOGEME(d_, {'f': e}, parameters=Parameters())
                return np.asarray(bg_.simulate({'b_dir': 0.2})['f'], float).tolist()

            dbs = {'v': mkdb(dfv, panel_valid), 'f': mkdb(dff, False), 'w': mkdb(dfv.iloc[::-1].reset_index(drop=True), panel_valid)}
            first, second = {'vf': ('v', 'f'), 'fv': ('f', 'v'), 'vv': ('v', 'w')}[order]
            try:
                out['first_value'] = use(dbs[first])
                out['first'] = 'ok'
            except BaseException as e1:
                out['first'] = 'exc'
                out['first_type'] = type(e1).__name__
                out['first_biogeme_error'] = isinstance(e1, bexc.BiogemeError)
                out['first_msg'] = str(e1)[:500]
            out['value'] = use(dbs[second])
        elif k.startswith('linutil_missing'):
            code = 99999
            df.loc[1, 'x'] = code
            db = dbm.Database('d', df)
            e = ex.bioLinearUtility([ex.LinearTermTuple(beta=b, x=ex.Variable('x'))]) + ex.Variable('y')
            if k == 'linutil_missing_value':
                v = e.get_value_c(database=db, prepare_ids=True)
            else:
                from biogeme.biogeme import BIOGEME
                from biogeme.parameters import Parameters

                v = [BIOGEME(db, e, parameters=Parameters()).calculate_likelihood([0.2], scaled=False)]
            out['value'] = np.asarray(v, float).tolist()
        out['outcome'] = 'ok'
    except BaseException as e:
        out['outcome'] = 'exc'
        out['type'] = type(e).__name__
        out['module'] = type(e).__module__
        out['biogeme_error'] = isinstance(e, bexc.BiogemeError)
        out['msg'] = str(e)[:1500]
    out['completed_calculations'] = ep.completed_calculations()
    return out


DIRECTED = ['nl_ok', 'nl_overlap', 'nl_overlap_nonadjacent', 'nl_outside', 'cnl_ok', 'cnl_outside', 'data_ok', 'data_nonnumeric', 'data_nan',
            'data_empty', 'flags_ok', 'flags_hessian_without_gradient', 'flags_bhhh_without_gradient', 'panel_ok',
            'panel_variable_outside_trajectory', 'linutil_missing_value', 'linutil_missing_likelihood',
            'dup_ok', 'dup_beta_draws', 'dup_beta_rv', 'dup_draws_column', 'dup_rv_column', 'dup_draws_rv',
            'placement_draws_beside_montecarlo', 'placement_rv_beside_integral'] + [
    f'twodb_{o}_{f}' for f in ('choice', 'choiceav', 'column', 'panel') for o in ('vf', 'fv', 'vv')]


def _directed_case(case, rec):
    from ..worker import run_forked

    what = DIRECTED[case['i'] % len(DIRECTED)]
    res = run_forked(_directed_child, {'what': what, 'rs': f'{case["seed"]}/{case["i"]}'}, 60)
    rec.ev()
    rec.key(['directed', what, case['i']])
    rec.c('directed_' + what)
    wit = {'what': what, 'i': case['i'], 'seed': case['seed']}
    if 'outcome' not in res:
        if 'crash_signal' in res:
            rec.violation(f'C12/{what}-native-crash', str(res), wit)
        else:
            rec.inconc(f'directed case gave no result: {str(res)[:300]}')
        return
    if what.startswith('twodb_'):
        _, order, fault = what.split('_', 2)
        rec.c(f'twodb_{res.get("entry")}_{res.get("wrap")}')
        wit.update({'entry': res.get('entry'), 'wrap': res.get('wrap'), 'first': res.get('first'), 'first_msg': res.get('first_msg')})
        if order in ('vf', 'vv') and res.get('first') != 'ok':
            rec.violation(f'C12/valid-specification-rejected-{what}', f'first use (valid data): {res.get("first_type")}: {res.get("first_msg")}', wit)
            return
        if order == 'fv' and res.get('first') == 'ok':
            rec.violation(f'C12/twodb_{fault}-{res.get("entry")}-not-rejected', f'first use (faulty data) accepted; value={res.get("first_value")}', wit)
            return
        if order == 'vf':
            # the second use is the faulty one: it must be refused although the same objects were accepted on other data before
            _judge_outcome(rec, res, f'twodb_{fault}_after_valid_use_of_same_objects', res.get('entry'), res.get('names'), wit, res.get('wrap'), fault)
        elif res['outcome'] != 'ok':
            rec.violation(f'C12/valid-specification-rejected-after-same-objects-were-{"refused" if order == "fv" else "used"}-on-other-data',
                          f'{what} via {res.get("entry")}: {res.get("type")}: {res.get("msg", "")[:300]} (first use: {res.get("first")} '
                          f'{res.get("first_msg", "")[:200]})', wit)
        else:
            rec.c('twodb_second_use_accepted_as_it_should')
        return
    if what.endswith('_ok'):
        if res['outcome'] != 'ok':
            rec.violation(f'C12/valid-specification-rejected-{what}', f'{res.get("type")}: {res.get("msg", "")[:300]}', wit)
        return
    if what.startswith('linutil_missing'):
        if res['outcome'] == 'ok':
            rec.violation('C12/missing-data-read-no-error-linear-utility',
                          f'bioLinearUtility reads the missing-data code on row 1 and no error is raised; value {res.get("value")}', wit)
        return
    _judge_outcome(rec, res, what, 'directed', res.get('names'), wit, 'directed', what)


def extra(seed, tier, workdir):
    """The same fault-planting / missing-data / directed workload on the ASan/UBSan build of the pinned engine: an invalid
    specification that is not refused must not make the engine touch memory it does not own either."""
    from . import _sanitizer

    if tier != 'thorough' and not _sanitizer.available('asan'):
        return []
    n = {'plant': 400, 'missing': 300, 'directed': 400} if tier == 'thorough' else {'plant': 16, 'missing': 8, 'directed': 40}
    cs = [{'seed': seed + 1000, 'i': i, 'kind': k, 'tier': tier} for k, m in n.items() for i in range(m)]
    return _sanitizer.run_under_asan('C12', 'biomon.checks.c12', cs, workdir, tier)


def finalize(cov, tier):
    out = []
    for k in FAULTS:
        if cov.get('fault_' + k, 0) == 0:
            out.append(f'fault kind never planted: {k}')
    parents = {k.split('_', 1)[1] for k in cov if k.startswith('pos_')}
    need = ['add.left', 'mul.right', 'eq.left', 'gt.right', 'and.left', 'or.right', 'belongs.child', 'multsum.term', 'elem.key',
            'elem.entry', 'condsum.condition', 'condsum.term', 'loglogit.utility', 'loglogit.availability', 'loglogit.choice',
            'exp.child', 'log.child', 'min.left', 'max.right', 'root.root']
    missing = [p for p in need if p not in parents]
    if missing and tier == 'thorough':
        out.append(f'positions never reached: {missing}')
    cov['positions_reached'] = len(parents)
    cov['fault_x_position_x_entry_cells'] = len([k for k in cov if k.startswith('matrix_')])
    for k in [k for k in cov if k.startswith('matrix_')]:
        del cov[k]
    for k in ('missing_read_error_raised', 'missing_unread_harmless', 'valid_twin_runs', 'rejected_properly'):
        if cov.get(k, 0) == 0:
            out.append(f'monitor never evaluated: {k}')
    return out
