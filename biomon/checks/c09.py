"""C09 — panel likelihood: product over each individual's rows, shared draws.

Workload: seeded panel tables (1-40 individuals, 1-6 rows each, many
singletons, arbitrary id values, blocks and rows inside blocks in random
order, odd frame indices, rows removed between panel() and the model), strictly
positive per-observation formulas inside PanelLikelihoodTrajectory, optionally
under MonteCarlo with deterministic generators whose value encodes
(individual index, draw index); non-contiguous tables; formulas with a row
variable outside the trajectory; directed (seed-independent) cases that
reproduce the recorded finding at every run (mode 'outside') and regression
cases of the repaired contiguity count (mode 'hugeid', fix c6f7545: must hold).

Monitors (biomon/oracle/c09_monitor.py, c09_ref.py):
 * contract on Database.panel / build_panel_map: individuals <-> map rows
   bijection, intervals partition 0..N-1, each interval holds exactly the rows
   carrying that id, rows only permuted;
 * spy at the engine boundary (snapshots): the map handed over describes the
   frame handed over, draw table / sample size dimensioned by individuals;
 * spy on the draw generators: asked for (individuals, draws);
 * values keyed *by id*: BIOGEME.simulate, calculate_likelihood (scaled and
   not), calculate_likelihood_and_derivatives, Expression.get_value_c against
   an independent reference (product over the rows carrying the id; inside
   Monte-Carlo the draws are a function of the individual only);
 * both scaled entry points: calculate_likelihood(scaled=True) and
   calculate_likelihood_and_derivatives(scaled=True, hessian, bhhh) = unscaled
   function / gradient / Hessian / BHHH over the number of individuals of the
   reference groupby, and the two agree; results.data.sampleSize /
   numberOfObservations after estimations (history family);
 * metamorphic: permuting blocks / rows inside blocks changes nothing;
 * a row variable outside the trajectory: refused, or at least not
   order-dependent;
 * histories (mode 'history'): ONE BIOGEME object through seeded sequences of
   simulate / calculate_likelihood / estimate (with and without bootstrap) /
   quick_estimate; after every simulate the values keyed by id, after every
   calculate_likelihood the log likelihood of the data set, and at every engine
   calculation outside a bootstrap loop "the map inside the engine is the
   database's current map" (snapshot of the last setDataMap per engine object);
 * re-declarations (mode 'redeclare'): ONE Database declared panel several times
   on nested id columns (persons in households: a -> b, b -> a, a -> a,
   a -> b -> a), optionally with evaluations / BIOGEME objects / remove /
   add_column / scale_column in between; contracts at every declaration (map
   against the CURRENT panel column), all value / draw / sample-size oracles
   on the finally declared individuals, agreement with a fresh Database
   declared directly on the final column.
"""
from __future__ import annotations

import copy

import numpy as np

from .. import env  # noqa: F401
from ..rec import Rec, close, maxrel

LEVEL = 'exploration'
RULE = (
    'cases = seeded panel tables (1-40 individuals, thorough also 41-150, x 1-6 rows, singletons frequent, id values small/negative/'
    'non-integer/large/beyond 2^53, blocks and rows inside blocks shuffled, frame index range/shuffled/with gaps, '
    'optionally rows removed after panel()) x generated strictly positive per-observation formulas (depth<=3, with '
    'logit probabilities and parameters) inside PanelLikelihoodTrajectory, half of them under MonteCarlo with 1-8 '
    'draws from deterministic generators encoding (individual, draw), 1-7 threads, parameter values different from '
    'the initial ones; plus non-contiguous tables, formulas with a row variable outside the trajectory, and directed '
    'tables with 16-digit integer ids that collide in float64; plus histories: one BIOGEME object (binary-logit panel '
    'model, bounded parameters, optionally a random coefficient under MonteCarlo) taken through 3-7 operations among '
    'simulate / calculate_likelihood / estimate / estimate(run_bootstrap) / quick_estimate, judged after every step; plus re-declaration histories '
    '(one Database, panel() called 2-3 times on nested id columns with optional evaluations / remove / add_column / '
    'scale_column in between, judged on the final column and against a fresh Database). A case is '
    'non-trivial when the table has >= 2 rows and the reference evaluator accepts the trajectory value as regular and '
    'well-conditioned (float64 vs 80-bit agreement 1e-12); distinct = hash of (table as presented, ids, formula, '
    'parameters, draws)'
)
ASSUMPTIONS = [
    'per-observation values inside the trajectory are strictly positive (likelihood contributions); the external '
    'engine forms the product as exp(sum(log .)), so negative contributions are outside the regular domain',
    'reference semantics = biomon/oracle/evalast.py with draws expanded to rows by individual (c09_ref.py), self-tested '
    'at every run against a brute-force scalar loop over (individual, draw, row)',
    'which row of the draw table an individual receives is taken from the position of its id in the public '
    'Database.individualMap; what is checked is that it is one row per individual, the same for all its observations, '
    'and independent of the order of the table',
    'values compared at rtol 1e-9 / atol 1e-11 (no normal CDF in the generated formulas); permutation partners at rtol 1e-10',
]
MIN_DISTINCT = {'quick': 200, 'thorough': 2500}
CASE_TIMEOUT = 180

N_RANDOM = {'quick': 340, 'thorough': 4000}
N_MC = {'quick': 40, 'thorough': 400}
N_REMOVE = {'quick': 40, 'thorough': 400}
N_OUTSIDE = {'quick': 16, 'thorough': 100}
N_NONCONTIG = {'quick': 20, 'thorough': 150}
N_DIRECTED_OUTSIDE = 4
N_HISTORY = {'quick': 40, 'thorough': 400}
N_DIRECTED_HISTORY = 4
N_REDECLARE = {'quick': 60, 'thorough': 600}
N_DIRECTED_HUGEID = 3

RTOL, ATOL = 1e-9, 1e-11
# operators the engine refuses (or warns about) when derivatives are requested
NONDIFF = {'belongs', 'and', 'or', 'eq', 'ne', 'le', 'ge', 'lt', 'gt', 'min', 'max'}
KNOWN_OUTSIDE = 'row-variable-outside-trajectory-accepted-result-depends-on-row-order'
KNOWN_BOOTSTRAP = 'history-likelihood-after-panel-bootstrap-evaluated-on-the-resampled-map-left-in-the-engine'
REGRESSION_HUGEID = 'valid-panel-table-refused-integer-ids-beyond-2p53-merged-by-float-comparison'


def cases(seed, tier):
    out = []
    for i in range(N_RANDOM[tier]):
        out.append({'seed': seed, 'i': i, 'mode': 'random', 'tier': tier})
    for i in range(N_MC[tier]):
        out.append({'seed': seed, 'i': i, 'mode': 'mc', 'tier': tier})
    for i in range(N_REMOVE[tier]):
        out.append({'seed': seed, 'i': i, 'mode': 'remove', 'tier': tier})
    for i in range(N_OUTSIDE[tier]):
        out.append({'seed': seed, 'i': i, 'mode': 'outside', 'tier': tier})
    for i in range(N_NONCONTIG[tier]):
        out.append({'seed': seed, 'i': i, 'mode': 'noncontig', 'tier': tier})
    # directed, the same at every run whatever the seed (reproduce recorded findings deterministically)
    for i in range(N_DIRECTED_OUTSIDE):
        out.append({'seed': 'directed', 'i': i, 'mode': 'outside', 'tier': 'quick'})
    for i in range(N_HISTORY[tier]):
        out.append({'seed': seed, 'i': i, 'mode': 'history', 'tier': tier})
    for i in range(N_DIRECTED_HISTORY):
        out.append({'seed': 'directed', 'i': i, 'mode': 'history', 'tier': 'quick'})
    for i in range(N_REDECLARE[tier]):
        out.append({'seed': seed, 'i': i, 'mode': 'redeclare', 'tier': tier})
    for i in range(N_DIRECTED_HUGEID):
        out.append({'seed': 'directed', 'i': i, 'mode': 'hugeid', 'tier': 'quick'})
    return out


def extra(seed, tier, workdir):
    """the same workload (every family, evenly sub-sampled) on the ASan/UBSan build of the pinned engine"""
    from . import _sanitizer

    return _sanitizer.asan_stage_on_sample('C09', 'biomon.checks.c09', cases(seed + 1000, tier), workdir, tier, 48, 1200)


def warmup():
    import biogeme.biogeme  # noqa
    import biogeme.expressions  # noqa
    import biogeme.database  # noqa
    from ..oracle import c09_monitor

    c09_monitor.install()


def selftest():
    """(1) the vectorised reference against a brute-force loop; (2) the map checker against planted faults."""
    import pandas as pd
    from ..gen import c09_panel
    from ..oracle import c09_ref, c09_monitor, evalast

    bad = []
    n = 0
    for i in range(60):
        spec = c09_panel.make(4242, i, 'quick', 'random' if i % 2 else 'mc')
        tab = c09_panel.table(spec, 'a')
        bv = {k: v[0] for k, v in spec['betas'].items()}
        j = c09_ref.reference(spec, tab, spec['formulas']['P'], bv)
        if not j['ok']:
            continue
        try:
            b = c09_ref.brute_trajectory(spec, tab, spec['inner'], bv)
        except evalast.OutOfDomain:
            continue
        n += 1
        if not close(j['value'], b, 1e-11, 1e-13):
            bad.append(f'vectorised and brute-force references differ on self-test case {i}')
    if n < 15:
        bad.append(f'reference self-test compared only {n} cases')
    data = pd.DataFrame({'id': [-3.0, -3.0, 2.5, 7.0, 7.0, 7.0], 'x': [1.0, 2, 3, 4, 5, 6]})
    good = pd.DataFrame({0: [0, 2, 3], 1: [1, 2, 5]}, index=[-3.0, 2.5, 7.0])
    if c09_monitor.check_map(good, data, 'id', 'selftest'):
        bad.append('map checker flags a correct map')
    planted = {
        'short interval': pd.DataFrame({0: [0, 2, 3], 1: [1, 2, 4]}, index=[-3.0, 2.5, 7.0]),
        'overlap': pd.DataFrame({0: [0, 1, 3], 1: [1, 2, 5]}, index=[-3.0, 2.5, 7.0]),
        'missing individual': pd.DataFrame({0: [0, 3], 1: [1, 5]}, index=[-3.0, 7.0]),
        'swapped ids': pd.DataFrame({0: [0, 2, 3], 1: [1, 2, 5]}, index=[2.5, -3.0, 7.0]),
        'out of range': pd.DataFrame({0: [0, 2, 3], 1: [1, 2, 6]}, index=[-3.0, 2.5, 7.0]),
    }
    for nm, m in planted.items():
        if not c09_monitor.check_map(m, data, 'id', 'selftest'):
            bad.append(f'map checker blind to planted fault: {nm}')
    return bad


# ---------------------------------------------------------------------------------------
def _params(spec, threads=None):
    from biogeme.parameters import Parameters

    p = Parameters()
    p.set_value('number_of_threads', int(threads or spec['threads']), 'MultiThreading')
    if spec['mc']:
        p.set_value('number_of_draws', int(spec['ndraws']), 'MonteCarlo')
    p.set_value('save_iterations', False, 'Estimation')
    if 'bootstrap_samples' in spec:
        p.set_value('bootstrap_samples', int(spec['bootstrap_samples']), 'Estimation')
        p.set_value('max_iterations', int(spec['max_iterations']), 'SimpleBounds')
    p.set_value('generate_html', False, 'Output')
    p.set_value('generate_pickle', False, 'Output')
    return p


def _build(spec, ast):
    from ..gen import build

    e, _ = build.build({'ast': copy.deepcopy(ast), 'shared': spec['shared'], 'betas': spec['betas'],
                        'bounds': spec.get('bounds', {})})
    return e


class _Ctx:
    """what one case shares between its steps"""

    def __init__(self, rec, spec):
        self.rec = rec
        self.spec = spec

    def viol(self, mech, msg, **kw):
        sp = self.spec
        w = {'ids': sp['ids'], 'sizes': sp['sizes'], 'idcol': sp['idcol'], 'formulas': sp['formulas'],
             'shared': sp['shared'], 'betas': sp['betas'], 'eval_betas': sp['eval_betas'], 'draws': sp['draws'],
             'ndraws': sp['ndraws'], 'threads': sp['threads'], 'remove': sp['remove'], 'index_style': sp['index_style']}
        w.update(kw)
        self.rec.violation('C09/' + mech, msg, w)

    def drain(self, which):
        from ..oracle import c09_monitor as mon

        for mech, msg, wit in mon.drain():
            self.viol(mech, f'table {which}: {msg}', monitor=wit)


def _database(cx, which, genlog, table=None, declare=True):
    """real Database on presentation `which` (or on an explicit table), declared panel. returns (database, table dict, status)"""
    import pandas as pd
    import biogeme.database as bdb
    from biogeme.exceptions import BiogemeError
    from ..gen import c09_panel
    from ..oracle import c09_monitor as mon

    spec = cx.spec
    tab = table if table is not None else c09_panel.table(spec, which)
    nrows = len(next(iter(tab.values())))
    df = pd.DataFrame({c: list(v) for c, v in tab.items()},
                      index=list(spec['index']) if len(spec['index']) == nrows else list(range(nrows)))
    mon.STATE['idcol'] = spec['idcol']
    database = bdb.Database('c09' + which, df)
    if spec['draws']:
        database.set_random_number_generators(mon.spying_generators(spec, genlog))
    if not declare:
        return database, tab, 'ok'
    noncontig = spec['mode'] == 'noncontig' and which == 'a'
    try:
        database.panel(spec['idcol'])
    except BiogemeError as e:
        if noncontig:
            cx.rec.c('noncontiguous_table_refused')
            mon.drain()
            return None, tab, 'refused'
        ids = spec['ids']
        merged = all(isinstance(v, int) for v in ids) and len({float(v) for v in ids}) < len(ids)
        cx.rec.c('valid_table_refused')
        cx.viol(REGRESSION_HUGEID if merged else 'valid-panel-table-refused',
                f'table {which}: panel() raised BiogemeError on a table whose blocks are contiguous'
                + (' (integer ids beyond 2^53, some pairwise equal once converted to float64)' if merged else '') + f': {e}',
                table=tab)
        return None, tab, 'error'
    except BaseException as e:  # noqa
        cx.viol(f'panel-raises-{type(e).__name__}', f'table {which}: panel() raised {type(e).__name__}: {e}', table=tab)
        return None, tab, 'error'
    if noncontig:
        cx.rec.c('noncontiguous_table_accepted')
    cx.drain(which)
    return database, tab, 'ok'


def _evaluate_table(cx, which, prepared=None):
    """all observations on one presentation (or on an already prepared (database, table, genlog)). returns dict or None"""
    from biogeme.biogeme import BIOGEME
    from biogeme.expressions import Variable
    from ..oracle import c09_ref
    from ..oracle import c09_monitor as mon
    from ..gen import exprs as exprs_mod

    rec, spec = cx.rec, cx.spec
    if prepared is not None:
        database, tab, genlog = prepared
        del genlog[:]
    else:
        genlog = []
        database, tab, status = _database(cx, which, genlog)
        if database is None:
            return None
    idcol = spec['idcol']
    # rows removed between panel() and the model: the map must follow
    if spec['remove'] and prepared is None:
        col, val = spec['remove']['col'], spec['remove']['value']
        how = spec['remove'].get('how', 'api')
        try:
            if how == 'api':
                database.remove(Variable(col) == val)
            else:
                database.data.drop(database.data[database.data[col] == val].index, inplace=True)
        except BaseException as e:  # noqa
            rec.inconc(f'removing rows ({how}) from a panel table raised {type(e).__name__}: {e}')
            return None
        rec.c('rows_removed_after_panel_' + how)
        keep = [t for t in range(len(tab[idcol])) if tab[col][t] != val]
        tab = {c: [v[t] for t in keep] for c, v in tab.items()}
        rec.c('rows_removed_after_panel')
        mon.drain()  # the map is allowed to be stale until the next evaluation prepares it
    groups = c09_ref.groups_by_id(tab, idcol)
    n_ind = len(groups)
    n_rows = len(tab[idcol])
    eb = spec['eval_betas']
    refs = {}
    for nm, ast in spec['formulas'].items():
        j = c09_ref.reference(spec, tab, ast, eb)
        if j['ok']:
            refs[nm] = j
        else:
            rec.c('rejected_' + j['reason'].split(':')[0])
    if 'P' not in refs:
        return None
    order = refs['P']['order']
    wit = {'table': tab, 'which': which}
    res = {'tab': tab, 'n_ind': n_ind, 'n_rows': n_rows, 'sim': {}, 'll': None, 'refs': refs}

    def by_id(j):
        return dict(zip(j['order'], j['value'].tolist()))

    # ---- (1) several formulas through BIOGEME.simulate, keyed by id ---------------------
    exprs = {nm: _build(spec, spec['formulas'][nm]) for nm in refs}
    try:
        bg = BIOGEME(database, exprs, parameters=_params(spec))
        sim = bg.simulate({n: eb[n] for n in bg.free_beta_names})
    except BaseException as e:  # noqa
        cx.viol(f'simulate-raises-{type(e).__name__}', f'table {which}: BIOGEME/simulate raised {type(e).__name__}: {e}', **wit)
        cx.drain(which)
        return None
    cx.drain(which)
    labels = list(sim.index)
    rec.ev()
    if len(labels) != n_ind or set(labels) != set(groups):
        cx.viol('simulate-index-is-not-the-set-of-individuals',
                f'table {which}: simulate returned rows labelled {labels[:12]} for individuals {order[:12]}', **wit)
        return None
    for nm, j in refs.items():
        want = by_id(j)
        got = dict(zip(labels, np.asarray(sim[nm], dtype=float).tolist()))
        res['sim'][nm] = got
        rec.ev()
        a = np.array([got[i] for i in order])
        b = np.array([want[i] for i in order])
        if not close(a, b, RTOL, ATOL):
            worst = max(order, key=lambda i: abs(got[i] - want[i]) / max(abs(want[i]), 1e-300))
            mech = 'simulate-montecarlo-trajectory-differs-from-mean-of-products-with-shared-draws' if spec['mc'] \
                else 'simulate-trajectory-differs-from-product-over-the-rows-of-the-individual'
            cx.viol(mech, f'table {which}, formula {nm}: individual {worst!r} (rows {groups[worst]}): simulate={got[worst]!r} '
                          f'reference={want[worst]!r}; maxrel={maxrel(a, b):.3g}', simulate=got, reference=want, **wit)
    # sample size, draw table, generators
    rec.ev()
    if database.get_sample_size() != n_ind:
        cx.viol('sample-size-not-number-of-individuals',
                f'table {which}: get_sample_size()={database.get_sample_size()} for {n_ind} individuals / {n_rows} rows', **wit)
    if database.get_number_of_observations() != n_rows:
        cx.viol('number-of-observations-not-number-of-rows',
                f'table {which}: get_number_of_observations()={database.get_number_of_observations()} for {n_rows} rows', **wit)
    if spec['mc']:
        rec.ev()
        shp = tuple(np.shape(database.theDraws))
        if shp[:2] != (n_ind, spec['ndraws']):
            cx.viol('draw-table-not-dimensioned-by-individuals',
                    f'table {which}: Database.theDraws has shape {shp} for {n_ind} individuals and {spec["ndraws"]} draws', **wit)
        rec.c('generator_calls_seen', len(genlog))
        bad = [g for g in genlog if g[1] != n_ind or g[2] != spec['ndraws']]
        if bad:
            cx.viol('generator-asked-for-other-than-individuals-x-draws',
                    f'table {which}: a draw generator was asked for {bad[0][1:]} with {n_ind} individuals, {n_rows} rows, '
                    f'{spec["ndraws"]} draws', **wit)
        if not genlog:
            rec.inconc('Monte-Carlo case in which no generator call was seen')
    # ---- (2) the log likelihood: sum over individuals of log(trajectory) -----------------
    if 'logP' in refs:
        want_ll = float(np.sum(refs['logP']['value']))
        scale = float(np.sum(np.abs(refs['logP']['value'])))
        atol_ll = 1e-11 * scale + 1e-12
        try:
            bg2 = BIOGEME(database, _build(spec, spec['formulas']['logP']), parameters=_params(spec))
            x = [eb[n] for n in bg2.free_beta_names]
            ll = bg2.calculate_likelihood(x, scaled=False)
            lls = bg2.calculate_likelihood(x, scaled=True)
            lld = None
            if x and not (exprs_mod.ops_in(spec['formulas']['logP'], spec['shared']) & NONDIFF):
                lld = bg2.calculate_likelihood_and_derivatives(x, scaled=False, hessian=False, bhhh=False).function
                _judge_scaled(cx, bg2, x, n_ind, n_rows, f'table {which}', wit, lls=lls)
        except BaseException as e:  # noqa
            cx.viol(f'calculate_likelihood-raises-{type(e).__name__}',
                    f'table {which}: BIOGEME/calculate_likelihood raised {type(e).__name__}: {e}', **wit)
            cx.drain(which)
            return res
        cx.drain(which)
        res['ll'] = ll
        rec.ev()
        rec.c('loglikelihood_compared')
        if not close(ll, want_ll, RTOL, atol_ll):
            cx.viol('loglikelihood-differs-from-sum-over-individuals-of-log-product',
                    f'table {which}: calculate_likelihood={ll!r} reference={want_ll!r} ({n_ind} individuals, {n_rows} rows)', **wit)
        rec.ev()
        if not close(lls * n_ind, want_ll, RTOL, atol_ll):
            cx.viol('scaled-loglikelihood-not-divided-by-number-of-individuals',
                    f'table {which}: scaled={lls!r}, unscaled reference={want_ll!r}, ratio={want_ll / lls if lls else None!r} '
                    f'individuals={n_ind} rows={n_rows}', **wit)
        if lld is not None:
            rec.ev()
            rec.c('value_from_derivative_path_compared')
            if not close(lld, want_ll, RTOL, atol_ll):
                cx.viol('loglikelihood-from-derivative-path-differs',
                        f'table {which}: calculate_likelihood_and_derivatives.function={lld!r} reference={want_ll!r}', **wit)
    # ---- (3) the expression alone: get_value_c, positions keyed through individualMap ----
    try:
        e1 = _build(spec, spec['formulas']['P'])
        free = {n: eb[n] for n, (v, st) in spec['betas'].items() if st == 0}
        vals = e1.get_value_c(database=database, betas=free, number_of_draws=max(1, spec['ndraws']), prepare_ids=True)
        keys = list(database.individualMap.index)
    except BaseException as e:  # noqa
        cx.viol(f'get_value_c-raises-{type(e).__name__}', f'table {which}: get_value_c raised {type(e).__name__}: {e}', **wit)
        cx.drain(which)
        return res
    cx.drain(which)
    rec.ev()
    rec.c('get_value_c_compared')
    want = by_id(refs['P'])
    vals = np.asarray(vals, dtype=float)
    if len(vals) != n_ind or len(keys) != n_ind or set(keys) != set(groups):
        cx.viol('get_value_c-not-one-value-per-individual',
                f'table {which}: get_value_c returned {len(vals)} values, map has {len(keys)} individuals, table has {n_ind}', **wit)
    elif not close(vals, np.array([want[k] for k in keys]), RTOL, ATOL):
        cx.viol('get_value_c-trajectory-differs-from-product-over-the-rows-of-the-individual',
                f'table {which}: get_value_c={vals.tolist()[:10]} reference={[want[k] for k in keys][:10]}', **wit)
    # ---- (4) the public map at the end ---------------------------------------------------
    rec.ev()
    for mech, msg in mon.check_map(database.individualMap, database.data, idcol, 'Database.individualMap after the evaluations'):
        cx.viol(mech, f'table {which}: {msg}', **wit)
    if sorted(map(tuple, np.asarray(database.data[list(tab)], dtype=float).tolist())) != \
            sorted(map(tuple, np.asarray([[float(tab[c][t]) for c in tab] for t in range(n_rows)]).tolist())):
        cx.viol('panel-data-rows-altered', f'table {which}: Database.data no longer holds the rows of the table', **wit)
    return res


def _run_outside(cx):
    """a row variable outside the trajectory on panel data: refused, or else the result may not
    depend on the order of the rows of an individual (which row would it be read from?)"""
    from biogeme.biogeme import BIOGEME
    from biogeme.exceptions import BiogemeError

    rec, spec = cx.rec, cx.spec
    ast = spec['formulas']['P']
    eb = spec['eval_betas']
    for path in ('single-formula', 'dict-formulas'):
        got = {}
        for which in ('a', 'b'):
            database, tab, status = _database(cx, which, [])
            if database is None:
                return
            e = _build(spec, ast)
            try:
                bg = BIOGEME(database, e if path == 'single-formula' else {'log_like': e}, parameters=_params(spec, threads=1))
            except BiogemeError:
                rec.c('outside_refused_' + path)
                got = None
                break
            except BaseException as ex:  # noqa
                rec.c(f'outside_refused_{path}_with_{type(ex).__name__}')
                got = None
                break
            try:
                x = [eb[n] for n in bg.free_beta_names]
                ll = bg.calculate_likelihood(x, scaled=False)
                sim = bg.simulate({n: eb[n] for n in bg.free_beta_names})
                got[which] = (ll, dict(zip(list(sim.index), np.asarray(sim['log_like'], dtype=float).tolist())), tab)
            except BaseException as ex:  # noqa
                rec.c(f'outside_accepted_then_{type(ex).__name__}_{path}')
                got = None
                break
        rec.ev()
        if got is None:
            continue
        rec.c('outside_accepted_' + path)
        (lla, sa, ta), (llb, sb, tb) = got['a'], got['b']
        ids = sorted(sa)
        va = np.array([sa[i] for i in ids])
        vb = np.array([sb.get(i, np.nan) for i in ids])
        if not close(va, vb, 1e-10, 1e-13) or not close(lla, llb, 1e-10, 1e-12):
            worst = max(ids, key=lambda i: abs(sa[i] - sb.get(i, np.inf)))
            cx.viol(f'{KNOWN_OUTSIDE}-{path}',
                    f'{path}: variable {spec["outside"]["var"]} stands outside PanelLikelihoodTrajectory, the model is accepted, and the '
                    f'same table with the rows of the individuals in another order gives another result: individual {worst!r} '
                    f'{sa[worst]!r} vs {sb.get(worst)!r}; log likelihood {lla!r} vs {llb!r}',
                    table_a=ta, table_b=tb, simulate_a=sa, simulate_b=sb)
        else:
            rec.c('outside_accepted_but_order_independent_' + path)


def _run_history(cx, case):
    """ONE BIOGEME object on a panel table taken through a sequence of public calls. After every simulate the
    per-individual values are judged against the reference keyed by id at the parameter values in force, after
    every calculate_likelihood the log likelihood of the data set; at every engine calculation made outside a
    bootstrap loop the map held by the engine must be the database's current map."""
    import zlib
    from biogeme.biogeme import BIOGEME
    from ..oracle import c09_ref
    from ..oracle import c09_monitor as mon

    rec, spec = cx.rec, cx.spec
    genlog = []
    database, tab, status = _database(cx, 'a', genlog)
    if database is None:
        return
    groups = c09_ref.groups_by_id(tab, spec['idcol'])
    mon.STATE['history'] = True
    mon.STATE['database'] = database
    np.random.seed(zlib.crc32(repr((case['seed'], case['i'])).encode()))
    try:
        bg = BIOGEME(database, _build(spec, spec['formulas']['logP']), parameters=_params(spec))
        bg.modelName = 'c09_history'
        free = list(bg.free_beta_names)
    except BaseException as e:  # noqa
        cx.viol(f'history-constructor-raises-{type(e).__name__}', f'BIOGEME raised {type(e).__name__}: {e}', table=tab)
        return
    done = []
    last_est = None
    bootstrapped = False     # a panel bootstrap ran on this object ...
    restored = True          # ... and no simulate() (which hands the database map over again) since
    judged = 0

    def wit(**kw):
        d = {'table': tab, 'ops_done': list(done), 'ops': spec['ops']}
        d.update(kw)
        return d

    def stale_likelihood_calls(events):
        """likelihood evaluations made while the engine held another map than the database (outside a bootstrap loop)"""
        out = []
        for ev in events:
            if ev['call'] == 'setDataMap':
                break  # from here on the bootstrap loop of this very call is resampling on purpose
            if ev['call'] != 'simulateSeveralFormulas' and not ev['current']:
                out.append(ev)
        return out

    for k, op in enumerate(spec['ops']):
        start = len(mon.HIST)
        mon.STATE['phase'] = op
        rec.c('history_op_' + op)
        vals = dict(spec['op_values'][k])
        if last_est is not None and k % 2 == 0:
            vals = {n: float(last_est[n]) for n in vals}
        try:
            if op == 'simulate':
                sim = bg.simulate({n: vals[n] for n in free})
            elif op == 'loglike':
                ll = bg.calculate_likelihood([vals[n] for n in free], scaled=False)
            elif op == 'scaled':
                ll = _judge_scaled(cx, bg, [vals[n] for n in free], len(groups), len(tab[spec['idcol']]),
                                   f'after {done}, at {vals}', wit())
            elif op in ('estimate', 'estimate_bootstrap', 'quick_estimate'):
                results = (bg.quick_estimate() if op == 'quick_estimate' else bg.estimate(run_bootstrap=(op == 'estimate_bootstrap')))
                last_est = results.get_beta_values()
                _judge_results_sizes(cx, results, len(groups), len(tab[spec['idcol']]), f'after {done + [op]}', wit())
        except BaseException as e:  # noqa
            if op in ('simulate', 'loglike', 'scaled'):
                cx.viol(f'history-{op}-raises-{type(e).__name__}', f'after {done}: {op} raised {type(e).__name__}: {e}', **wit())
            else:
                rec.c(f'history_{op}_raised_{type(e).__name__}')
            break
        finally:
            mon.STATE['phase'] = None
        events = mon.HIST[start:]
        from_bootstrap = bootstrapped and not restored
        if op == 'simulate':
            rec.ev()
            bad = [ev for ev in events if ev['call'] == 'simulateSeveralFormulas' and (not ev['current'] or ev.get('problems'))]
            if bad:
                cx.viol('history-engine-holds-another-map-than-the-database-when-simulate-evaluates',
                        f'after {done}: at simulateSeveralFormulas the map inside the engine (last handed over during '
                        f'{bad[0]["map_phase"]!r}) is not Database.individualMap {bad[0].get("problems")}', **wit())
            j = c09_ref.reference(spec, tab, spec['formulas']['logP'], vals)
            labels = list(sim.index)
            if len(labels) != len(groups) or set(labels) != set(groups):
                cx.viol('history-simulate-index-is-not-the-set-of-individuals', f'after {done}: rows labelled {labels[:12]}', **wit())
            elif j['ok']:
                rec.ev()
                judged += 1
                rec.c('history_simulate_judged')
                if bootstrapped:
                    rec.c('history_simulate_after_bootstrap_judged')
                want = dict(zip(j['order'], j['value'].tolist()))
                got = dict(zip(labels, np.asarray(sim['log_like'], dtype=float).tolist()))
                a = np.array([got[i] for i in j['order']])
                b = np.array([want[i] for i in j['order']])
                if not close(a, b, RTOL, ATOL):
                    worst = max(j['order'], key=lambda i: abs(got[i] - want[i]))
                    cx.viol('history-simulate-differs-from-product-over-the-rows-of-the-individual',
                            f'after {done}: simulate at {vals}: individual {worst!r} (rows {groups[worst]}): {got[worst]!r}, '
                            f'reference {want[worst]!r}; maxrel={maxrel(a, b):.3g}', simulate=got, reference=want, **wit())
            else:
                rec.c('history_reference_rejected')
            restored = True
        else:
            stale = stale_likelihood_calls(events)
            if stale:
                rec.ev()
                known = from_bootstrap and all(ev['map_phase'] == 'estimate_bootstrap' for ev in stale)
                cx.viol(KNOWN_BOOTSTRAP if known else f'history-engine-holds-another-map-than-the-database-when-{op}-evaluates',
                        f'after {done}: during {op} the likelihood was evaluated {len(stale)} time(s) with the map handed over '
                        f'during {stale[0]["map_phase"]!r} inside the engine, which is not Database.individualMap', **wit())
            if op in ('loglike', 'scaled'):
                j = c09_ref.reference(spec, tab, spec['formulas']['logP'], vals)
                if j['ok']:
                    rec.ev()
                    rec.c('history_loglike_judged')
                    if from_bootstrap:
                        rec.c('history_loglike_right_after_bootstrap_judged')
                    want = float(np.sum(j['value']))
                    if not close(ll, want, RTOL, 1e-11 * float(np.sum(np.abs(j['value']))) + 1e-12):
                        cx.viol(KNOWN_BOOTSTRAP if (from_bootstrap and stale) else 'history-loglikelihood-differs-from-sum-over-individuals',
                                f'after {done}: calculate_likelihood at {vals} = {ll!r}, log likelihood of the data set = {want!r}', **wit())
            if op == 'estimate_bootstrap':
                bootstrapped = True
                restored = False
        done.append(op)
    if judged and len(tab[spec['idcol']]) >= 2:
        rec.key(['history', spec['canon'], spec['pres_a'], spec['ops'], spec['op_values'], spec['draws'], spec['ndraws']])
    rec.c('history_cases_run')
    if len(done) == len(spec['ops']):
        rec.c('history_cases_completed')
    rec.sample({'idcol': spec['idcol'], 'table': tab, 'formula': spec['formulas']['logP'], 'operations': spec['ops'],
                'bootstrap_samples': spec['bootstrap_samples'], 'operations_completed': done})


def _judge_scaled(cx, bg, x, n_ind, n_rows, where, wit, lls=None):
    """both scaled entry points against the unscaled results divided by the number of individuals (reference groupby):
    function, gradient, Hessian, BHHH of calculate_likelihood_and_derivatives(scaled=True), and agreement with
    calculate_likelihood(scaled=True). Raises whatever the code under test raises."""
    rec = cx.rec
    fu = bg.calculate_likelihood_and_derivatives(x, scaled=False, hessian=True, bhhh=True)
    fs = bg.calculate_likelihood_and_derivatives(x, scaled=True, hessian=True, bhhh=True)
    if lls is None:
        lls = bg.calculate_likelihood(x, scaled=True)
    rec.c('scaled_derivative_entry_point_judged')
    for nm in ('function', 'gradient', 'hessian', 'bhhh'):
        u = np.asarray(getattr(fu, nm), dtype=float)
        v = np.asarray(getattr(fs, nm), dtype=float)
        if u.shape != v.shape or not np.all(np.isfinite(u)):
            rec.c('scaled_' + nm + '_not_comparable')
            continue
        rec.ev()
        mag = float(np.max(np.abs(u))) if u.size else 0.0
        if not close(v * n_ind, u, 1e-9, 1e-12 * mag + 1e-13):
            with np.errstate(all='ignore'):
                ratio = float(np.nanmedian((u / v)[np.abs(v) > 0])) if np.any(np.abs(v) > 0) else None
            cx.viol(f'scaled-{nm}-of-derivative-entry-point-not-unscaled-over-number-of-individuals',
                    f'{where}: calculate_likelihood_and_derivatives(scaled=True).{nm} = {v.tolist()!r:.300}, unscaled = '
                    f'{u.tolist()!r:.300}: ratio {ratio!r} with {n_ind} individuals and {n_rows} rows', **wit)
    rec.ev()
    fsf = float(np.asarray(fs.function))
    if not close(fsf, lls, 1e-10, 1e-13):
        cx.viol('scaled-entry-points-disagree',
                f'{where}: calculate_likelihood(scaled=True)={lls!r}, calculate_likelihood_and_derivatives(scaled=True).function='
                f'{fsf!r} ({n_ind} individuals, {n_rows} rows)', **wit)
    return float(np.asarray(fu.function))


def _judge_results_sizes(cx, results, n_ind, n_rows, where, wit):
    rec = cx.rec
    try:
        ss, no = results.data.sampleSize, results.data.numberOfObservations
    except AttributeError:
        rec.c('results_sizes_not_available')
        return
    rec.ev()
    rec.c('results_sample_size_judged')
    if ss != n_ind:
        cx.viol('results-sample-size-not-number-of-individuals', f'{where}: results.data.sampleSize={ss} for {n_ind} individuals / '
                                                                   f'{n_rows} rows', **wit)
    if no != n_rows:
        cx.viol('results-number-of-observations-not-number-of-rows', f'{where}: results.data.numberOfObservations={no} for {n_rows} rows',
                **wit)


def _contiguous(values):
    seen = set()
    prev = object()
    for v in values:
        if v != prev:
            if v in seen:
                return False
            seen.add(v)
            prev = v
    return True


def _run_redeclare(cx, case):
    """ONE Database object declared panel several times (nested id columns), optionally with evaluations, BIOGEME
    objects, remove / add_column / scale_column in between. Judged: the contracts at every declaration (map against the
    CURRENT panel column) and, for the finally declared individuals, everything _evaluate_table judges, plus agreement
    with a fresh Database declared directly on the final column. A re-declaration the library refuses with its own
    error on a table that is not contiguous for the new column (in its current row order) is counted, not judged."""
    import random as _random
    from biogeme.biogeme import BIOGEME
    from biogeme.exceptions import BiogemeError
    from biogeme.expressions import Variable
    from ..gen import c09_panel
    from ..oracle import c09_ref
    from ..oracle import c09_monitor as mon

    rec, spec = cx.rec, cx.spec
    genlog = []
    spec['idcol'] = spec['cols'][spec['sequence'][0]]
    database, tab, _ = _database(cx, 'a', genlog, declare=False)
    eb = spec['eval_betas']
    seq = spec['sequence']
    rec.c('redeclare_sequence_' + '>'.join(seq))
    for step, role in enumerate(seq):
        col = spec['cols'][role]
        spec['idcol'] = col
        mon.STATE['idcol'] = col
        contiguous = _contiguous(list(database.data[col]))
        try:
            database.panel(col)
        except BiogemeError as e:
            if contiguous:
                cx.viol('valid-panel-table-refused' + ('-on-redeclaration' if step else ''),
                        f'declaration {step} ({role}): panel({col!r}) raised BiogemeError although every individual forms one '
                        f'contiguous block in the current table: {e}', table=tab, sequence=seq)
            else:
                rec.c('redeclaration_refused_by_library_table_not_contiguous_for_new_column')
            mon.drain()
            return
        except BaseException as e:  # noqa
            cx.viol(f'panel-raises-{type(e).__name__}', f'declaration {step} ({role}): panel() raised {type(e).__name__}: {e}',
                    table=tab, sequence=seq)
            return
        rec.ev()
        rec.c('declarations_made')
        if step:
            rec.c('redeclarations_accepted')
        cx.drain(f'a, declaration {step} on {col}')
        if step == len(seq) - 1:
            break
        for act in spec['between'][step]:
            rec.c('redeclare_between_' + act['do'])
            try:
                if act['do'] == 'evaluate':
                    free = {n: eb[n] for n, (v, st) in spec['betas'].items() if st == 0}
                    _build(spec, spec['formulas']['P']).get_value_c(database=database, betas=free,
                                                                     number_of_draws=max(1, spec['ndraws']), prepare_ids=True)
                elif act['do'] == 'biogeme':
                    bg = BIOGEME(database, {'P': _build(spec, spec['formulas']['P'])}, parameters=_params(spec))
                    bg.simulate({n: eb[n] for n in bg.free_beta_names})
                elif act['do'] == 'remove':
                    database.remove(Variable(act['col']) == act['value'])
                    keep = [t for t in range(len(tab[col])) if tab[act['col']][t] != act['value']]
                    tab = {c: [v[t] for t in keep] for c, v in tab.items()}
                elif act['do'] == 'add_column':
                    database.add_column(Variable(act['col']) * 2 + 1, f'c09_new_{step}_{rec.cov.get("redeclare_between_add_column", 0)}')
                elif act['do'] == 'scale_column':
                    database.scale_column(act['col'], act['scale'])
                    tab = dict(tab)
                    tab[act['col']] = [v * act['scale'] for v in tab[act['col']]]
            except BaseException as e:  # noqa
                # intermediate evaluations are not judged; an engine error would poison the rest of the case
                rec.c(f'redeclare_between_{act["do"]}_raised_{type(e).__name__}')
                mon.drain()
                return
            cx.drain(f'a, after {act["do"]} under declaration {step} on {col}')
    # ---- the finally declared individuals ------------------------------------------------
    final = spec['idcol']
    ra = _evaluate_table(cx, 'a', prepared=(database, tab, genlog))
    # a fresh Database declared directly on the final column (blocks / rows of the current table reshuffled)
    rr = _random.Random(spec['shuffle_seed'])
    groups = c09_ref.groups_by_id(tab, final)
    gl = [list(g) for g in groups.values()]
    rr.shuffle(gl)
    perm = []
    for g in gl:
        rr.shuffle(g)
        perm += g
    tab_b = {c: [v[t] for t in perm] for c, v in tab.items()}
    genlog_b = []
    db_b, tab_b, status = _database(cx, 'b', genlog_b, table=tab_b)
    rb = _evaluate_table(cx, 'b', prepared=(db_b, tab_b, genlog_b)) if db_b is not None else None
    if ra and rb:
        rec.c('redeclared_vs_fresh_compared')
        for nm in ra['sim']:
            if nm not in rb['sim']:
                continue
            rec.ev()
            ids = sorted(ra['sim'][nm], key=float)
            va = np.array([ra['sim'][nm][i] for i in ids])
            vb = np.array([rb['sim'][nm].get(i, np.nan) for i in ids])
            if len(ra['sim'][nm]) != len(rb['sim'][nm]) or not close(va, vb, 1e-10, 1e-13):
                cx.viol('redeclared-database-differs-from-fresh-database-declared-on-the-final-column',
                        f'sequence {seq}, formula {nm}: {len(ra["sim"][nm])} values on the re-declared database, '
                        f'{len(rb["sim"][nm])} on the fresh one; first ids {ids[:6]}: {va[:6].tolist()} vs {vb[:6].tolist()}',
                        table_a=ra['tab'], sequence=seq)
        if ra['ll'] is not None and rb['ll'] is not None:
            rec.ev()
            if not close(ra['ll'], rb['ll'], 1e-10, 1e-12):
                cx.viol('redeclared-database-loglikelihood-differs-from-fresh-database-declared-on-the-final-column',
                        f'sequence {seq}: {ra["ll"]!r} vs {rb["ll"]!r}', table_a=ra['tab'], sequence=seq)
    r0 = ra or rb
    if r0:
        rec.c('redeclare_cases_judged')
        if spec['mc']:
            rec.c('redeclare_cases_judged_montecarlo')
        if seq[0] != seq[-1] or len(seq) > 2:
            rec.c('redeclare_cases_judged_with_change_of_column')
        if r0['n_rows'] >= 2:
            rec.key(['redeclare', spec['canon'], spec['pres_a'], seq, spec['between'], spec['formulas'], spec['eval_betas'],
                     spec['draws'], spec['ndraws']])
        if r0['n_ind'] >= 2 and 3 <= r0['n_rows'] <= 14:
            rec.sample({'declarations': [spec['cols'][x] for x in seq], 'between': spec['between'], 'table': r0['tab'],
                        'formula_P': spec['formulas']['P'], 'final_column': final,
                        'simulate_by_id': {repr(k): v for k, v in r0['sim'].get('P', {}).items()}})
    else:
        rec.c('redeclare_cases_without_evaluation')


def run_case(case):
    from ..gen import c09_panel
    from ..oracle import c09_monitor as mon

    if case['mode'] == 'history':
        spec = c09_panel.make_history(case['seed'], case['i'], case.get('tier', 'quick'))
    elif case['mode'] == 'redeclare':
        spec = c09_panel.make_redeclare(case['seed'], case['i'], case.get('tier', 'quick'))
    else:
        spec = c09_panel.make(case['seed'], case['i'], case.get('tier', 'quick'), case['mode'])
    rec = Rec(case)
    cx = _Ctx(rec, spec)
    mon.reset(spec['idcol'])
    rec.c('mode_' + spec['mode'])
    if spec['mode'] in ('history', 'redeclare'):
        (_run_history if spec['mode'] == 'history' else _run_redeclare)(cx, case)
        for k, v in mon.COUNT.items():
            rec.c(k, v)
        return rec.out()
    if spec['mode'] == 'outside':
        _run_outside(cx)
        for k, v in mon.COUNT.items():
            rec.c(k, v)
        return rec.out()

    ra = _evaluate_table(cx, 'a')
    rb = _evaluate_table(cx, 'b')
    # ---- metamorphic: blocks / rows inside blocks permuted ------------------------------
    if ra and rb and spec['mode'] != 'noncontig':
        for nm in ra['sim']:
            if nm not in rb['sim']:
                continue
            rec.ev()
            rec.c('permutation_partner_compared')
            ids = sorted(ra['sim'][nm], key=float)
            va = np.array([ra['sim'][nm][i] for i in ids])
            vb = np.array([rb['sim'][nm].get(i, np.nan) for i in ids])
            if not close(va, vb, 1e-10, 1e-13):
                worst = max(ids, key=lambda i: abs(ra['sim'][nm][i] - rb['sim'][nm].get(i, np.inf)))
                cx.viol('order-of-blocks-or-of-rows-inside-a-block-changes-the-value',
                        f'formula {nm}: individual {worst!r}: {ra["sim"][nm][worst]!r} on table a, {rb["sim"][nm].get(worst)!r} on table b',
                        table_a=ra['tab'], table_b=rb['tab'])
        if ra['ll'] is not None and rb['ll'] is not None:
            rec.ev()
            if not close(ra['ll'], rb['ll'], 1e-10, 1e-12):
                cx.viol('order-of-blocks-or-of-rows-inside-a-block-changes-the-loglikelihood',
                        f'log likelihood {ra["ll"]!r} on table a, {rb["ll"]!r} on table b', table_a=ra['tab'], table_b=rb['tab'])
    if spec['mode'] == 'hugeid':
        # regression of the repaired contiguity count (fix c6f7545): both block orders must be accepted and agree
        rec.c('regression_hugeid_both_orders_accepted' if (ra and rb) else 'regression_hugeid_not_fully_evaluated')
    r0 = ra or rb
    if r0:
        sizes = [len(g) for g in r0['refs']['P']['groups'].values()]
        if r0['n_rows'] >= 2:
            rec.key([spec['canon'], spec['pres_a'], spec['formulas'], spec['shared'], spec['eval_betas'], spec['draws'],
                     spec['ndraws'], spec['remove']])
        rec.c('cases_evaluated')
        rec.c('individuals_1' if r0['n_ind'] == 1 else 'individuals_2_to_12' if r0['n_ind'] <= 12
              else 'individuals_13_to_40' if r0['n_ind'] <= 40 else 'individuals_41_to_150')
        if all(s == 1 for s in sizes):
            rec.c('tables_with_singletons_only')
        if any(s == 1 for s in sizes) and any(s > 1 for s in sizes):
            rec.c('tables_mixing_singletons_and_longer_blocks')
        rec.c('max_rows_per_individual_%d' % max(sizes))
        if r0['n_rows'] > 16:
            rec.c('tables_over_16_rows')
        rec.c('ids_' + spec['id_style'])
        rec.c('index_' + spec['index_style'])
        rec.c('threads_%d' % spec['threads'])
        if spec['mc']:
            rec.c('montecarlo_cases')
            rec.c('draws_%d' % spec['ndraws'])
            rec.c('draw_variables_%d' % len(spec['draws']))
        else:
            rec.c('plain_trajectory_cases')
        if spec['remove']:
            rec.c('cases_with_rows_removed_after_panel')
        if r0['n_ind'] >= 2 and 3 <= r0['n_rows'] <= 14:  # written-out samples: small, readable, non-trivial
            rec.sample({
                'idcol': spec['idcol'], 'table_a': r0['tab'], 'formula_P': spec['formulas']['P'], 'shared': spec['shared'],
                'eval_betas': spec['eval_betas'], 'draws': spec['draws'], 'ndraws': spec['ndraws'],
                'reference_by_id': dict(zip(map(repr, r0['refs']['P']['order']), r0['refs']['P']['value'].tolist())),
                'simulate_by_id': {repr(k): v for k, v in r0['sim'].get('P', {}).items()},
            })
    else:
        rec.c('cases_without_evaluation')
    for k, v in mon.COUNT.items():
        rec.c(k, v)
    return rec.out()


def finalize(cov, tier):
    out = []
    need = [
        'contract_panel', 'contract_build_panel_map', 'contract_sample_size', 'handover_setDataMap',
        'handover_checked_simulateSeveralFormulas', 'handover_checked_calculateLikelihood',
        'handover_checked_calculateLikelihoodAndDerivatives', 'handover_checked_calculate',
        'handover_draws_checked', 'handover_sample_size_checked', 'generator_calls_seen',
        'permutation_partner_compared', 'loglikelihood_compared', 'get_value_c_compared',
        'montecarlo_cases', 'plain_trajectory_cases', 'cases_with_rows_removed_after_panel',
        'rows_removed_after_panel_api', 'rows_removed_after_panel_direct',
        'history_simulate_judged', 'history_simulate_after_bootstrap_judged', 'history_loglike_judged',
        'history_engine_map_compared_simulateSeveralFormulas', 'history_engine_map_compared_calculateLikelihood',
        'history_op_estimate', 'history_op_estimate_bootstrap', 'history_op_quick_estimate', 'history_op_scaled',
        'scaled_derivative_entry_point_judged', 'results_sample_size_judged',
        'redeclarations_accepted', 'redeclare_cases_judged', 'redeclare_cases_judged_with_change_of_column',
        'redeclare_cases_judged_montecarlo', 'redeclared_vs_fresh_compared', 'redeclare_between_evaluate',
        'redeclare_between_biogeme', 'redeclare_between_remove', 'redeclare_between_add_column', 'redeclare_between_scale_column',
        'noncontiguous_table_refused', 'outside_refused_single-formula',
        'individuals_1', 'individuals_2_to_12', 'individuals_13_to_40', 'tables_with_singletons_only',
        'tables_mixing_singletons_and_longer_blocks', 'tables_over_16_rows',
        'ids_small', 'ids_negative', 'ids_float', 'ids_large', 'ids_huge_int', 'ids_mixed',
        'index_range', 'index_shuffled', 'index_gaps',
    ]
    for k in need:
        if cov.get(k, 0) == 0:
            out.append(f'monitor / workload class never observed: {k}')
    if tier == 'thorough' and cov.get('individuals_41_to_150', 0) == 0:
        out.append('workload class never observed: individuals_41_to_150')
    if cov.get('mode_hugeid', 0) and cov.get('regression_hugeid_both_orders_accepted', 0) == 0 \
            and cov.get('valid_table_refused', 0) == 0:
        out.append('regression cases of the repaired contiguity count were never evaluated on both block orders')
    if cov.get('threads_1', 0) == 0 or sum(v for k, v in cov.items() if k.startswith('threads_') and k != 'threads_1') == 0:
        out.append('thread counts: need single- and multi-threaded evaluations')
    return out
