"""C02 — gradient, Hessian and BHHH returned with a value are its true derivatives.

Workload: seeded differentiable expression DAGs (conditions/keys on data only),
2-6 free parameters with scrambled names, small tables. Oracles: complex-step
derivatives of the independent reference evaluator; Richardson finite
differences of the ENGINE's own value, perturbed BY NAME through the betas=
dictionary; sums / outer products recomputed from the disaggregate outputs.
Observed at get_value_and_derivatives (all flag combinations, named or not,
with and without database), BIOGEME.calculate_likelihood_and_derivatives,
create_function, create_objective_function, tools.derivatives.check_derivatives.
"""
from __future__ import annotations

import random

import numpy as np

from ..rec import Rec, close, maxrel

LEVEL = 'exploration'
RULE = (
    'cases = seeded differentiable expression DAGs (no parameter under comparison/min/max/key/condition; BelongsTo '
    'excluded because the external engine refuses it under differentiation) with 1-6 free parameters whose names are '
    'not in order of appearance, on random tables of 1-8 rows; non-trivial = accepted by the reference evaluator '
    '(regular domain, well-conditioned), at least one free parameter occurring and a non-zero reference gradient; '
    'distinct = hash of (AST, shared, data, parameters)'
)
ASSUMPTIONS = [
    'complex-step differentiation of the numpy reference evaluator (machine precision first derivatives)',
    'finite-difference comparisons are only judged where the same finite-difference scheme applied to the reference '
    'evaluator reproduces the reference derivative (calibrates truncation error per case)',
]
MIN_DISTINCT = {'quick': 250, 'thorough': 4000}
CASE_TIMEOUT = 180
N = {'quick': 600, 'thorough': 9000}

G_RTOL = 1e-7
FD_G_RTOL = 1e-5
H_RTOL = 1e-5
FD_H_RTOL = 1e-4


def cases(seed, tier):
    out = [{'seed': seed, 'i': i, 'kind': 'random'} for i in range(N[tier])]
    # directed cases reproducing mechanisms seen by earlier probes (reported every run)
    out += [{'seed': seed, 'i': k, 'kind': 'nodb'} for k in range(6)]
    out += [{'seed': seed, 'i': k, 'kind': 'linutil_repeat'} for k in range(2)]
    out += [{'seed': seed, 'i': k, 'kind': 'square'} for k in range(2)]
    return out


def warmup():
    import biogeme.biogeme  # noqa
    import biogeme.expressions  # noqa
    import biogeme.database  # noqa
    import biogeme.tools.derivatives  # noqa


def _free_in(ast, shared, betas):
    from ..gen import exprs

    names = set()

    def walk(n, seen):
        if not isinstance(n, list) or not n:
            return
        if isinstance(n[0], str):
            if n[0] == 'beta':
                names.add(n[1])
                return
            if n[0] == 'linutil':
                for b, _ in n[1]:
                    names.add(b)
                return
            if n[0] == 'share':
                if n[1] not in seen:
                    seen.add(n[1])
                    walk(shared[n[1]], seen)
                return
            for x in n[1:]:
                walk(x, seen)
        else:
            for x in n:
                walk(x, seen)

    walk(ast, set())
    return sorted(n for n in names if betas[n][1] == 0)


def _linutil_repeats(node, shared, seen=None):
    """does some bioLinearUtility name the same parameter in two terms?"""
    seen = set() if seen is None else seen
    if not isinstance(node, list) or not node:
        return False
    if isinstance(node[0], str):
        if node[0] == 'linutil':
            bs = [b for b, _ in node[1]]
            return len(bs) != len(set(bs))
        if node[0] == 'share':
            if node[1] in seen:
                return False
            seen.add(node[1])
            return _linutil_repeats(shared[node[1]], shared, seen)
        return any(_linutil_repeats(x, shared, seen) for x in node[1:] if isinstance(x, list))
    return any(_linutil_repeats(x, shared, seen) for x in node if isinstance(x, list))


def _linutil_last_term_only(node, bv):
    """AST whose derivative is what an engine that keeps ONE variable per parameter of a linear
    utility would return: earlier terms of a repeated parameter are frozen to constants."""
    if isinstance(node, list):
        if node and node[0] == 'linutil':
            terms = node[1]
            out = []
            for i, (b, x) in enumerate(terms):
                later = any(b2 == b for b2, _ in terms[i + 1:])
                out.append(['mul', ['num', bv[b]] if later else ['beta', b], ['var', x]])
            return ['multsum', out, 'list']
        return [_linutil_last_term_only(x, bv) for x in node]
    return node


def _has_square(node, shared, seen=None):
    seen = set() if seen is None else seen
    if not isinstance(node, list) or not node:
        return False
    if isinstance(node[0], str):
        if node[0] == 'powc' and float(node[2]) == 2.0:
            return True
        if node[0] == 'pow' and node[2][0] == 'num' and float(node[2][1]) == 2.0:
            return True  # x ** 2.0 (raw number or Numeric) becomes PowerConstant
        if node[0] == 'share':
            if node[1] in seen:
                return False
            seen.add(node[1])
            return _has_square(shared[node[1]], shared, seen)
        return any(_has_square(x, shared, seen) for x in node[1:] if isinstance(x, list))
    return any(_has_square(x, shared, seen) for x in node if isinstance(x, list))


def _squares_as_products(node):
    """same formula with every u**2 written u*u (differential diagnosis of the engine's PowerConstant(2))"""
    if isinstance(node, list):
        if node and node[0] == 'powc' and float(node[2]) == 2.0:
            u = _squares_as_products(node[1])
            return ['mul', u, u]
        if node and node[0] == 'pow' and node[2][0] == 'num' and float(node[2][1]) == 2.0:
            u = _squares_as_products(node[1])
            return ['mul', u, u]
        return [_squares_as_products(x) for x in node]
    return node


def _relerr(a, b, floor):
    a = np.asarray(a, float)
    b = np.asarray(b, float)
    return float(np.max(np.abs(a - b) / np.maximum(np.abs(b), floor))) if a.size else 0.0


def _subst_row(node, data, row):
    if isinstance(node, list):
        if node and node[0] == 'var':
            return ['num', float(data[node[1]][row])]
        if node and node[0] == 'linutil':
            return ['multsum', [['mul', ['beta', b], ['num', float(data[x][row])]] for b, x in node[1]], 'list']
        return [_subst_row(x, data, row) for x in node]
    return node


NOT_REPRODUCIBLE = 'C02/engine-derivative-output-not-reproducible-between-identical-evaluations'


def run_case(case):
    """A derivative mismatch must reproduce when the very same case is executed again in the same
    process. The pinned engine occasionally returns arbitrary bit patterns in Hessian entries (use-after-free
    of a shared child's derivative buffers, see the ASan stage): such firings do not reproduce and are
    reported under one mechanism of their own instead of under the monitor that happened to see them."""
    out = _run_case_once(case)
    if not out['viol'] or case.get('kind') not in (None, 'random'):
        return out
    known_shapes = ('linear-utility-repeated-parameter', 'power-constant-2-hessian')
    suspicious = [v for v in out['viol'] if not any(k in v['mech'] for k in known_shapes)]
    if not suspicious:
        return out
    again = _run_case_once(case)
    mechs2 = {v['mech'] for v in again['viol']}
    # the engine's own output for the very same call: does it differ between the two executions?
    unstable = out.get('info', {}).get('engine_derivatives') != again.get('info', {}).get('engine_derivatives')
    kept, dropped = [], []
    for v in out['viol']:
        if any(k in v['mech'] for k in known_shapes):
            kept.append(v)
        elif v['mech'] not in mechs2 or (unstable and ('hessian' in v['mech'] or 'bhhh' in v['mech'])):
            dropped.append(v)
        else:
            kept.append(v)
    if dropped:
        kept.append({'mech': NOT_REPRODUCIBLE,
                     'msg': 'mismatch not reproducible: the engine output for the identical call differs between two executions of the case in one process, or the mismatch was not seen again: '
                            + '; '.join(sorted({v['mech'] for v in dropped})) + ' | first: ' + dropped[0]['msg'][:600],
                     'witness': dropped[0].get('witness')})
        out['cov']['derivative_mismatch_not_reproduced_on_reexecution'] = len(dropped)
    out['viol'] = kept
    return out


def _run_case_once(case):
    from ..gen import exprs, build
    from ..oracle import evalast
    from biogeme.exceptions import BiogemeError

    rec = Rec(case)
    rr = random.Random(f'c02/{case["seed"]}/{case["i"]}')
    if case['kind'] == 'nodb':
        return _nodb_directed(case, rec)
    if case['kind'] == 'linutil_repeat':
        spec = {'ast': ['add', ['linutil', [['zb', 'x'], ['ab', 'y'], ['zb', 'y']]], ['powc', ['beta', 'ab'], 2]] if case['i'] == 0
                else ['exp', ['linutil', [['zb', 'x'], ['zb', 'y']]]],
                'shared': [], 'data': {'x': [1.0, 2.0, -0.5], 'y': [0.5, 1.5, 2.5]}, 'betas': {'zb': [0.3, 0], 'ab': [-0.2, 0]}}
    elif case['kind'] == 'square':
        spec = {'ast': ['powc', ['exp', ['mul', ['beta', 'zb'], ['var', 'x']]], 2] if case['i'] == 0
                else ['add', ['powc', ['add', ['mul', ['beta', 'zb'], ['beta', 'ab']], ['var', 'y']], 2], ['beta', 'ab']],
                'shared': [], 'data': {'x': [1.0, 2.0, -0.5], 'y': [0.5, 1.5, 2.5]}, 'betas': {'zb': [0.3, 0], 'ab': [-0.2, 0]}}
    else:
        # favour formulas in which several free parameters really occur
        want = rr.choice([1, 2, 2, 3, 3, 4, 5, 6])
        best = None
        for t in range(12):
            cand = exprs.make_case(case['seed'], case['i'] * 16 + t, differentiable=True, nfree=max(want, rr.randint(1, 6)),
                                   max_depth=rr.randint(3, 6))
            k_ = len(_free_in(cand['ast'], cand['shared'], cand['betas']))
            if best is None or k_ > best[0]:
                best = (k_, cand)
            if k_ >= want:
                break
        spec = best[1]
    bv = {k: v[0] for k, v in spec['betas'].items()}
    j = evalast.judge(spec['ast'], spec['data'], bv, spec['shared'])
    if not j['ok']:
        rec.c('rejected_' + j['reason'].split(':')[0])
        return rec.out()
    ops = exprs.ops_in(spec['ast'], spec['shared'])
    if 'belongs' in ops:
        rec.c('skipped_belongs')
        return rec.out()
    names = _free_in(spec['ast'], spec['shared'], spec['betas'])
    if not names:
        rec.c('no_free_parameter')
        return rec.out()
    K = len(names)
    ref = j['value']
    try:
        gref = evalast.gradient(spec['ast'], spec['data'], bv, names, spec['shared'])  # (K, N)
        href, herr = evalast.hessian(spec['ast'], spec['data'], bv, names, spec['shared'], with_error=True)  # (K, K, N)
    except (evalast.OutOfDomain, KeyError):
        rec.c('rejected_perturbation_leaves_domain')
        return rec.out()
    if not (np.all(np.isfinite(gref)) and np.all(np.isfinite(href))):
        rec.c('rejected_nonfinite_reference_derivative')
        return rec.out()
    # the reference Hessian is numerical: usable only where its own error indicator is small
    href_ok = bool(np.all(herr <= 1e-7 * np.maximum(np.abs(href), 1e-3 * max(1.0, float(np.max(np.abs(href)))))))
    if not href_ok:
        rec.c('rejected_reference_hessian_not_reliable')
        return rec.out()
    nrows = len(ref)
    gscale = max(1.0, float(np.max(np.abs(gref))), float(np.max(np.abs(ref))))
    hscale = max(gscale, float(np.max(np.abs(href))))
    ncdf = 'ncdf' in ops
    g_rtol = 1e-5 if ncdf else G_RTOL
    wit = {'spec': spec, 'names': names}

    def viol(mech, msg, **kw):
        w = dict(wit)
        w.update(kw)
        rec.violation('C02/' + mech, msg, w)

    expr, _ = build.build(spec)
    db = build.database(spec)

    # ---- (7) a request for derivatives returns derivatives ------------------------------
    def call(label, **kw):
        try:
            return expr.get_value_and_derivatives(database=db, prepare_ids=True, **kw)
        except BaseException as e:
            viol(f'derivative-request-raises-{type(e).__name__}-{label}', f'{label}: {type(e).__name__}: {e}')
            return None

    r = call('disaggregate-all', aggregation=False, gradient=True, hessian=True, bhhh=True)
    if r is None:
        return rec.out()
    if r.gradients is None or r.hessians is None or r.bhhhs is None:
        viol('requested-derivative-missing', 'gradient/hessian/bhhh requested but None returned')
        return rec.out()
    f = np.asarray(r.functions, float)
    g = np.asarray(r.gradients, float)  # (N, K)
    h = np.asarray(r.hessians, float)  # (N, K, K)
    b = np.asarray(r.bhhhs, float)
    if g.shape != (nrows, K) or h.shape != (nrows, K, K) or b.shape != (nrows, K, K):
        viol('derivative-shapes', f'shapes g{g.shape} h{h.shape} b{b.shape} for N={nrows} K={K}')
        return rec.out()
    rec.info['engine_derivatives'] = [repr(g.tolist()), repr(h.tolist()), repr(b.tolist())]
    first_output_snapshot = [np.array(a, dtype=float, copy=True) for a in (r.functions, r.gradients, r.hessians, r.bhhhs)]
    nonzero = float(np.max(np.abs(gref))) > 1e-12
    if nonzero:
        rec.key([spec['ast'], spec['shared'], spec['data'], spec['betas']])
    rec.c(f'K_{K}')
    for o in ops:
        rec.c('op_' + o)
    rec.sample({'ast': spec['ast'], 'shared': spec['shared'], 'betas': spec['betas'], 'free_sorted': names,
                'reference_gradient_row0': gref[:, 0], 'engine_gradient_row0': g[0]})

    # ---- structural classification: bioLinearUtility naming one parameter in two terms ----------
    if _linutil_repeats(spec['ast'], spec['shared']):
        rec.ev()
        rec.c('linutil_repeated_parameter_cases')
        if not close(g.T, gref, g_rtol, g_rtol * gscale * 1e-2):
            alt_ast = _linutil_last_term_only(spec['ast'], bv)
            alt_sh = [_linutil_last_term_only(a, bv) for a in spec['shared']]
            try:
                galt = evalast.gradient(alt_ast, spec['data'], bv, names, alt_sh)
            except Exception:
                galt = None
            if galt is not None and close(g.T, galt, g_rtol, g_rtol * gscale * 1e-2):
                viol('linear-utility-repeated-parameter-gradient-keeps-one-term',
                     f'bioLinearUtility with a parameter in two terms: engine gradient {g.T.tolist()} is the derivative '
                     f'with only the last term of that parameter kept ({galt.tolist()}); true gradient {gref.tolist()}')
                return rec.out()
        else:
            return rec.out()  # derivative correct here (e.g. parameter fixed): nothing more to learn from this shape

    # ---- (1a) gradient vs complex-step reference, entry i <-> i-th sorted name -------------------
    rec.ev()
    if not close(g.T, gref, g_rtol, g_rtol * gscale * 1e-2):
        # is it a permutation of the right answer?  (names vs positions)
        perm = K > 1 and close(np.sort(g.T, axis=0), np.sort(gref, axis=0), g_rtol, g_rtol * gscale * 1e-2)
        viol('gradient-is-permutation-of-reference' if perm else 'gradient-differs-from-reference',
             f'engine gradient {g.tolist()} vs reference {gref.T.tolist()} (names {names})')
    if not close(f, ref, 1e-6 if ncdf else 1e-9, 1e-8 if ncdf else 1e-11):
        viol('value-with-derivatives-differs', f'{f.tolist()} vs {ref.tolist()}')

    # ---- (1b) gradient vs Richardson FD of the ENGINE's own value, perturbed by NAME --------
    def engine_value(bdict):
        return np.asarray(expr.get_value_c(database=db, prepare_ids=True, betas=bdict), float)

    def richardson(fun, nm, hstep):
        def cd(hh):
            bp = dict(bv)
            bm = dict(bv)
            bp[nm] = bv[nm] + hh
            bm[nm] = bv[nm] - hh
            return (fun(bp) - fun(bm)) / (2 * hh)

        return (4 * cd(hstep / 2) - cd(hstep)) / 3

    def ref_value(bdict):
        v, _ = evalast.evaluate(spec['ast'], spec['data'], bdict, spec['shared'])
        return v

    fd_ok = True
    gfd = np.zeros((K, nrows))
    gfd_ref = np.zeros((K, nrows))
    try:
        for k, nm in enumerate(names):
            hstep = 1e-3 * max(1.0, abs(bv[nm]))
            gfd_ref[k] = richardson(ref_value, nm, hstep)
        # calibrate: does this FD scheme reproduce the reference derivative on the reference function?
        if not close(gfd_ref, gref, FD_G_RTOL / 20, FD_G_RTOL / 20 * gscale):
            fd_ok = False
            rec.c('fd_scheme_not_accurate_for_case')
        else:
            for k, nm in enumerate(names):
                hstep = 1e-3 * max(1.0, abs(bv[nm]))
                gfd[k] = richardson(engine_value, nm, hstep)
    except (evalast.OutOfDomain, KeyError):
        fd_ok = False
        rec.c('fd_leaves_domain')
    except BaseException as e:
        fd_ok = False
        viol(f'get_value_c-betas-raises-{type(e).__name__}', str(e))
    if fd_ok:
        rec.ev()
        rec.c('fd_of_engine_value_compared')
        if not close(g.T, gfd, FD_G_RTOL, FD_G_RTOL * gscale):
            viol('gradient-differs-from-finite-difference-of-engine-value',
                 f'engine gradient {g.T.tolist()} vs FD of engine value by name {gfd.tolist()} (names {names})')

    # ---- (2) Hessian: symmetry, vs reference, vs FD of engine gradient ----------------------------
    rec.ev()
    asym = np.max(np.abs(h - np.transpose(h, (0, 2, 1)))) if h.size else 0.0
    if asym > 1e-12 * max(1.0, float(np.max(np.abs(h)))):
        viol('hessian-asymmetric', f'max |H - H^T| = {asym}')
    href_nkk = np.transpose(href, (2, 0, 1))
    # reference hessian is itself FD of the complex-step gradient: accuracy ~1e-8 relative to scale
    hess_trust = True
    if not close(h, href_nkk, H_RTOL, H_RTOL * hscale):
        explained = False
        if _has_square(spec['ast'], spec['shared']):
            # differential diagnosis: does the discrepancy vanish when u**2 is written u*u ?
            s2 = dict(spec)
            s2['ast'] = _squares_as_products(spec['ast'])
            s2['shared'] = [_squares_as_products(a) for a in spec['shared']]
            try:
                e2, _ = build.build(s2)
                r2 = e2.get_value_and_derivatives(database=db, prepare_ids=True, aggregation=False, gradient=True,
                                                  hessian=True, bhhh=False)
                h2 = np.asarray(r2.hessians, float)
                if close(h2, href_nkk, H_RTOL, H_RTOL * hscale) and close(np.asarray(r2.gradients, float), g, 1e-9, 1e-11 * gscale):
                    explained = True
            except BaseException:
                pass
        if explained:
            hess_trust = False
            rec.c('square_hessian_cases')
            viol('power-constant-2-hessian-wrong-when-base-has-curvature',
                 f'Hessian of u**2 with u nonlinear in the parameters: engine {h.tolist()} vs reference {href_nkk.tolist()}; '
                 f'the same formula written u*u gives the reference Hessian')
        else:
            viol('hessian-differs-from-reference', f'engine {h.tolist()} vs reference {href_nkk.tolist()}')
    if not hess_trust:
        return rec.out()
    if K <= 4 and case['i'] % 2 == 0:
        try:
            hfd = np.zeros((nrows, K, K))
            for k, nm in enumerate(names):
                hstep = 1e-4 * max(1.0, abs(bv[nm]))
                bp = dict(bv)
                bm = dict(bv)
                bp[nm] = bv[nm] + hstep
                bm[nm] = bv[nm] - hstep
                gp = np.asarray(expr.get_value_and_derivatives(database=db, prepare_ids=True, betas=bp, aggregation=False,
                                                               gradient=True, hessian=False, bhhh=False).gradients, float)
                gm = np.asarray(expr.get_value_and_derivatives(database=db, prepare_ids=True, betas=bm, aggregation=False,
                                                               gradient=True, hessian=False, bhhh=False).gradients, float)
                hfd[:, :, k] = (gp - gm) / (2 * hstep)
            # calibrate with reference
            if close(hfd, href_nkk, FD_H_RTOL / 2, FD_H_RTOL / 2 * hscale) or close(h, hfd, FD_H_RTOL, FD_H_RTOL * hscale):
                rec.ev()
                rec.c('fd_of_engine_gradient_compared')
                if not close(h, hfd, FD_H_RTOL, FD_H_RTOL * hscale):
                    viol('hessian-differs-from-finite-difference-of-engine-gradient', f'{h.tolist()} vs {hfd.tolist()}')
            else:
                # FD of engine gradient agrees neither with reference nor with the engine hessian
                if close(h, href_nkk, H_RTOL, H_RTOL * hscale):
                    rec.c('fd_h_scheme_not_accurate_for_case')
                else:
                    viol('hessian-differs-from-finite-difference-of-engine-gradient', f'{h.tolist()} vs {hfd.tolist()}')
        except BaseException as e:
            viol(f'derivative-request-raises-{type(e).__name__}-gradient-only-betas', str(e))

    # ---- (3) BHHH = outer products; (4) aggregates = sums ---------------------------------------
    rec.ev()
    outer = np.einsum('ni,nj->nij', g, g)
    if not close(b, outer, 1e-10, 1e-12 * max(1.0, float(np.max(np.abs(outer))))):
        viol('bhhh-not-outer-product-of-observation-gradient', f'{b.tolist()} vs {outer.tolist()}')
    ra = call('aggregate-all', aggregation=True, gradient=True, hessian=True, bhhh=True)
    if ra is not None:
        rec.ev()
        tol = dict(rtol=1e-10, atol=1e-12)
        if ra.gradient is None or ra.hessian is None or ra.bhhh is None:
            viol('requested-derivative-missing', 'aggregate: None returned')
        else:
            if not close(ra.function, f.sum(), 1e-10, 1e-12 * max(1.0, np.abs(f).sum())):
                viol('aggregate-value-not-sum', f'{ra.function} vs {f.sum()}')
            if not close(ra.gradient, g.sum(axis=0), 1e-10, 1e-12 * max(1.0, np.abs(g).sum())):
                viol('aggregate-gradient-not-sum', f'{np.asarray(ra.gradient).tolist()} vs {g.sum(axis=0).tolist()}')
            if not close(ra.hessian, h.sum(axis=0), 1e-10, 1e-12 * max(1.0, np.abs(h).sum())):
                viol('aggregate-hessian-not-sum', f'{np.asarray(ra.hessian).tolist()} vs {h.sum(axis=0).tolist()}')
            if not close(ra.bhhh, outer.sum(axis=0), 1e-10, 1e-12 * max(1.0, np.abs(outer).sum())):
                viol('aggregate-bhhh-not-sum-of-outer-products', f'{np.asarray(ra.bhhh).tolist()} vs {outer.sum(axis=0).tolist()}')

    # ---- flag combinations: same numbers, None exactly where not requested ----------------
    for gg, hh, bb in ((True, False, False), (True, True, False), (True, False, True)):
        for agg in (True, False):
            if (case['i'] + gg + 2 * hh + 4 * bb + agg) % 3:
                continue
            rc = call(f'flags-{int(hh)}{int(bb)}-agg{int(agg)}', aggregation=agg, gradient=gg, hessian=hh, bhhh=bb)
            if rc is None:
                continue
            rec.ev()
            rec.c(f'flags_g1h{int(hh)}b{int(bb)}_agg{int(agg)}')
            got_g = rc.gradient if agg else rc.gradients
            got_h = rc.hessian if agg else rc.hessians
            got_b = rc.bhhh if agg else rc.bhhhs
            exp_g = g.sum(axis=0) if agg else g
            exp_h = h.sum(axis=0) if agg else h
            exp_b = outer.sum(axis=0) if agg else outer
            if got_g is None or not close(got_g, exp_g, 1e-10, 1e-12 * gscale * nrows):
                viol('flag-combination-changes-gradient', f'h={hh} b={bb} agg={agg}')
            if hh and (got_h is None or not close(got_h, exp_h, 1e-10, 1e-12 * hscale * nrows)):
                viol('flag-combination-changes-hessian', f'h={hh} b={bb} agg={agg}')
            if bb and (got_b is None or not close(got_b, exp_b, 1e-10, 1e-12 * gscale * gscale * nrows)):
                viol('flag-combination-changes-bhhh', f'h={hh} b={bb} agg={agg}')
            if (not hh and got_h is not None) or (not bb and got_b is not None):
                viol('unrequested-derivative-returned', f'h={hh} b={bb} agg={agg}')

    # ---- (5) named results ---------------------------------------------------------------
    rn = call('named-disaggregate', aggregation=False, gradient=True, hessian=True, bhhh=True, named_results=True)
    if rn is not None:
        rec.ev()
        rec.c('named_results_compared')
        try:
            for n_ in range(nrows):
                gd = rn.gradients[n_]
                if sorted(gd) != names:
                    viol('named-results-keys', f'{sorted(gd)} vs {names}')
                    break
                for k, nm in enumerate(names):
                    if not close(gd[nm], gref[k, n_], g_rtol, g_rtol * gscale * 1e-2):
                        viol('named-gradient-entry-under-wrong-name', f'row {n_} name {nm}: {gd[nm]} vs {gref[k, n_]}')
                        raise StopIteration
                    for l, nm2 in enumerate(names):
                        if not close(rn.hessians[n_][nm][nm2], href[k, l, n_], H_RTOL, H_RTOL * hscale):
                            viol('named-hessian-entry-under-wrong-name', f'row {n_} ({nm},{nm2})')
                            raise StopIteration
                        if not close(rn.bhhhs[n_][nm][nm2], outer[n_, k, l], 1e-9, 1e-11 * gscale * gscale):
                            viol('named-bhhh-entry-under-wrong-name', f'row {n_} ({nm},{nm2})')
                            raise StopIteration
        except StopIteration:
            pass
        except BaseException as e:
            viol(f'named-results-access-raises-{type(e).__name__}', str(e))
    rna = call('named-aggregate', aggregation=True, gradient=True, hessian=True, bhhh=True, named_results=True)
    if rna is not None:
        rec.ev()
        try:
            if sorted(rna.gradient) != names:
                viol('named-results-keys', f'{sorted(rna.gradient)} vs {names}')
            else:
                for k, nm in enumerate(names):
                    if not close(rna.gradient[nm], gref[k].sum(), g_rtol * 10, g_rtol * gscale * nrows):
                        viol('named-gradient-entry-under-wrong-name', f'aggregate name {nm}: {rna.gradient[nm]} vs {gref[k].sum()}')
        except BaseException as e:
            viol(f'named-results-access-raises-{type(e).__name__}', str(e))

    # ---- the first output object must still read what it read when it was returned -------------------
    rec.ev()
    rec.c('earlier_expression_output_rechecked')
    for label, a, b_ in zip(('functions', 'gradients', 'hessians', 'bhhhs'), first_output_snapshot,
                            (r.functions, r.gradients, r.hessians, r.bhhhs)):
        if not np.array_equal(a, np.asarray(b_, dtype=float), equal_nan=True):
            viol(f'expression-output-{label}-changed-by-a-later-call', f'{label} of the first output changed after later evaluations')

    # ---- BIOGEME.calculate_likelihood_and_derivatives, create_function, objective, check_derivatives ---
    if case['i'] % 2 == 0:
        _biogeme_paths(rec, viol, spec, names, bv, ref, gref, href, outer, gscale, hscale, g_rtol, nrows, rr)
    if case['i'] % 4 in (1, 2):
        _inside_larger_model(rec, viol, spec, names, bv, ref, gref, href, outer, gscale, hscale, g_rtol, nrows, rr)

    # ---- without database: single value path -----------------------------------------------
    if case['i'] % 2 == 1:
        _nodb(rec, viol, spec, names, bv, ref, gref, href, gscale, hscale, g_rtol, row=rr.randrange(nrows))
    return rec.out()


def _biogeme_paths(rec, viol, spec, names, bv, ref, gref, href, outer, gscale, hscale, g_rtol, nrows, rr):
    from ..gen import build
    from biogeme.biogeme import BIOGEME
    from biogeme.parameters import Parameters
    from biogeme.tools.derivatives import check_derivatives

    K = len(names)
    x = [bv[n] for n in names]
    gsum = gref.sum(axis=1)
    hsum = href.sum(axis=2)
    try:
        e2, _ = build.build(spec)
        bg = BIOGEME(build.database(spec), e2, parameters=Parameters())
        bg.save_iterations = False
        reported = list(bg.free_beta_names)
    except BaseException as e:
        viol(f'BIOGEME-construction-raises-{type(e).__name__}', str(e))
        return
    if reported != names:
        viol('reported-free-parameter-list-not-sorted-names', f'{reported} vs {names}')
        return
    # every flag combination of the likelihood entry point: the requested matrices must be the same numbers
    for scaled in (False, True):
        d_ = float(nrows) if scaled else 1.0
        for hh, bb in ((True, False), (False, True), (False, False)):
            try:
                rf = bg.calculate_likelihood_and_derivatives(x, scaled=scaled, hessian=hh, bhhh=bb)
            except BaseException as e:
                viol(f'calculate_likelihood_and_derivatives-raises-{type(e).__name__}', f'scaled={scaled} hessian={hh} bhhh={bb}: {e}')
                continue
            rec.ev()
            rec.c(f'likelihood_flags_scaled{int(scaled)}_h{int(hh)}_b{int(bb)}')
            if not close(rf.function, ref.sum() / d_, 1e-6, 1e-8 * max(1.0, np.abs(ref).sum())):
                viol('likelihood-value-differs-for-flag-combination', f'scaled={scaled} hessian={hh} bhhh={bb}: {rf.function} vs {ref.sum() / d_}')
            if not close(rf.gradient, gsum / d_, g_rtol * 10, g_rtol * gscale * nrows):
                viol('likelihood-gradient-differs-for-flag-combination', f'scaled={scaled} hessian={hh} bhhh={bb}: {np.asarray(rf.gradient).tolist()} vs {(gsum / d_).tolist()}')
            if hh and not close(rf.hessian, hsum / d_, H_RTOL * 10, H_RTOL * hscale * nrows):
                viol('likelihood-hessian-differs-for-flag-combination',
                     f'scaled={scaled} hessian={hh} bhhh={bb}: {np.asarray(rf.hessian).tolist()} vs {(hsum / d_).tolist()}')
            if bb and not close(rf.bhhh, outer.sum(axis=0) / d_, 1e-6, 1e-8 * gscale * gscale * nrows):
                viol('likelihood-bhhh-differs-for-flag-combination', f'scaled={scaled} hessian={hh} bhhh={bb}')
    for scaled in (False, True):
        try:
            r = bg.calculate_likelihood_and_derivatives(x, scaled=scaled, hessian=True, bhhh=True)
        except BaseException as e:
            viol(f'calculate_likelihood_and_derivatives-raises-{type(e).__name__}', str(e))
            return
        rec.ev()
        rec.c('biogeme_likelihood_derivatives_compared')
        d = float(nrows) if scaled else 1.0
        if not close(r.function, ref.sum() / d, 1e-6, 1e-8 * max(1.0, np.abs(ref).sum())):
            viol('likelihood-value-differs', f'scaled={scaled}: {r.function} vs {ref.sum() / d}')
        if not close(r.gradient, gsum / d, g_rtol * 10, g_rtol * gscale * nrows):
            perm = K > 1 and close(np.sort(np.asarray(r.gradient)), np.sort(gsum / d), g_rtol * 10, g_rtol * gscale * nrows)
            viol('likelihood-gradient-is-permutation' if perm else 'likelihood-gradient-differs',
                 f'scaled={scaled}: {np.asarray(r.gradient).tolist()} vs {(gsum / d).tolist()} names={names}')
        if not close(r.hessian, hsum / d, H_RTOL * 10, H_RTOL * hscale * nrows):
            viol('likelihood-hessian-differs', f'scaled={scaled}: {np.asarray(r.hessian).tolist()} vs {(hsum / d).tolist()}')
        if not close(r.bhhh, outer.sum(axis=0) / d, 1e-6, 1e-8 * gscale * gscale * nrows):
            viol('likelihood-bhhh-differs', f'scaled={scaled}')
    # results handed out earlier must not be changed by later calls on the same object (no shared buffers)
    try:
        r1 = bg.calculate_likelihood_and_derivatives(x, scaled=False, hessian=True, bhhh=True)
        snap = [float(r1.function)] + [np.array(a, dtype=float, copy=True) for a in (r1.gradient, r1.hessian, r1.bhhh)]
        for step in (0.11, -0.07):
            x_other = [v + step * (k + 1) for k, v in enumerate(x)]
            try:
                bg.calculate_likelihood_and_derivatives(x_other, scaled=False, hessian=True, bhhh=True)
                bg.calculate_likelihood_and_derivatives(x_other, scaled=True, hessian=True, bhhh=False)
                bg.calculate_likelihood(x_other, scaled=False)
            except BaseException:
                break  # the other point may leave the domain: nothing to learn
        rec.ev()
        rec.c('earlier_result_rechecked_after_later_calls')
        now = [float(r1.function)] + [np.asarray(a, dtype=float) for a in (r1.gradient, r1.hessian, r1.bhhh)]
        for label, a, b_ in zip(('value', 'gradient', 'hessian', 'bhhh'), snap, now):
            if not np.array_equal(np.asarray(a), np.asarray(b_), equal_nan=True):
                viol(f'likelihood-result-{label}-changed-by-a-later-call-on-the-same-object',
                     f'{label} of the result obtained at x={x} was {np.asarray(a).tolist()} and reads {np.asarray(b_).tolist()} '
                     f'after later evaluations at other points')
    except BaseException as e:
        viol(f'calculate_likelihood_and_derivatives-raises-{type(e).__name__}', str(e))
    # create_function (named outputs by sorted name)
    try:
        e3, _ = build.build(spec)
        db3 = build.database(spec)
        fun = e3.create_function(database=db3, gradient=True, hessian=True, bhhh=True)
        out = fun(np.array(x))
        rec.ev()
        rec.c('create_function_compared')
        if sorted(out.gradient) != names:
            viol('create_function-names', f'{sorted(out.gradient)} vs {names}')
        else:
            gv = np.array([out.gradient[n] for n in names])
            if not close(gv, gsum, g_rtol * 10, g_rtol * gscale * nrows):
                viol('create_function-gradient-differs', f'{gv.tolist()} vs {gsum.tolist()}')
            hv = np.array([[out.hessian[a][b_] for b_ in names] for a in names])
            if not close(hv, hsum, H_RTOL * 10, H_RTOL * hscale * nrows):
                viol('create_function-hessian-differs', f'{hv.tolist()} vs {hsum.tolist()}')
        kept_snapshot = (float(out.function), {n: float(out.gradient[n]) for n in names},
                         {a: {b_: float(out.hessian[a][b_]) for b_ in names} for a in names})
        # a different point, to see that x is really used positionally in sorted-name order
        x2 = [v + rr.uniform(-0.05, 0.05) for v in x]
        from ..oracle import evalast

        bv2 = dict(bv)
        bv2.update(dict(zip(names, x2)))
        try:
            v2, _ = evalast.evaluate(spec['ast'], spec['data'], bv2, spec['shared'])
            g2 = evalast.gradient(spec['ast'], spec['data'], bv2, names, spec['shared']).sum(axis=1)
            out2 = fun(np.array(x2))
            rec.ev()
            if not close(out2.function, v2.sum(), 1e-6, 1e-8 * max(1.0, np.abs(v2).sum())):
                viol('create_function-value-at-x-differs', f'{out2.function} vs {v2.sum()}')
            gv2 = np.array([out2.gradient[n] for n in names])
            if not close(gv2, g2, g_rtol * 10, g_rtol * gscale * nrows):
                viol('create_function-gradient-at-x-differs', f'{gv2.tolist()} vs {g2.tolist()}')
            # the output object obtained at x must still read what it read before the call at x2
            rec.ev()
            rec.c('earlier_create_function_output_rechecked')
            now = (float(out.function), {n: float(out.gradient[n]) for n in names},
                   {a: {b_: float(out.hessian[a][b_]) for b_ in names} for a in names})
            if now != kept_snapshot:
                viol('create_function-output-changed-by-a-later-call', f'{kept_snapshot} became {now}')
        except evalast.OutOfDomain:
            pass
        # user-facing finite-difference self check
        if K <= 4:
            fun2 = e3.create_function(database=db3, gradient=True, hessian=True, bhhh=False)
            fv, gv_, hv_, gdiff, hdiff = check_derivatives(fun2, np.array(x), names=names)
            rec.ev()
            rec.c('check_derivatives_compared')
            # its forward differences have O(sqrt(eps)) relative noise
            if np.max(np.abs(gdiff)) > 1e-4 * max(1.0, gscale * nrows, float(np.max(np.abs(hsum)))):
                viol('check_derivatives-reports-gradient-error-on-correct-derivatives', f'gdiff={np.asarray(gdiff).tolist()}')
    except BaseException as e:
        viol(f'create_function-raises-{type(e).__name__}', str(e))
    # create_objective_function
    try:
        e4, _ = build.build(spec)
        obj = e4.create_objective_function(database=build.database(spec))
        obj.set_variables(np.array(x))
        fo = obj.f()
        fg = obj.f_g()
        fgh = obj.f_g_h()
        rec.ev()
        rec.c('objective_function_compared')
        if not close(fo, ref.sum(), 1e-6, 1e-8 * max(1.0, np.abs(ref).sum())):
            viol('objective-value-differs', f'{fo} vs {ref.sum()}')
        if not close(fg.gradient, gsum, g_rtol * 10, g_rtol * gscale * nrows):
            viol('objective-gradient-differs', f'{np.asarray(fg.gradient).tolist()} vs {gsum.tolist()}')
        if not close(fgh.hessian, hsum, H_RTOL * 10, H_RTOL * hscale * nrows):
            viol('objective-hessian-differs', f'{np.asarray(fgh.hessian).tolist()} vs {hsum.tolist()}')
    except BaseException as e:
        viol(f'create_objective_function-raises-{type(e).__name__}', str(e))


def _inside_larger_model(rec, viol, spec, names, bv, ref, gref, href, outer, gscale, hscale, g_rtol, nrows, rr):
    """The formula evaluated under the numbering of a LARGER model: after a BIOGEME object was built on {formula, other
    formula}, the formula's id manager also holds free parameters the formula does not contain (sorting before, between and
    after its own). Derivatives reported under a name must still be the derivatives w.r.t. that name (0 for a parameter the
    formula does not contain); raw arrays are laid out by the model's sorted names."""
    from ..gen import build
    import biogeme.expressions as ex
    from biogeme.biogeme import BIOGEME
    from biogeme.parameters import Parameters

    taken = set(spec['betas'])
    mid = sorted(names)[len(names) // 2]
    cands = [c for c in ('0_first', 'AAA_before', mid + '_after_' + mid, mid[:1] + '_', '~last', 'zzz_last') if c not in taken]
    extra = [c for c in cands if rr.random() < 0.6] or [cands[0]]
    xv = {nm: round(rr.uniform(0.3, 1.2), 3) for nm in extra}
    try:
        e2, _ = build.build(spec)
        db = build.database(spec)
        xb = [ex.Beta(nm, xv[nm], None, None, 0) for nm in extra]
        other = xb[0] * 1.5
        for q in xb[1:]:
            other = other + q * q
        bg = BIOGEME(db, {'log_like': e2, 'other': other}, parameters=Parameters())
        bg.save_iterations = False
        allnames = list(bg.free_beta_names)
    except BaseException as e:
        viol(f'BIOGEME-construction-raises-{type(e).__name__}', f'larger model: {e}')
        return
    if allnames != sorted(names + extra):
        viol('reported-free-parameter-list-not-sorted-names', f'larger model: {allnames} vs {sorted(names + extra)}')
        return
    pos = {nm: k for k, nm in enumerate(allnames)}
    own = {nm: k for k, nm in enumerate(names)}
    KA = len(allnames)
    gfull = np.zeros((KA, nrows))
    hfull = np.zeros((KA, KA, nrows))
    for a in names:
        gfull[pos[a]] = gref[own[a]]
        for b_ in names:
            hfull[pos[a], pos[b_]] = href[own[a], own[b_]]
    bfull = np.einsum('an,bn->nab', gfull, gfull)
    wit = {'extra_parameters': xv, 'model_names': allnames}
    for agg in (False, True):
        try:
            rn = e2.get_value_and_derivatives(database=db, prepare_ids=False, aggregation=agg, gradient=True, hessian=True, bhhh=True,
                                              named_results=True)
            rr_ = e2.get_value_and_derivatives(database=db, prepare_ids=False, aggregation=agg, gradient=True, hessian=True, bhhh=True)
        except BaseException as e:
            viol(f'derivative-request-raises-{type(e).__name__}-inside-larger-model', f'agg={agg}: {e}', **wit)
            continue
        rec.ev()
        rec.c('inside_larger_model_named_compared')
        try:
            rows = [None] if agg else range(nrows)
            for n_ in rows:
                gd = rn.gradient if agg else rn.gradients[n_]
                hd = rn.hessian if agg else rn.hessians[n_]
                bd = rn.bhhh if agg else rn.bhhhs[n_]
                graw = np.asarray(rr_.gradient if agg else rr_.gradients[n_], float)
                hraw = np.asarray(rr_.hessian if agg else rr_.hessians[n_], float)
                sel = (lambda a: a.sum(axis=-1)) if agg else (lambda a: a[..., n_])
                gt, ht = sel(gfull), sel(hfull)
                bt = bfull.sum(axis=0) if agg else bfull[n_]
                m = nrows if agg else 1
                if sorted(gd) != allnames:
                    viol('named-results-keys', f'inside larger model: {sorted(gd)} vs {allnames}', **wit)
                    raise StopIteration
                if graw.shape != (KA,) or not close(graw, gt, g_rtol * 10, g_rtol * gscale * m):
                    viol('gradient-differs-from-reference-inside-larger-model', f'agg={agg} row {n_}: raw {graw.tolist()} vs {gt.tolist()} '
                         f'(model names {allnames})', **wit)
                    raise StopIteration
                if hraw.shape != (KA, KA) or not close(hraw, ht, H_RTOL * 10, H_RTOL * hscale * m):
                    viol('hessian-differs-from-reference-inside-larger-model', f'agg={agg} row {n_}', **wit)
                    raise StopIteration
                for a in allnames:
                    if not close(gd[a], gt[pos[a]], g_rtol * 10, g_rtol * gscale * m):
                        viol('named-gradient-entry-under-wrong-name', f'inside larger model, agg={agg} row {n_}: gradient[{a!r}] = {gd[a]} but d value / d {a} = '
                             f'{gt[pos[a]]} (model names {allnames}, formula contains {names})', **wit)
                        raise StopIteration
                    for b_ in allnames:
                        if not close(hd[a][b_], ht[pos[a], pos[b_]], H_RTOL * 10, H_RTOL * hscale * m):
                            viol('named-hessian-entry-under-wrong-name', f'inside larger model, agg={agg} row {n_} ({a},{b_}): {hd[a][b_]} vs '
                                 f'{ht[pos[a], pos[b_]]}', **wit)
                            raise StopIteration
                        if not close(bd[a][b_], bt[pos[a], pos[b_]], 1e-6, 1e-8 * gscale * gscale * m):
                            viol('named-bhhh-entry-under-wrong-name', f'inside larger model, agg={agg} row {n_} ({a},{b_}): {bd[a][b_]} vs '
                                 f'{bt[pos[a], pos[b_]]}', **wit)
                            raise StopIteration
        except StopIteration:
            pass
        except BaseException as e:
            viol(f'named-results-access-raises-{type(e).__name__}', f'inside larger model: {e}', **wit)
    # create_function on the formula re-uses the model's numbering: x has the model's length
    try:
        fun = e2.create_function(database=db, gradient=True, hessian=True, bhhh=True)
        x = [bv[nm] if nm in bv else xv[nm] for nm in allnames]
        out = fun(np.array(x))
        rec.ev()
        rec.c('inside_larger_model_create_function_compared')
        if sorted(out.gradient) != allnames:
            viol('create_function-names', f'inside larger model: {sorted(out.gradient)} vs {allnames}', **wit)
        else:
            gs, hs = gfull.sum(axis=1), hfull.sum(axis=2)
            if not close(out.function, ref.sum(), 1e-6, 1e-8 * max(1.0, np.abs(ref).sum())):
                viol('create_function-value-at-x-differs', f'inside larger model: {out.function} vs {ref.sum()}', **wit)
            for a in allnames:
                if not close(out.gradient[a], gs[pos[a]], g_rtol * 10, g_rtol * gscale * nrows):
                    viol('create_function-gradient-differs', f'inside larger model: gradient[{a!r}] = {out.gradient[a]} but d value / d {a} = {gs[pos[a]]} '
                         f'(model names {allnames}, formula contains {names})', **wit)
                    break
                if any(not close(out.hessian[a][b_], hs[pos[a], pos[b_]], H_RTOL * 10, H_RTOL * hscale * nrows) for b_ in allnames):
                    viol('create_function-hessian-differs', f'inside larger model: row {a}', **wit)
                    break
    except BaseException as e:
        viol(f'create_function-raises-{type(e).__name__}', f'inside larger model: {e}', **wit)


def _nodb(rec, viol, spec, names, bv, ref, gref, href, gscale, hscale, g_rtol, row):
    """data-free version of one row: the single-value path (no database)."""
    from ..gen import build

    s0 = dict(spec)
    s0['ast'] = _subst_row(spec['ast'], spec['data'], row)
    s0['shared'] = [_subst_row(a, spec['data'], row) for a in spec['shared']]
    K = len(names)
    for agg in (True, False):
        e0, _ = build.build(s0)
        label = 'nodatabase-aggregate' if agg else 'nodatabase-disaggregate'
        try:
            r = e0.get_value_and_derivatives(prepare_ids=True, aggregation=agg, gradient=True, hessian=True, bhhh=True)
        except BaseException as e:
            viol(f'{label}-raises-{type(e).__name__}', f'K={K}: {e}', row=row)
            continue
        rec.ev()
        rec.c('nodatabase_compared')
        if r.gradient is None or r.hessian is None or r.bhhh is None:
            viol(f'{label}-requested-derivative-missing',
                 f'gradient={r.gradient} hessian={r.hessian} bhhh={r.bhhh} although requested (reference gradient {gref[:, row].tolist()})', row=row)
            continue
        if not close(r.function, ref[row], 1e-6, 1e-8):
            viol(f'{label}-value-differs', f'{r.function} vs {ref[row]}', row=row)
        if not close(r.gradient, gref[:, row], g_rtol, g_rtol * gscale * 1e-2):
            viol(f'{label}-gradient-differs', f'{np.asarray(r.gradient).tolist()} vs {gref[:, row].tolist()}', row=row)
        if not close(r.hessian, href[:, :, row], H_RTOL, H_RTOL * hscale):
            viol(f'{label}-hessian-differs', f'{np.asarray(r.hessian).tolist()}', row=row)
        outer_row = np.outer(gref[:, row], gref[:, row])
        if not close(r.bhhh, outer_row, 1e-6, 1e-8 * gscale * gscale):
            viol(f'{label}-bhhh-differs-from-outer-product-of-gradient', f'{np.asarray(r.bhhh).tolist()} vs {outer_row.tolist()}', row=row)
        # every flag combination: what is requested is returned (the same numbers), what is not requested is not
        for hh, bb in ((True, False), (False, True), (False, False)):
            try:
                e1, _ = build.build(s0)
                r1 = e1.get_value_and_derivatives(prepare_ids=True, aggregation=agg, gradient=True, hessian=hh, bhhh=bb)
            except BaseException as e:
                viol(f'{label}-raises-{type(e).__name__}', f'hessian={hh} bhhh={bb}: {e}', row=row)
                continue
            rec.ev()
            rec.c('nodatabase_flag_combinations_compared')
            if (r1.hessian is None) == hh or (r1.bhhh is None) == bb:
                viol(f'{label}-flags-not-honoured', f'hessian={hh} bhhh={bb}: hessian returned={r1.hessian is not None} '
                     f'bhhh returned={r1.bhhh is not None}', row=row)
                continue
            if not close(r1.gradient, gref[:, row], g_rtol, g_rtol * gscale * 1e-2):
                viol(f'{label}-gradient-differs', f'hessian={hh} bhhh={bb}: {np.asarray(r1.gradient).tolist()} vs {gref[:, row].tolist()}', row=row)
            if hh and not close(r1.hessian, href[:, :, row], H_RTOL, H_RTOL * hscale):
                viol(f'{label}-hessian-differs', f'hessian={hh} bhhh={bb}', row=row)
            if bb and not close(r1.bhhh, outer_row, 1e-6, 1e-8 * gscale * gscale):
                viol(f'{label}-bhhh-differs-from-outer-product-of-gradient', f'hessian={hh} bhhh={bb}: {np.asarray(r1.bhhh).tolist()} vs {outer_row.tolist()}', row=row)


def _nodb_directed(case, rec):
    """Directed: formulas without data, 1-3 parameters, some with zero gradient."""
    import biogeme.expressions as ex

    k = case['i']
    b1 = ex.Beta('zb', 0.3, None, None, 0)
    b2 = ex.Beta('ab', -0.7, None, None, 0)
    b3 = ex.Beta('mb', 1.1, None, None, 0)
    forms = [
        (lambda: ex.exp(b1) * 2 + b2 * b2, ['ab', 'zb'], 2 * np.exp(0.3) + 0.49, [-1.4, 2 * np.exp(0.3)]),
        (lambda: b1 * b1 - 0.09 * b1 / 0.3 * 1.0 + 0 * b1, ['zb'], 0.09 - 0.09, [0.6 - 0.3]),
        (lambda: (b2 + 0.7) * (b2 + 0.7), ['ab'], 0.0, [0.0]),  # zero gradient at this point
        (lambda: b1 * b2 * b3, ['ab', 'mb', 'zb'], 0.3 * -0.7 * 1.1, [0.3 * 1.1, 0.3 * -0.7, -0.7 * 1.1]),
        (lambda: ex.log(1 + b3 * b3), ['mb'], np.log(1 + 1.21), [2.2 / 2.21]),
        (lambda: b1 - b2, ['ab', 'zb'], 1.0, [-1.0, 1.0]),
    ]
    mk, names, fref, gref = forms[k % len(forms)]
    for agg in (True, False):
        label = 'nodatabase-aggregate' if agg else 'nodatabase-disaggregate'
        e = mk()
        try:
            r = e.get_value_and_derivatives(prepare_ids=True, aggregation=agg, gradient=True, hessian=True, bhhh=True)
        except BaseException as ex_:
            rec.violation(f'C02/{label}-raises-{type(ex_).__name__}', f'K={len(names)}: {ex_}', {'directed': k})
            continue
        rec.ev()
        rec.c('nodatabase_directed')
        if r.gradient is None or r.hessian is None or r.bhhh is None:
            rec.violation(f'C02/{label}-requested-derivative-missing',
                          f'directed formula {k}: gradient={r.gradient} although requested (true gradient {gref})', {'directed': k})
            continue
        if not close(r.function, fref, 1e-9, 1e-12) or not close(r.gradient, gref, 1e-9, 1e-12):
            rec.violation(f'C02/{label}-gradient-differs', f'{r.function},{np.asarray(r.gradient).tolist()} vs {fref},{gref}', {'directed': k})
        if not close(r.bhhh, np.outer(gref, gref), 1e-9, 1e-12):
            rec.violation(f'C02/{label}-bhhh-differs-from-outer-product-of-gradient', f'{np.asarray(r.bhhh).tolist()} vs {np.outer(gref, gref).tolist()}',
                          {'directed': k})
    return rec.out()


def extra(seed, tier, workdir):
    """thorough: the same workload on the ASan/UBSan build of the pinned engine"""
    from . import _sanitizer

    if tier != 'thorough':
        return []
    cases_ = [{'seed': seed + 77, 'i': i, 'kind': 'random'} for i in range(1500)]
    return _sanitizer.run_under_asan('C02', 'biomon.checks.c02', cases_, workdir, tier)


def finalize(cov, tier):
    out = []
    for k in ('earlier_result_rechecked_after_later_calls', 'fd_of_engine_value_compared', 'fd_of_engine_gradient_compared', 'named_results_compared', 'inside_larger_model_named_compared', 'inside_larger_model_create_function_compared',
              'biogeme_likelihood_derivatives_compared', 'create_function_compared', 'objective_function_compared',
              'check_derivatives_compared', 'nodatabase_compared'):
        if cov.get(k, 0) == 0:
            out.append(f'monitor never evaluated: {k}')
    for K in (1, 2, 3, 4):
        if cov.get(f'K_{K}', 0) == 0:
            out.append(f'no case with {K} free parameters')
    return out
