"""C15 - the saved-iteration file is always a sound restart point.

Workload (seeded, JSON-able cases):
  scripted  evaluation sequences driven through BIOGEME.calculate_likelihood_and_derivatives
            (first / improving / worsening / equal / non-finite gradient / NaN likelihood),
            1-40 parameters, hostile names and values;
  optim     the real optimisers (all algorithm names) on generated logit / quadratic problems,
            followed by restarts (new object in a new process, same object, fresh start);
  crash     scripted and real-optimiser histories in which the process is stopped inside an
            evaluation: os._exit from a sys.monitoring LINE failpoint at EVERY statement boundary
            of the BIOGEME methods executed by the call, and SIGKILL delivered by strace on
            entering every openat/write/close/rename/... system call of the call; each distinct
            file state found is then handed to a fresh estimate();
  bootstrap estimate(run_bootstrap=True): evaluations on resamples must not replace the saved point;
  interleaved  calculate_init_likelihood / simulate / quick_estimate / validate between two estimations;
  directed  deterministic regression cases of the five repaired defects + probes (run in both tiers).
Monitors: class-level wrappers around calculate_likelihood_and_derivatives / calculate_likelihood /
optimize / estimate recording the point, the returned value, gradient finiteness and the bytes of
__<model>.iter before and after every call. Oracle: biomon/oracle/c15_oracle.py (independent reader
of the file, history checker with structural mechanism names), numpy reference of the likelihood.
"""
from __future__ import annotations

import math
import os
import random
import shutil
import subprocess
import sys
import tempfile
import time

from .. import env  # noqa: F401  (import path of the code under test)
from ..rec import Rec, close, stable_hash

LEVEL = 'fault_enumeration'
EXHAUSTIVE = False
RULE = (
    'cases = (model, evaluation history) pairs: scripted sequences of points pushed through '
    'calculate_likelihood_and_derivatives (1-40 parameters; names with spaces/unicode/punctuation/200-420 characters; values '
    '1e308, denormals, -0.0, 17-digit), real estimate() runs with each of the 9 algorithm names, and crash enumerations. '
    'For a crash case the stop points are enumerated exhaustively for the selected evaluations (first, an improving, a worsening, '
    'the last one): every LINE event of every BIOGEME method executed by the call, and every (system call, occurrence) pair among '
    'openat/write/close/rename/renameat/renameat2/unlink/unlinkat/ftruncate/fsync/fdatasync. Histories themselves are sampled, '
    'not enumerated. non-trivial = a scripted/optimiser case with >= 3 derivative evaluations during which the file existed, or one '
    'crash point (history, evaluation, stop point) whose resulting file state was judged; distinct = hash of (model, history) resp. '
    '(model, history, evaluation, stop point)'
)
ASSUMPTIONS = [
    'os._exit at a statement boundary and SIGKILL on entering a system call stand for "the process is stopped": user-space buffers '
    'are lost, what the kernel accepted is kept; power loss (page cache not reaching the disk) is outside the observation',
    'one run of evaluations sharing a best-so-far marker = one estimate() call, or one scripted sequence on one object; "best evaluated '
    'so far" is judged inside that run (the file loaded at the start of a later estimation is its first evaluated point)',
    'a point counts as "with finite derivatives" when every component of the returned gradient is finite and the returned likelihood is not NaN',
    'the oracle demands that the file exists after a best-so-far evaluation with finite derivatives (the statement says "while iterations are '
    'being saved"); a writer that never writes would otherwise satisfy the property vacuously',
    'parameter names are drawn from everything a Beta accepts that fits on one line (leading "#", ";", "//", "[", quotes, brackets, commas, '
    'numbers, "nan"/"inf", edge blanks, " = " inside, a name equal to another one plus a blank, unicode, 200-420 characters); a forked probe builds '
    'the model and evaluates it once: names refused by the library (exception) or by the external engine (its signature parser aborts the '
    'process on some characters) are replaced by plain names and counted as names_refused_by_library_*; names containing line breaks are not generated',
    'an evaluation counts as made "on the estimation data" when the value returned equals (rtol 1e-9) the numpy reference of the likelihood on '
    'the estimation data at that point; inside estimate(run_bootstrap=True) other evaluations are those of the bootstrap resamples',
]
MIN_DISTINCT = {'quick': 300, 'thorough': 3000}
CASE_TIMEOUT = 1500  # watchdog only (the machine is shared); a crash case makes several hundred forks

N_SCRIPTED = {'quick': 140, 'thorough': 1000}
N_OPTIM = {'quick': 45, 'thorough': 315}
N_CRASH = {'quick': 12, 'thorough': 80}
N_BOOT = {'quick': 9, 'thorough': 45}
N_INTER = {'quick': 9, 'thorough': 45}
N_CRASH_OPTIM = {'quick': 9, 'thorough': 36}

ALGOS = ['scipy', 'LS-newton', 'TR-newton', 'LS-BFGS', 'TR-BFGS', 'simple_bounds', 'simple_bounds_newton', 'simple_bounds_BFGS', 'automatic']
BOUND_ALGOS = {'scipy', 'simple_bounds', 'simple_bounds_newton', 'simple_bounds_BFGS', 'automatic'}
DIRECTED = ['worse-overwrites-better', 'kill-inside-save-block', 'nan-first-likelihood', 'edge-whitespace-name', 'equals-in-name',
            'big-file-kill', 'list-point-nonfinite', 'comment-like-names', 'bootstrap-overwrites']
SYSCALLS = ['openat', 'write', 'close', 'rename', 'renameat', 'renameat2', 'unlink', 'unlinkat', 'ftruncate', 'fsync', 'fdatasync']
TOOL_ID = 4  # failpoint tool (forked copies only)
SNAP_TOOL_ID = 3  # snapshot tool (observing process)
MAX_REAL_LINE_KILLS = {'quick': 26, 'thorough': 100}  # per evaluation; every boundary is observed by the snapshot monitor anyway


def cases(seed, tier):
    out = [{'mode': 'directed', 'name': n, 'tier': tier} for n in DIRECTED]
    out += [{'mode': 'crash', 'seed': seed, 'i': i, 'tier': tier} for i in range(N_CRASH[tier])]
    out += [{'mode': 'crash-optim', 'seed': seed, 'i': i, 'algo': ALGOS[i % len(ALGOS)], 'tier': tier} for i in range(N_CRASH_OPTIM[tier])]
    out += [{'mode': 'optim', 'seed': seed, 'i': i, 'algo': ALGOS[i % len(ALGOS)]} for i in range(N_OPTIM[tier])]
    out += [{'mode': 'bootstrap', 'seed': seed, 'i': i, 'algo': ALGOS[i % len(ALGOS)]} for i in range(N_BOOT[tier])]
    out += [{'mode': 'interleaved', 'seed': seed, 'i': i, 'algo': ALGOS[i % len(ALGOS)]} for i in range(N_INTER[tier])]
    out += [{'mode': 'scripted', 'seed': seed, 'i': i} for i in range(N_SCRIPTED[tier])]
    return out


# ---------------------------------------------------------------------------
# monitor: class-level wrappers (installed once per worker, inherited by forks)
# ---------------------------------------------------------------------------
class _Mon:
    installed = False
    orig = {}
    codes = []
    mode = 'off'  # off | observe | restart
    ctx = None  # the running Session
    snap = None  # active snapshot recorder {'path','n','last','states'}
    tier = 'quick'


MON = _Mon()


def _read(path):
    try:
        with open(path, 'rb') as f:
            return f.read(1 << 23)
    except FileNotFoundError:
        return None


def _siblings(path):
    """other files the writer left next to the iteration file (e.g. '<file>.tmp' of a stopped process)"""
    out = []
    try:
        names = sorted(os.listdir('.'))
    except OSError:
        return ()
    for n in names:
        if n != path and n.startswith(path) and os.path.isfile(n):
            out.append((n, _read(n)))
    return tuple(out)


def _restore_siblings(path, before):
    keep = dict(before)
    for n, _ in _siblings(path):
        if n not in keep:
            try:
                os.remove(n)
            except OSError:
                pass
    for n, c in before:
        if _read(n) != c:
            _restore(n, c)


def _restore(path, content):
    if content is None:
        try:
            os.remove(path)
        except FileNotFoundError:
            pass
    else:
        with open(path, 'wb') as f:
            f.write(content)


def _code_objects(cls):
    """code objects of every function defined in the class body (incl. property accessors, nested code)"""
    import types

    seen = {}

    def add(code):
        if id(code) in seen:
            return
        seen[id(code)] = code
        for c in code.co_consts:
            if isinstance(c, types.CodeType):
                add(c)

    for v in vars(cls).values():
        fns = []
        if isinstance(v, types.FunctionType):
            fns.append(v)
        elif isinstance(v, property):
            fns += [f for f in (v.fget, v.fset, v.fdel) if f is not None]
        elif isinstance(v, (staticmethod, classmethod)):
            fns.append(v.__func__)
        for f in fns:
            f = getattr(f, '__wrapped__', f)
            if isinstance(f, types.FunctionType):
                add(f.__code__)
    return list(seen.values())


def warmup():
    import numpy  # noqa
    import pandas  # noqa
    import biogeme.biogeme as bb
    import biogeme.models  # noqa
    import biogeme.database  # noqa
    import biogeme.expressions  # noqa
    from biogeme.parameters import Parameters  # noqa

    if MON.installed:
        return
    cls = bb.BIOGEME
    src = os.path.realpath(bb.__file__)
    # only code of the module under test (keeps the failpoints local to src/biogeme/biogeme.py)
    MON.codes = [c for c in _code_objects(cls) if os.path.realpath(c.co_filename) == src]
    for name in ('calculate_likelihood_and_derivatives', 'calculate_likelihood', 'optimize', 'estimate'):
        MON.orig[name] = getattr(cls, name)

    def foreign_object(S, obj):
        # other BIOGEME objects (validate() builds its own, with other names and data) are not this session's model
        if S.target is not None and obj is not S.target:
            S.rec.c('calls_on_other_biogeme_objects_not_observed')
            return True
        return False

    def cld(self, x, *a, **kw):
        S = MON.ctx
        if MON.mode == 'off' or S is None or foreign_object(S, self):
            return MON.orig['calculate_likelihood_and_derivatives'](self, x, *a, **kw)
        return S.on_derivatives(self, x, a, kw)

    def cl(self, x, *a, **kw):
        S = MON.ctx
        if MON.mode == 'off' or S is None or foreign_object(S, self):
            return MON.orig['calculate_likelihood'](self, x, *a, **kw)
        return S.on_likelihood(self, x, a, kw)

    def opt(self, starting_values=None, *a, **kw):
        S = MON.ctx
        if MON.mode != 'off' and S is not None and not foreign_object(S, self):
            S.on_optimize(self, starting_values)
        return MON.orig['optimize'](self, starting_values, *a, **kw)

    def est(self, *a, **kw):
        S = MON.ctx
        if MON.mode != 'off' and S is not None and not foreign_object(S, self):
            S.on_estimate_begin(self)
        return MON.orig['estimate'](self, *a, **kw)

    for name, fn in (('calculate_likelihood_and_derivatives', cld), ('calculate_likelihood', cl), ('optimize', opt), ('estimate', est)):
        fn.__name__ = name
        fn.__doc__ = MON.orig[name].__doc__
        setattr(cls, name, fn)
    # bootstrap resampling observed at the boundary of the Database methods that draw the resamples: from the first draw
    # to the end of the estimate() call the engine works on resampled data, whatever the values returned look like
    # (a resample of a 2-6 row table equals the table itself with sizeable probability)
    import biogeme.database as bdb

    for mname in ('sample_with_replacement', 'sample_individual_map_with_replacement'):
        if hasattr(bdb.Database, mname):
            def make(orig_m):
                def wrapped(self, *a, **kw):
                    S = MON.ctx
                    if MON.mode != 'off' and S is not None and (S.target is None or self is getattr(S.target, 'database', None)):
                        S.resampling = True
                        S.rec.c('bootstrap_resamples_drawn')
                    return orig_m(self, *a, **kw)
                wrapped.__name__ = orig_m.__name__
                wrapped.__doc__ = orig_m.__doc__
                return wrapped
            setattr(bdb.Database, mname, make(getattr(bdb.Database, mname)))
    # snapshot tool: at every LINE event of the module under test, while an observed evaluation runs,
    # record what is on disk = exactly what a process stopped at this statement boundary leaves behind
    # (os._exit / SIGKILL flush nothing). Cross-validated against real kills in the crash cases.
    mon = sys.monitoring

    def snap_cb(code, line):
        a = MON.snap
        if a is None:
            return
        a['n'] += 1
        try:
            st = os.stat(a['path'])
            sig = (st.st_ino, st.st_size, st.st_mtime_ns)
        except FileNotFoundError:
            sig = None
        if sig == a.get('sig', 0):
            return  # same inode, size and modification time as at the previous boundary
        a['sig'] = sig
        c = _read(a['path'])
        if c != a['last']:
            a['states'].append((a['n'], c))
            a['last'] = c

    mon.use_tool_id(SNAP_TOOL_ID, 'c15-snapshot')
    mon.register_callback(SNAP_TOOL_ID, mon.events.LINE, snap_cb)
    for c in MON.codes:
        mon.set_local_events(SNAP_TOOL_ID, c, mon.events.LINE)
    MON.installed = True


def _arm_failpoint(k):
    """os._exit(137) just before the k-th LINE event in the code of the module under test"""
    mon = sys.monitoring
    state = {'n': 0}

    def cb(code, line):
        state['n'] += 1
        if state['n'] == k:
            os._exit(137)

    mon.use_tool_id(TOOL_ID, 'c15-failpoint')
    mon.register_callback(TOOL_ID, mon.events.LINE, cb)
    for c in MON.codes:
        mon.set_local_events(TOOL_ID, c, mon.events.LINE)
    return state


def _attach_strace(syscall, n):
    """SIGKILL on entering the n-th <syscall> made from now on by this process (and its threads)"""
    me = os.getpid()
    fd = os.open('/proc/self/status', os.O_RDONLY)
    try:
        subprocess.Popen(
            ['strace', '-f', '-q', '-o', '/dev/null', '-e', f'trace={syscall}', '-e', f'inject={syscall}:signal=KILL:when={n}', '-p', str(me)],
            stdin=subprocess.DEVNULL, stdout=subprocess.DEVNULL, stderr=subprocess.DEVNULL, close_fds=True)
    except OSError:
        os._exit(99)
    t0 = time.monotonic()
    while True:
        s = os.pread(fd, 8192, 0).decode('ascii', 'replace')
        i = s.find('TracerPid:')
        if i >= 0 and int(s[i + 10:].split()[0]) != 0:
            return
        if time.monotonic() - t0 > 30:
            os._exit(99)
        time.sleep(0.001)


# ---------------------------------------------------------------------------
# one observed session = one model in one directory
# ---------------------------------------------------------------------------
class Session:
    def __init__(self, rec: Rec, spec: dict, label: str):
        from ..gen import c15_gen as gen

        self.rec = rec
        self.spec = spec
        self.gen = gen
        self.label = label
        self.names = gen.free_names(spec)
        self.path = f'__{spec["model_name"]}.iter'
        self.nrows = len(spec['rows'])
        self.scope = None
        self.tie_rel = 0.0
        self.calls = []  # every derivative evaluation (dicts)
        self.like_calls = 0
        self.first_eval = None  # first evaluation of any kind since the last estimate() entry
        self.optimize_start = None
        self.estimates = 0
        self.crash_plan = None  # {call index: ['line','strace']}
        self.crash_results = []
        self.deriv_index = 0
        self.boundary_hook = None
        self.file_seen = 0
        self.max_file_size = 0
        self.viol_mechs = set()
        self.target = None  # when set: only this BIOGEME object is observed
        self.resampling = False  # a bootstrap resample has been drawn since estimate() was entered
        self.allow_foreign = False  # evaluations on other data than the estimation data are expected (bootstrap)
        self.stop_reported = set()
        self.witness_base = {'model_name': spec['model_name'], 'parameters': [p['name'][:60] for p in spec['params']], 'label': label}

    # -- helpers ---------------------------------------------------------------
    def new_scope(self):
        from ..oracle import c15_oracle as orc

        self.scope = orc.Scope(self.names, self.tie_rel)

    def viol(self, mech, msg, **kw):
        w = dict(self.witness_base)
        w.update(kw)
        w['history'] = [{k: c[k] for k in ('k', 'x', 'f', 'grad_finite', 'kind', 'file')} for c in self.calls[-12:]]
        self.viol_mechs.add(mech)
        self.rec.violation(mech, msg, w)

    def xdict(self, bg, x):
        order = list(bg.free_beta_names)
        if sorted(order) != self.names:
            raise RuntimeError('free parameter names of the model differ from the specification')
        vals = [float(v) for v in x]
        if len(vals) != len(order):
            raise RuntimeError('length of x')
        return dict(zip(order, vals))

    # -- wrappers --------------------------------------------------------------
    def on_estimate_begin(self, bg):
        self.estimates += 1
        self.first_eval = None
        self.optimize_start = None
        self.resampling = False
        if MON.mode == 'observe':
            self.new_scope()

    def on_optimize(self, bg, starting_values):
        if self.optimize_start is None and starting_values is not None:
            try:
                self.optimize_start = self.xdict(bg, starting_values)
            except Exception:
                self.optimize_start = None

    def on_likelihood(self, bg, x, a, kw):
        xd = self.xdict(bg, x)
        pre = _read(self.path) if MON.mode == 'observe' else None
        res = MON.orig['calculate_likelihood'](bg, x, *a, **kw)
        self.like_calls += 1
        scaled = kw.get('scaled', a[0] if a else None)
        f = float(res) * (self.nrows if scaled else 1.0)
        if self.first_eval is None:
            self.first_eval = {'kind': 'likelihood', 'x': xd, 'f': f}
        if MON.mode == 'observe':
            self.rec.c('likelihood_only_evaluations')
            self.rec.ev()
            if _read(self.path) != pre:
                self.viol('C15/iterfile-changed-by-likelihood-only-evaluation',
                          f'[{self.label}] calculate_likelihood (no derivatives) changed the iteration file')
        return res

    def on_derivatives(self, bg, x, a, kw):
        import numpy as np

        orig = MON.orig['calculate_likelihood_and_derivatives']
        xd = self.xdict(bg, x)
        if MON.mode == 'restart':
            if self.first_eval is None:
                self.first_eval = {'kind': 'derivatives', 'x': xd, 'f': None}
                res = orig(bg, x, *a, **kw)
                try:
                    self.first_eval['f'] = float(res.function)
                except Exception:
                    pass
                return res
            return orig(bg, x, *a, **kw)
        if self.scope is None:
            self.new_scope()
        self.deriv_index += 1
        k = self.deriv_index
        pre = _read(self.path)
        plan = (self.crash_plan or {}).get(k)
        pending = None
        if plan:
            pending = self.enumerate_crashes(k, pre, xd, lambda: orig(bg, x, *a, **kw), plan)
        exc = None
        res = None
        snap = {'path': self.path, 'n': 0, 'last': pre, 'states': [(0, pre)]}
        MON.snap = snap
        try:
            res = orig(bg, x, *a, **kw)
        except BaseException as e:  # classified below; re-raised for the caller
            exc = e
        finally:
            MON.snap = None
        post = _read(self.path)
        scaled = kw.get('scaled', a[0] if a else False)
        if exc is None:
            f = float(res.function) * (self.nrows if scaled else 1.0)
            g = np.asarray(res.gradient, dtype=float)
            grad_finite = bool(np.all(np.isfinite(g)))
        else:
            f, grad_finite = None, False
        if self.first_eval is None:
            self.first_eval = {'kind': 'derivatives', 'x': xd, 'f': f}
        # numpy reference of the likelihood ON THE ESTIMATION DATA: guards the name <-> position mapping of the
        # harness and tells evaluations made on other data (bootstrap resamples) from those the property is about
        foreign = False
        ref = None
        mismatch = False
        if exc is None and f is not None and math.isfinite(f) and all(math.isfinite(v) for v in xd.values()):
            ref = self.gen.reference(self.spec, xd)
            if math.isfinite(ref):
                self.rec.ev()
                self.rec.c('likelihood_compared_with_reference')
                mismatch = not close(f, ref, 1e-9, 1e-9)
                if self.resampling:
                    mismatch = False  # resampled data in use: the reference on the estimation data does not apply
                if mismatch and self.allow_foreign:
                    foreign = True
        if self.resampling:
            foreign = True
        if foreign:
            self.rec.c('evaluations_on_resampled_data')
        viol, info = self.scope.step(xd, f if f is not None else float('nan'), grad_finite, pre, post, foreign=foreign)
        entry = {'k': k, 'x': {n[:40]: v.hex() for n, v in xd.items()} if len(xd) <= 6 else f'{len(xd)} values', 'f': f,
                 'grad_finite': grad_finite, 'kind': info['kind'], 'file': info['file'], 'xd': xd, 'pre': pre, 'post': post,
                 'exc': type(exc).__name__ if exc else None, 'invariant': info.get('invariant'), 'foreign': foreign}
        self.calls.append(entry)
        rec = self.rec
        rec.ev()
        rec.c('derivative_evaluations')
        rec.c('transition_' + info['kind'])
        rec.c('file_after_call_' + info['file'])
        if info.get('invariant') is False:
            rec.c('calls_after_which_file_is_not_the_argmax')
        if post is not None:
            self.file_seen += 1
            self.max_file_size = max(self.max_file_size, len(post))
        if exc is not None:
            rec.c('evaluation_raised_' + type(exc).__name__)
        for mech, msg in viol:
            self.viol(mech, f'[{self.label}] evaluation #{k}: {msg}', call=k)
        if mismatch and not self.allow_foreign:
            # the harness misreads the model (name <-> position): no verdict can be taken from this case
            rec.c('likelihood_differs_from_reference')
            rec.inconc(f'[{self.label}] evaluation #{k}: returned likelihood {f!r} differs from the numpy reference {ref!r}')
        self.judge_snapshots(snap, entry)
        if pending is not None:
            self.judge_crashes(pending, entry, snap)
        if self.boundary_hook is not None:
            self.boundary_hook(k, post)
        if exc is not None:
            raise exc
        return res

    # -- crash enumeration -------------------------------------------------------
    def _run_stopped_child(self, call, arm, report_count=False):
        r = w = None
        if report_count:
            r, w = os.pipe()
        pid = os.fork()
        if pid == 0:
            code = 17
            try:
                MON.mode = 'off'
                MON.snap = None
                state = arm()
                try:
                    call()
                except BaseException:
                    code = 18
                if report_count:
                    os.write(w, str(state['n']).encode())
            finally:
                os._exit(code)
        count = None
        if report_count:
            os.close(w)
            data = os.read(r, 64)
            os.close(r)
            count = int(data) if data else None
        _, st = os.waitpid(pid, 0)
        if os.WIFSIGNALED(st):
            return 'signal', os.WTERMSIG(st), count
        return 'exit', os.WEXITSTATUS(st), count

    def enumerate_crashes(self, k, pre, xd, call, plan):
        """stop a forked copy of this process at the stop points of the coming call;
        returns the file states found (judged once the call itself has been made)."""
        found = []
        rec = self.rec
        sib0 = _siblings(self.path)
        if 'line' in plan or 'line-all' in plan:
            how, code, total = self._run_stopped_child(call, lambda: _arm_failpoint(10 ** 9), report_count=True)
            _restore(self.path, pre)
            _restore_siblings(self.path, sib0)
            if total is None:
                rec.inconc(f'failpoint counting child ended with {how} {code}')
                total = 0
            cap = 10 ** 9 if 'line-all' in plan else MAX_REAL_LINE_KILLS[MON.tier]
            if total <= cap:
                points = list(range(1, total + 1))
                rec.c('evaluations_with_every_line_stop_point_really_killed')
            else:
                # every statement boundary is still observed by the snapshot monitor; real kills on an even sample
                tail = max(8, cap * 2 // 5)
                keep = set(range(1, 5)) | set(range(total - tail + 1, total + 1)) | {round(1 + i * (total - 1) / (cap - tail - 5)) for i in range(cap - tail - 4)}
                points = sorted(p_ for p_ in keep if 1 <= p_ <= total)
                rec.c('evaluations_with_sampled_line_stop_points_really_killed')
            for j in points:
                how, code, _ = self._run_stopped_child(call, lambda: _arm_failpoint(j))
                if how == 'exit' and code == 137:
                    found.append({'by': 'line', 'at': j, 'content': _read(self.path), 'siblings': _siblings(self.path)})
                else:
                    rec.inconc(f'failpoint child {j}/{total} ended with {how} {code}')
                _restore(self.path, pre)
                _restore_siblings(self.path, sib0)
            rec.c('line_stop_points', len([f for f in found if f['by'] == 'line']))
        if 'strace' in plan:
            for sc in SYSCALLS:
                n = 0
                while n < 400:
                    n += 1
                    for attempt in range(4):
                        how, code, _ = self._run_stopped_child(call, lambda: _attach_strace(sc, n))
                        if not (how == 'exit' and code == 99):
                            break
                        _restore(self.path, pre)
                        _restore_siblings(self.path, sib0)
                        rec.c('strace_attach_retried')
                    if how == 'signal' and code == 9:
                        found.append({'by': 'syscall', 'at': f'{sc}#{n}', 'content': _read(self.path), 'siblings': _siblings(self.path)})
                        _restore(self.path, pre)
                        _restore_siblings(self.path, sib0)
                        continue
                    _restore(self.path, pre)
                    _restore_siblings(self.path, sib0)
                    if how == 'exit' and code == 99:
                        rec.c('strace_attach_failed')
                    elif not (how == 'exit' and code in (17, 18)):
                        rec.inconc(f'strace child ended with {how} {code}')
                    break
            rec.c('syscall_stop_points', len([f for f in found if f['by'] == 'syscall']))
        return {'k': k, 'pre': pre, 'found': found}

    def _report_stop_state(self, viol, info, entry, k, by, at, content):
        """one written-out violation per session and (mechanism, file shape); the rest is counted"""
        for mech, msg in viol:
            self.viol_mechs.add(mech)
            if (mech, info['file']) in self.stop_reported:
                self.rec.c('violations_raw')
                continue
            self.stop_reported.add((mech, info['file']))
            self.viol(mech, f'[{self.label}] process stopped inside evaluation #{k} ({by} stop point {at}, evaluation kind {entry["kind"]}): {msg}',
                      call=k, stop=[by, at], left=(content or b'')[:200].decode('utf-8', 'replace'))

    def judge_snapshots(self, snap, entry):
        """every statement boundary of the evaluation just made: what was on disk there"""
        from ..oracle import c15_oracle as orc

        rec = self.rec
        acceptable = entry['kind'] in ('first', 'improving', 'tie')
        rec.c('statement_boundaries_observed', snap['n'])
        for idx, (at, content) in enumerate(snap['states']):
            if idx == 0:
                continue  # state before the call
            viol, info = orc.check_crash_state(self.names, entry['pre'], content, entry['xd'], acceptable, foreign=entry.get('foreign', False))
            rec.ev()
            rec.c('boundary_state_' + info['state'])
            self._report_stop_state(viol, info, entry, entry['k'], 'statement-boundary snapshot', at, content)

    def judge_crashes(self, pending, entry, snap):
        from ..oracle import c15_oracle as orc

        rec = self.rec
        acceptable = entry['kind'] in ('first', 'improving', 'tie')
        for fnd in pending['found']:
            viol, info = orc.check_crash_state(self.names, pending['pre'], fnd['content'], entry['xd'], acceptable, foreign=entry.get('foreign', False))
            rec.ev()
            rec.c('crash_state_' + info['state'])
            rec.c(f'crash_points_{fnd["by"]}')
            rec.key([self.label, stable_hash(self.spec), pending['k'], fnd['by'], fnd['at']])
            self._report_stop_state(viol, info, entry, pending['k'], fnd['by'], fnd['at'], fnd['content'])
            self.crash_results.append({'k': pending['k'], 'content': fnd['content'], 'siblings': fnd.get('siblings', ()), 'state': info['state'],
                                       'by': fnd['by'], 'at': fnd['at']})
            if fnd.get('siblings'):
                rec.c('crash_states_with_leftover_temporary_file')
            if fnd['by'] == 'line':
                # the snapshot monitor must have seen the same thing at the same statement boundary
                seen = None
                for at, content in snap['states']:
                    if at <= fnd['at']:
                        seen = content
                    else:
                        break
                rec.c('real_kill_compared_with_snapshot')
                if seen != fnd['content']:
                    rec.c('real_kill_differs_from_snapshot')
                    rec.inconc(f'snapshot monitor and real kill disagree at statement boundary {fnd["at"]} of evaluation {pending["k"]}')

# ---------------------------------------------------------------------------
# building real objects
# ---------------------------------------------------------------------------
_ACCEPTED: dict = {}


def _library_accepts(spec) -> str | None:
    """None when the library (expressions + external engine) takes the model through a construction and one
    likelihood evaluation; otherwise how it refused (exception type, or the signal that killed the process:
    the engine's signature parser aborts on some characters). Runs in a forked copy."""
    pid = os.fork()
    if pid == 0:
        code = 0
        try:
            MON.mode = 'off'
            d = tempfile.mkdtemp(prefix='accept_', dir='.')
            os.chdir(d)
            try:
                os.dup2(os.open(os.devnull, os.O_WRONLY), 2)
            except OSError:
                pass
            bg = _make_biogeme(spec)
            bg.save_iterations = False
            bg.calculate_likelihood(list(bg.id_manager.free_betas_values), scaled=False)
        except BaseException:  # noqa
            code = 3
        finally:
            os._exit(code)
    _, st = os.waitpid(pid, 0)
    if os.WIFSIGNALED(st):
        return f'engine_abort_signal_{os.WTERMSIG(st)}'
    return None if os.WEXITSTATUS(st) == 0 else 'library_error'


def _sanitize_names(spec):
    """Only names the library itself accepts are judged: a name it refuses is replaced by a plain one
    and counted (spec['refused'])."""
    from ..gen import c15_gen as gen

    spec.setdefault('refused', [])
    if _library_accepts(spec) is None:
        return spec
    for j, p in enumerate(spec['params']):
        n = p['name']
        if n.isidentifier() and n.isascii():
            continue
        if n not in _ACCEPTED:
            _ACCEPTED[n] = _library_accepts(_simple_spec([n, 'zz_plain'], 'accept'))
        if _ACCEPTED[n] is not None:
            spec['refused'].append([n[:60], _ACCEPTED[n], gen.name_class(n)])
            new = 'R%d_' % j + ''.join(ch for ch in n if ch.isascii() and ch.isalnum())[:20]
            while new in [q['name'] for q in spec['params']]:
                new += 'x'
            p['name'] = new
    how = _library_accepts(spec)
    if how is not None and all(p['name'].isidentifier() and p['name'].isascii() for p in spec['params']):
        for j, p in enumerate(spec['params']):
            spec['refused'].append([p['name'][:60], 'in_combination_' + how, gen.name_class(p['name'])])
            p['name'] = 'C%d_plain' % j
    elif how is not None:
        # the combination is refused although each name alone is accepted: fall back to plain names, counted
        for j, p in enumerate(spec['params']):
            if not (p['name'].isidentifier() and p['name'].isascii()):
                spec['refused'].append([p['name'][:60], 'in_combination_' + how, gen.name_class(p['name'])])
                p['name'] = 'C%d_plain' % j
    return spec


def _make_biogeme(spec, algo=None, max_iter=None, bootstrap=None):
    from biogeme.biogeme import BIOGEME
    from biogeme.parameters import Parameters
    from ..gen import c15_gen as gen

    db, ll = gen.build(spec)
    p = Parameters()
    if bootstrap:
        p.set_value('bootstrap_samples', int(bootstrap), 'Estimation')
        p.set_value('seed', 1000 + int(bootstrap), 'MonteCarlo')  # numpy seed used by the resampling: replayable
    if algo:
        p.set_value('optimization_algorithm', algo, 'Estimation')
    if max_iter:
        p.set_value('max_iterations', int(max_iter), 'SimpleBounds')
    p.set_value('generate_html', False, 'Output')
    p.set_value('generate_pickle', False, 'Output')
    bg = BIOGEME(db, ll, parameters=p)
    bg.modelName = spec['model_name']
    return bg


def _restart_probe(sess: Session, content, algo, max_iter, timeout=120, siblings=()):
    """A later estimation of the same model, new objects, in a forked process and a fresh
    directory holding exactly `content` as iteration file. Returns what the wrappers saw."""
    from ..worker import run_forked

    spec = sess.spec

    def child(_):
        d = tempfile.mkdtemp(prefix='restart_', dir='.')
        os.chdir(d)
        if content is not None:
            with open(sess.path, 'wb') as f:
                f.write(content)
        for n, c in siblings:  # what the stopped process left next to the file
            if c is not None:
                with open(n, 'wb') as f:
                    f.write(c)
        # the later estimation is monitored like any other run (file after every call, every statement boundary)
        rec2 = Rec(None)
        s2 = Session(rec2, spec, 'later estimation')
        MON.ctx = s2
        MON.mode = 'observe'
        out = {'exc': None, 'phase': None}
        try:
            bg = _make_biogeme(spec, algo, max_iter)
            out['phase'] = 'built'
            bg.estimate()
            out['phase'] = 'done'
        except BaseException as e:  # noqa
            out['exc'] = [type(e).__name__, str(e)[:300]]
        fe = s2.first_eval
        out['first'] = None if fe is None else {'kind': fe['kind'], 'x': {n: v.hex() for n, v in fe['x'].items()}, 'f': fe['f']}
        out['optimize_start'] = None if s2.optimize_start is None else {n: v.hex() for n, v in s2.optimize_start.items()}
        after = _read(sess.path)
        from ..oracle import c15_oracle as orc

        out['file_after_shape'] = orc.parse_iter(after, s2.names)['shape']
        MON.mode = 'off'
        out['viol'] = [[v['mech'], v['msg'][:600]] for v in rec2.viol[:8]]
        out['n'] = rec2.n
        out['derivs'] = rec2.cov.get('derivative_evaluations', 0)
        out['boundaries'] = rec2.cov.get('statement_boundaries_observed', 0)
        return out

    return run_forked(child, None, timeout)


def _is_tame(values: dict) -> bool:
    return all(v == 0.0 or 1e-6 <= abs(v) <= 1e3 for v in values.values())


def judge_restart(sess: Session, content, res, original_start_f, context: str):
    """content: bytes of the iteration file the restart found (None: no file)."""
    from ..oracle import c15_oracle as orc
    from ..gen import c15_gen as gen

    rec = sess.rec
    rec.c('restart_probes')
    if res.get('timeout') or 'harness_error' in res or 'crash_signal' in res:
        rec.inconc(f'restart probe did not report: {str(res)[:300]}')
        return None
    P = orc.parse_iter(content, sess.names)
    expected = dict(gen.default_start(sess.spec))
    if P['ok']:
        expected.update(P['values'])
    rec.ev(int(res.get('n') or 0))
    rec.c('later_estimation_derivative_evaluations_monitored', int(res.get('derivs') or 0))
    rec.c('statement_boundaries_observed', int(res.get('boundaries') or 0))
    for mech, msg in res.get('viol') or []:
        sess.viol(mech, f'[{context}; in the later estimation] {msg}', context=context,
                  file=None if content is None else content[:300].decode('utf-8', 'replace'))
    first = res.get('first')
    names_eq = [n for n in sess.names if '=' in n]
    names_ws = [n for n in sess.names if n != n.strip()]
    wit = {'context': context, 'file': None if content is None else content[:300].decode('utf-8', 'replace'), 'restart': {k: res.get(k) for k in ('exc', 'phase', 'first')}}
    rec.ev()
    if first is None:
        # the estimation did not reach its first evaluation
        if P['exists'] and not P['ok']:
            rec.c('restart_raises_on_incomplete_file_' + (res['exc'][0] if res.get('exc') else 'none'))
            return 'raises-on-incomplete'
        if res.get('exc'):
            if names_eq:
                sess.viol('C15/restart-raises-on-name-containing-equals-sign',
                          f'[{context}] estimate() raised {res["exc"][0]}: {res["exc"][1]} while reading a complete file whose parameter name contains "="', **wit)
            else:
                sess.viol(f'C15/restart-from-{"complete-file" if P["ok"] else "no-file"}-raises-{res["exc"][0]}',
                          f'[{context}] estimate() raised {res["exc"][0]}: {res["exc"][1]} before evaluating anything', **wit)
            return 'raises'
        rec.inconc('restart made no evaluation and raised nothing')
        return None
    got = {n: float.fromhex(h) for n, h in first['x'].items()}
    diff = [n for n in sess.names if orc.bits(got[n]) != orc.bits(expected[n])]
    if P['exists'] and not P['ok']:
        rec.c('restart_on_incomplete_file_started_somewhere')
        return 'incomplete-started'
    if diff:
        if all(n in names_ws for n in diff):
            sess.viol('C15/restart-ignores-saved-value-of-name-with-edge-whitespace',
                      f'[{context}] the later estimation starts from {got[diff[0]]!r} for parameter {diff[0]!r}; the file holds {expected[diff[0]]!r}', **wit)
        else:
            sess.viol('C15/restart-does-not-start-from-saved-values',
                      f'[{context}] first evaluated point of the later estimation differs from the saved values for {len(diff)} parameter(s), e.g. '
                      f'{diff[0][:40]!r}: started from {got[diff[0]]!r}, file holds {expected[diff[0]]!r}' if P['ok'] else
                      f'[{context}] no file: the later estimation does not start from the default values for {diff[0][:40]!r}: {got[diff[0]]!r}', **wit)
        return 'wrong-start'
    rec.c('restart_started_from_saved_values' if P['ok'] else 'restart_started_from_defaults_without_file')
    os_ = res.get('optimize_start')
    if os_ is not None:
        g2 = {n: float.fromhex(h) for n, h in os_.items()}
        if any(orc.bits(g2[n]) != orc.bits(expected[n]) for n in sess.names):
            sess.viol('C15/restart-optimiser-start-differs-from-saved-values', f'[{context}] optimize() was given another starting point than the saved values', **wit)
    if P['ok'] and original_start_f is not None and first.get('f') is not None and not math.isnan(first['f']):
        rec.ev()
        rec.c('restart_start_likelihood_compared')
        if first['f'] < original_start_f - 1e-9 * abs(original_start_f):
            # after a bootstrap the saved point may be a resample's optimum: same mechanism as the overwrite itself
            sess.viol('C15/iterfile-overwritten-by-evaluation-on-resampled-data' if sess.allow_foreign else 'C15/restart-begins-below-original-start',
                      f'[{context}] the later estimation starts at LL {first["f"]!r}, the original one started at {original_start_f!r}', **wit)
    if res.get('exc'):
        if res['exc'][0] == 'OptimizationError':
            # the restart did begin at the saved values; the optimisation algorithm then gave up (e.g. the LS-newton line search
            # from an intermediate iterate): a property of the algorithm and its starting point, not of the restart point
            rec.c('restart_optimiser_gave_up_after_starting_from_saved_values')
        elif P['ok'] and _is_tame(P['values']):
            sess.viol(f'C15/restart-estimation-fails-after-start-{res["exc"][0]}', f'[{context}] estimate() raised {res["exc"][0]}: {res["exc"][1]}', **wit)
        else:
            rec.c('restart_optimiser_failed_after_start_on_hostile_values')
    else:
        rec.c('restart_estimations_completed')
        # the later estimation saves its own iterations: what it leaves must be sound as well
        rec.ev()
        shape = res.get('file_after_shape')
        if shape != 'complete':
            sess.viol(f'C15/iterfile-malformed-after-later-estimation-{shape}',
                      f'[{context}] the later estimation completed and left an iteration file that is not one complete line per parameter: {shape}', **wit)
    return 'ok'


def _restarts_for_contents(sess, contents, algo, original_start_f, context, max_iter=3):
    """one probe per distinct file content"""
    seen = {}
    for c in contents:
        sib = ()
        if isinstance(c, tuple):
            c, sib = c
        key = (c, sib)
        if key in seen:
            continue
        res = _restart_probe(sess, c, algo, max_iter, siblings=sib)
        seen[key] = judge_restart(sess, c, res, original_start_f, context)
    return seen


# ---------------------------------------------------------------------------
# case runners
# ---------------------------------------------------------------------------
def _fresh_dir():
    base = os.environ.get('BIOMON_WORKDIR') or tempfile.gettempdir()  # replay: outside /verif
    d = tempfile.mkdtemp(prefix='c15_', dir=base)
    os.chdir(d)
    return d


def _drive(sess: Session, bg, steps, scaled_mode):
    """push the scripted points through the real method"""
    import numpy as np

    r = random.Random(len(steps))
    for st in steps:
        xd = {n: float.fromhex(h) for n, h in st['x'].items()}
        order = list(bg.free_beta_names)
        vals = [xd[n] for n in order]
        x = np.array(vals, dtype=float) if st['container'] == 'array' else vals
        scaled = {'never': False, 'always': True}.get(scaled_mode, r.random() < 0.5)
        try:
            bg.calculate_likelihood_and_derivatives(x, scaled=scaled, hessian=st['hessian'], bhhh=st['bhhh'])
        except AttributeError as e:
            # report_array() on a list when the gradient is not finite: outside C15 (no file activity), counted
            sess.rec.c('nonfinite_point_given_as_list_raises_AttributeError')
            if "'size'" not in str(e):
                raise
        sess.rec.c('intent_' + st['intent'])


def _first_candidate_f(sess):
    for c in sess.calls:
        if c['kind'] == 'first':
            return c['f']
    return None


def _account_names(rec, spec):
    from ..gen import c15_gen as gen

    for n_, how, classes in spec.get('refused', []):
        rec.c('names_refused_by_library_' + how)
        for c in classes:
            rec.c('names_refused_by_library_class_' + c)
    for p in spec['params']:
        n = p['name']
        for c in gen.name_class(n):
            rec.c('names_' + c)
        if ' ' in n or '\t' in n:
            rec.c('names_with_inner_white_space')
        if any(ord(ch) > 127 for ch in n):
            rec.c('names_with_non_ascii')
        if len(n) >= 200:
            rec.c('names_200_chars_or_more')
        if p.get('role') in ('huge', 'tiny', 'digits'):
            rec.c('parameters_with_hostile_values_' + p['role'])
    k = len(spec['params'])
    rec.c('models_with_%s_parameters' % ('1' if k == 1 else '2-5' if k <= 5 else '6-15' if k <= 15 else '16-41'))


def _gen_scripted(case, crash=False):
    from ..gen import c15_gen as gen

    r = random.Random(stable_hash(['c15', case['mode'], case['seed'], case['i']]))
    i = case['i']
    if crash:
        k = [1, 2, 3, 5, 8, 12, 20, 30, 40][i % 9]
        names_mode = 'long' if i % 2 == 1 and k >= 20 else ('hostile' if i % 2 == 0 else 'plain')
        length = r.randint(4, 7)
    else:
        k = r.choice([1, 1, 2, 2, 3, 4, 5, 7, 10, 15, 25, 40])
        names_mode = r.choice(['hostile', 'hostile', 'plain', 'long' if k >= 20 else 'hostile'])
        length = r.randint(3, 40) if r.random() < 0.8 else r.randint(40, 120)
    spec = gen.make_quad(r, k, names_mode, hostile_values=r.random() < 0.7, with_log=r.random() < 0.6, with_sqrt=r.random() < 0.5)
    _sanitize_names(spec)
    steps = gen.make_history(r, spec, length, nonfinite=True)
    scaled_mode = r.choice(['never', 'never', 'never', 'always', 'mixed'])
    return r, spec, steps, scaled_mode


def run_scripted(case, rec):
    r, spec, steps, scaled_mode = _gen_scripted(case)
    sess = Session(rec, spec, 'scripted')
    sess.tie_rel = 0.0 if scaled_mode == 'never' else 4e-15
    MON.ctx, MON.mode = sess, 'observe'
    bg = _make_biogeme(spec, 'simple_bounds', 3)
    _account_names(rec, spec)
    rec.c('scaled_mode_' + scaled_mode)
    _drive(sess, bg, steps, scaled_mode)
    MON.mode = 'off'
    if sess.file_seen >= 3 or len(sess.calls) >= 3:
        rec.key([spec, steps, scaled_mode])
    if sess.max_file_size >= 8192:
        rec.c('histories_with_file_of_8KiB_or_more')
    rec.sample({'model_name': spec['model_name'], 'parameters': [p['name'][:50] for p in spec['params']][:6],
                'history': [[c['kind'], c['f'], c['file']] for c in sess.calls[:12]]})
    # a later estimation of the same model (new objects, new process) starts from the saved values
    final = _read(sess.path)
    _restarts_for_contents(sess, [final], 'simple_bounds', _first_candidate_f(sess), 'after scripted history')
    # ... and so does one on an intermediate state of the file
    mids = [c['post'] for c in sess.calls if c['post'] is not None]
    if mids and case['i'] % 3 == 0:
        _restarts_for_contents(sess, [mids[len(mids) // 2]], ALGOS[case['i'] % len(ALGOS)] if not any(p['lb'] is not None for p in spec['params']) else 'simple_bounds',
                               _first_candidate_f(sess), 'after interrupted scripted history')
    return sess


def run_crash(case, rec, spec=None, steps=None, scaled_mode='never', plan_kinds=('line', 'strace'), label='crash'):
    if spec is None:
        r, spec, steps, scaled_mode = _gen_scripted(case, crash=True)
    sess = Session(rec, spec, label)
    sess.tie_rel = 0.0 if scaled_mode == 'never' else 4e-15
    # targets by intent: first, first 'improve', first 'worsen-mid' (or any worsen), last
    targets = {1, len(steps)}
    for want in (('improve',), ('worsen-mid', 'worsen-far'), ('nonfinite-g', 'nan-f', 'nan-x', 'inf-g-finite-f', 'inf-g-finite-f-better')):
        for j, st in enumerate(steps):
            if j > 0 and st['intent'] in want:
                targets.add(j + 1)
                break
    sess.crash_plan = {t: list(plan_kinds) for t in targets}
    MON.ctx, MON.mode = sess, 'observe'
    bg = _make_biogeme(spec, 'simple_bounds', 3)
    _account_names(rec, spec)
    _drive(sess, bg, steps, scaled_mode)
    MON.mode = 'off'
    rec.c('evaluations_with_crash_enumeration', len(targets))
    if sess.max_file_size >= 8192:
        rec.c('crash_histories_with_file_of_8KiB_or_more')
    for c in sess.calls:
        if c['k'] in targets:
            rec.c('crash_target_kind_' + c['kind'])
    # restart from every distinct state a stopped process left behind
    contents = []
    for cr in sess.crash_results:
        contents.append((cr['content'], cr.get('siblings', ())))
    out = _restarts_for_contents(sess, contents, 'simple_bounds', _first_candidate_f(sess), 'after process stopped inside an evaluation')
    rec.c('distinct_crash_file_states_restarted', len(out))
    rec.sample({'model_name': spec['model_name'], 'n_parameters': len(spec['params']), 'targets': sorted(targets),
                'stop_points': len(sess.crash_results),
                'states': sorted({c['state'] for c in sess.crash_results})})
    return sess


def _optim_spec(case):
    from ..gen import c15_gen as gen

    r = random.Random(stable_hash(['c15', case['mode'], case['seed'], case['i']]))
    algo = case['algo']
    bounds = algo in BOUND_ALGOS and r.random() < 0.5
    if r.random() < 0.7:
        spec = gen.make_logit(r, r.choice(['hostile', 'plain']), bounds)
    else:
        spec = gen.make_quad(r, r.choice([1, 2, 3, 6]), r.choice(['hostile', 'plain']), hostile_values=False, with_log=r.random() < 0.5)
        for p in spec['params']:
            if p['role'] == 'logp':
                p['init'] = r.choice([0.5, 2.0, 3.0])
    _sanitize_names(spec)
    return r, spec, algo


def run_optim(case, rec):
    r, spec, algo = _optim_spec(case)
    sess = Session(rec, spec, f'estimate({algo})')
    MON.ctx, MON.mode = sess, 'observe'
    max_iter = r.choice([2, 5, 100, 100])
    bg = _make_biogeme(spec, algo, max_iter)
    _account_names(rec, spec)
    rec.c('algorithm_' + algo)
    # interrupted runs: at a few evaluation boundaries the file is handed to a fresh estimation
    boundary_states = []
    picks = set(r.sample(range(1, 12), 3))

    def hook(k, post):
        if k in picks and post is not None:
            boundary_states.append(post)

    sess.boundary_hook = hook
    try:
        bg.estimate()
    except BaseException as e:  # noqa
        MON.mode = 'off'
        rec.c('estimate_raised_' + type(e).__name__)
        if type(e).__name__ == 'OptimizationError':
            rec.c('estimate_optimiser_gave_up')  # the algorithm's failure on this problem: the case is dropped, no verdict
        else:
            rec.inconc(f'estimate({algo}) raised {type(e).__name__}: {str(e)[:200]}')
        return sess
    sess.boundary_hook = None
    start1 = sess.first_eval['f'] if sess.first_eval else None
    n1 = len(sess.calls)
    if n1 >= 3:
        rec.key([spec, algo, max_iter])
    rec.sample({'algorithm': algo, 'model_name': spec['model_name'], 'history': [[c['kind'], c['f'], c['file']] for c in sess.calls[:14]]})
    final = _read(sess.path)
    MON.mode = 'off'
    _restarts_for_contents(sess, [final] + boundary_states, algo, start1, f'after estimate({algo})', max_iter=max_iter)
    # same object, second estimate(): starts from the file as well
    MON.mode = 'observe'
    variant = case['i'] % 3
    try:
        if variant == 0:
            # the user starts afresh on the same object: file removed, other starting values
            _restore(sess.path, None)
            worse = {p['name']: (p['init'] + (0.9 if p['lb'] is None else 0.0)) for p in spec['params']}
            if spec['logp']:
                worse[spec['logp']] = 6.0
            bg.change_init_values(worse)
            expected = worse
            rec.c('second_estimate_fresh_start_without_file')
        else:
            from ..oracle import c15_oracle as orc

            P = orc.parse_iter(final, sess.names)
            expected = P['values'] if P['ok'] else None
            rec.c('second_estimate_same_object_with_file')
        gave_up = None
        try:
            bg.estimate()
        except BaseException as e:  # noqa
            if type(e).__name__ != 'OptimizationError' or sess.first_eval is None:
                raise
            gave_up = e  # the optimisation algorithm gave up after the start: the starting point is judged all the same
            rec.c('second_estimate_optimiser_gave_up_after_start')
        fe = sess.first_eval
        if expected is not None and fe is not None:
            from ..oracle import c15_oracle as orc

            rec.ev()
            if any(orc.bits(fe['x'][n]) != orc.bits(float(expected[n])) for n in sess.names):
                sess.viol('C15/restart-does-not-start-from-saved-values' if variant else 'C15/fresh-start-ignores-changed-initial-values',
                          f'second estimate() on the same object starts from {fe["x"]} instead of {expected}')
            elif variant and start1 is not None and fe['f'] is not None and fe['f'] < start1 - 1e-9 * abs(start1):
                sess.viol('C15/restart-begins-below-original-start', f'second estimate() starts at {fe["f"]!r} < {start1!r}')
            if variant == 0 and fe['f'] is not None and start1 is not None:
                rec.c('fresh_start_below_first_start' if fe['f'] < start1 else 'fresh_start_not_below_first_start')
    except BaseException as e:  # noqa
        rec.c('second_estimate_raised_' + type(e).__name__)
        rec.inconc(f'second estimate({algo}) raised {type(e).__name__}: {str(e)[:200]}')
    MON.mode = 'off'
    return sess


def run_crash_optim(case, rec):
    """the process is stopped inside evaluations issued by a real optimiser"""
    r, spec, algo = _optim_spec(case)
    sess = Session(rec, spec, f'crash in estimate({algo})')
    picks = sorted(r.sample(range(1, 9), 2))
    sess.crash_plan = {picks[0]: ['line'], picks[1]: ['strace', 'line'] if case['i'] % 2 else ['strace']}
    MON.ctx, MON.mode = sess, 'observe'
    bg = _make_biogeme(spec, algo, 20)
    _account_names(rec, spec)
    rec.c('crash_algorithm_' + algo)
    try:
        bg.estimate()
    except BaseException as e:  # noqa
        MON.mode = 'off'
        if type(e).__name__ == 'OptimizationError':
            rec.c('estimate_optimiser_gave_up')  # the algorithm's failure on this problem: the case is dropped, no verdict
        else:
            rec.inconc(f'estimate({algo}) raised {type(e).__name__}: {str(e)[:200]}')
        return sess
    MON.mode = 'off'
    start1 = sess.first_eval['f'] if sess.first_eval else None
    for c in sess.calls:
        if c['k'] in sess.crash_plan:
            rec.c('crash_target_kind_' + c['kind'])
    out = _restarts_for_contents(sess, [(cr['content'], cr.get('siblings', ())) for cr in sess.crash_results], algo, start1,
                                 f'after process stopped inside an evaluation of estimate({algo})', max_iter=20)
    rec.c('distinct_crash_file_states_restarted', len(out))
    return sess


def _fixed_logit_spec(names=('asc', 'b1', 'b2'), model='boot_directed'):
    from ..gen import c15_gen as gen

    spec = gen.make_logit(random.Random(12345), 'plain', False)
    for p, n in zip(spec['params'], names):
        p['name'] = n
    spec['model_name'] = model
    return spec


def run_bootstrap(case, rec, spec=None, algo=None, nboot=None):
    """estimate(run_bootstrap=True): the evaluations made on the bootstrap resamples are not evaluations on the
    estimation data (told apart by the numpy reference of the likelihood on the estimation data); the file must
    keep holding the best point evaluated on the estimation data, and the later estimation starts from it."""
    from ..oracle import c15_oracle as orc

    if spec is None:
        r, spec, algo = _optim_spec(case)
        nboot = r.choice([3, 5, 8])
    sess = Session(rec, spec, f'estimate({algo}, run_bootstrap=True)')
    sess.allow_foreign = True
    MON.ctx, MON.mode = sess, 'observe'
    bg = _make_biogeme(spec, algo, 100, bootstrap=nboot)
    sess.target = bg
    _account_names(rec, spec)
    rec.c('bootstrap_algorithm_' + algo)
    try:
        bg.estimate(run_bootstrap=True)
    except BaseException as e:  # noqa
        MON.mode = 'off'
        rec.c('estimate_raised_' + type(e).__name__)
        if type(e).__name__ == 'OptimizationError':
            rec.c('estimate_optimiser_gave_up')  # the algorithm's failure on this problem: the case is dropped, no verdict
        else:
            rec.inconc(f'estimate({algo}, run_bootstrap=True) raised {type(e).__name__}: {str(e)[:200]}')
        return sess
    MON.mode = 'off'
    rec.c('estimations_with_bootstrap')
    if sess.calls:
        rec.key(['bootstrap', spec, algo, nboot])
    start1 = sess.first_eval['f'] if sess.first_eval else None
    final = _read(sess.path)
    # what the file holds at the end, judged on the estimation data
    P = orc.parse_iter(final, sess.names)
    cands = [c for c in sess.calls if c['kind'] != 'noncandidate' and c['f'] is not None]
    if P['ok'] and cands:
        ref_saved = sess.gen.reference(spec, P['values'])
        best = max(c['f'] for c in cands)
        rec.ev()
        rec.c('final_file_after_bootstrap_judged')
        rec.sample({'algorithm': algo, 'bootstrap_samples': nboot, 'best_LL_on_estimation_data': best,
                    'LL_on_estimation_data_at_saved_point': ref_saved, 'original_start_LL': start1,
                    'evaluations_on_resamples': sum(1 for c in sess.calls if c.get('foreign'))})
        if ref_saved < best - 1e-9 * abs(best):
            rec.c('final_file_after_bootstrap_below_best_on_estimation_data')
    _restarts_for_contents(sess, [final], algo, start1, f'after estimate({algo}, run_bootstrap=True)', max_iter=100)
    return sess


def run_interleaved(case, rec):
    """other public operations between two estimations must leave the file a sound restart point:
    calculate_init_likelihood, simulate, quick_estimate, validate (which estimates other objects on slices)."""
    from ..oracle import c15_oracle as orc

    r, spec, algo = _optim_spec(case)
    sess = Session(rec, spec, f'interleaved({algo})')
    MON.ctx, MON.mode = sess, 'observe'
    bg = _make_biogeme(spec, algo, 100)
    sess.target = bg
    _account_names(rec, spec)
    rec.c('interleaved_algorithm_' + algo)
    try:
        results = bg.estimate()
    except BaseException as e:  # noqa
        MON.mode = 'off'
        if type(e).__name__ == 'OptimizationError':
            rec.c('estimate_optimiser_gave_up')  # the algorithm's failure on this problem: the case is dropped, no verdict
        else:
            rec.inconc(f'estimate({algo}) raised {type(e).__name__}: {str(e)[:200]}')
        return sess
    start1 = sess.first_eval['f'] if sess.first_eval else None
    if sess.calls:
        rec.key(['interleaved', spec, algo])
    ops = ['calculate_init_likelihood', 'simulate', 'quick_estimate', 'calculate_likelihood']
    r.shuffle(ops)
    ops.append('validate')  # last: it re-uses the expression objects of the model with other databases
    for op in ops:
        before = _read(sess.path)
        try:
            if op == 'calculate_init_likelihood':
                bg.calculate_init_likelihood()
            elif op == 'calculate_likelihood':
                bg.calculate_likelihood([0.1] * len(sess.names), scaled=True)
            elif op == 'simulate':
                bg.simulate(results.get_beta_values())
            elif op == 'quick_estimate':
                bg.quick_estimate()  # derivative evaluations: judged call by call by the wrapper (same best-so-far run)
            elif op == 'validate':
                if len(spec['rows']) >= 10:
                    bg.validate(results, bg.database.split(slices=2))
                else:
                    continue
            rec.c('interleaved_' + op)
        except BaseException as e:  # noqa
            rec.c(f'interleaved_{op}_raised_{type(e).__name__}')
            continue
        after = _read(sess.path)
        rec.ev()
        if op != 'quick_estimate' and after != before:
            sess.viol(f'C15/iterfile-changed-by-{op.replace("_", "-")}', f'[{sess.label}] {op}() changed the iteration file of the model')
    MON.mode = 'off'
    final = _read(sess.path)
    _restarts_for_contents(sess, [final], algo, start1, f'after estimate({algo}) and other operations', max_iter=100)
    return sess


# -- directed, deterministic cases (both tiers) ---------------------------------
# The first five reproduced defects of the tree as found (findings/C15.md); they were repaired in /repo
# (best-so-far marker updated + NaN guard, write to <file>.tmp then os.replace, loader splitting on the
# last ' = ') and now are regression cases that must HOLD: any firing is an unlisted violation.
def _simple_spec(names, model='directed', inits=None, cs=None, logp=None):
    params = []
    for i, n in enumerate(names):
        params.append({'name': n, 'role': 'tame', 's': 1.0, 'c': (cs[i] if cs else 1.0), 'wt': 1.0, 'init': (inits[i] if inits else 0.0), 'lb': None, 'ub': None})
    spec = {'kind': 'quad', 'model_name': model, 'rows': [[1.0, 1.0], [0.5, 2.0], [1.5, 1.0]], 'params': params, 'logp': None, 'sqrtp': None}
    if logp:
        spec['logp'] = logp
        params.append({'name': logp, 'role': 'logp', 's': 1.0, 'c': 0.0, 'wt': 1.0, 'init': 2.0, 'lb': None, 'ub': None})
    return spec


def _steps(points, container='array'):
    return [{'intent': it, 'x': {n: float(v).hex() for n, v in x.items()}, 'container': container, 'scaled': False, 'hessian': False, 'bhhh': False}
            for it, x in points]


def run_directed(case, rec):
    name = case['name']
    rec.c('directed_' + name)
    if name == 'worse-overwrites-better':
        # LL(first) < LL(third) < LL(second): the third evaluation must not replace the second
        spec = _simple_spec(['b1', 'b2'], 'worse_overwrites')
        steps = _steps([('first', {'b1': 6.0, 'b2': -4.0}), ('improve', {'b1': 1.0, 'b2': 0.5}), ('worsen-mid', {'b1': 3.0, 'b2': -1.0}),
                        ('worsen-far', {'b1': 9.0, 'b2': -9.0})])
        sess = Session(rec, spec, 'directed:' + name)
        MON.ctx, MON.mode = sess, 'observe'
        bg = _make_biogeme(spec, 'simple_bounds', 3)
        _drive(sess, bg, steps, 'never')
        MON.mode = 'off'
        rec.key(['directed', name])
        return sess
    if name in ('kill-inside-save-block', 'big-file-kill'):
        if name == 'kill-inside-save-block':
            spec = _simple_spec(['b1', 'b2', 'b3'], 'kill_in_save')
        else:
            spec = _simple_spec(['N%02d_' % i + 'x' * 300 for i in range(36)], 'kill_big_file')
        nm = [p['name'] for p in spec['params']]
        steps = _steps([('first', {n: 5.0 for n in nm}), ('improve', {n: 2.0 for n in nm}), ('improve', {n: 1.25 for n in nm})])
        # the small one: every statement boundary really killed, in both tiers
        return run_crash(case, rec, spec=spec, steps=steps, label='directed:' + name,
                         plan_kinds=('line-all', 'strace') if name == 'kill-inside-save-block' else ('line', 'strace'))
    if name == 'nan-first-likelihood':
        spec = _simple_spec(['b1'], 'nan_first', logp='p')
        steps = _steps([('first-nan-f', {'b1': 3.0, 'p': -0.5}), ('improve', {'b1': 2.0, 'p': 1.5}), ('improve', {'b1': 1.0, 'p': 1.0})])
        sess = Session(rec, spec, 'directed:' + name)
        MON.ctx, MON.mode = sess, 'observe'
        bg = _make_biogeme(spec, 'simple_bounds', 3)
        _drive(sess, bg, steps, 'never')
        MON.mode = 'off'
        rec.key(['directed', name])
        return sess
    if name in ('edge-whitespace-name', 'equals-in-name'):
        names = [' lead', 'trail ', 'mid dle'] if name == 'edge-whitespace-name' else ['a=b', 'plain']
        spec = _simple_spec(names, 'names_' + name.split('-')[0], inits=[0.25] * len(names))
        steps = _steps([('first', {n: 3.0 + i for i, n in enumerate(names)}), ('improve', {n: 1.5 + 0.1 * i for i, n in enumerate(names)})])
        sess = Session(rec, spec, 'directed:' + name)
        MON.ctx, MON.mode = sess, 'observe'
        bg = _make_biogeme(spec, 'simple_bounds', 3)
        _drive(sess, bg, steps, 'never')
        MON.mode = 'off'
        rec.key(['directed', name])
        _restarts_for_contents(sess, [_read(sess.path)], 'simple_bounds', _first_candidate_f(sess), 'directed ' + name)
        return sess
    if name == 'bootstrap-overwrites':
        return run_bootstrap(case, rec, spec=_fixed_logit_spec(), algo='simple_bounds', nboot=12)
    if name == 'comment-like-names':
        names = ['scale', '#shift', '  # of trips', '; note', '// x', '[sec]', "'q'"]
        spec = _sanitize_names(_simple_spec(names, 'comment_names', inits=[0.25] * len(names), cs=[1.0, 0.5, -0.5, 0.8, -0.8, 0.3, 0.6]))
        nm = [p['name'] for p in spec['params']]
        steps = _steps([('first', {n: 3.0 + i for i, n in enumerate(nm)}), ('improve', {n: 1.5 + 0.1 * i for i, n in enumerate(nm)})])
        sess = Session(rec, spec, 'directed:' + name)
        MON.ctx, MON.mode = sess, 'observe'
        bg = _make_biogeme(spec, 'simple_bounds', 3)
        _account_names(rec, spec)
        _drive(sess, bg, steps, 'never')
        MON.mode = 'off'
        rec.key(['directed', name])
        _restarts_for_contents(sess, [_read(sess.path)], 'simple_bounds', _first_candidate_f(sess), 'directed ' + name)
        return sess
    if name == 'list-point-nonfinite':
        # informational: a non-finite gradient at a point given as a list
        spec = _simple_spec(['b1'], 'list_nonfinite', logp='p')
        steps = _steps([('first', {'b1': 3.0, 'p': 1.5}), ('nonfinite-g', {'b1': 2.0, 'p': 0.0}), ('improve', {'b1': 1.0, 'p': 1.0})], container='list')
        sess = Session(rec, spec, 'directed:' + name)
        MON.ctx, MON.mode = sess, 'observe'
        bg = _make_biogeme(spec, 'simple_bounds', 3)
        _drive(sess, bg, steps, 'never')
        MON.mode = 'off'
        rec.key(['directed', name])
        return sess
    raise ValueError(name)


def run_case(case):
    from biogeme.exceptions import BiogemeError  # noqa

    warmup()
    MON.tier = case.get('tier', 'quick')
    rec = Rec(case)
    d = _fresh_dir()
    try:
        mode = case['mode']
        if mode == 'directed':
            run_directed(case, rec)
        elif mode == 'scripted':
            run_scripted(case, rec)
        elif mode == 'crash':
            run_crash(case, rec)
        elif mode == 'optim':
            run_optim(case, rec)
        elif mode == 'crash-optim':
            run_crash_optim(case, rec)
        elif mode == 'bootstrap':
            run_bootstrap(case, rec)
        elif mode == 'interleaved':
            run_interleaved(case, rec)
        else:
            raise ValueError(mode)
    finally:
        MON.mode = 'off'
        MON.ctx = None
        try:
            os.chdir(os.environ.get('BIOMON_WORKDIR') or '/')
            shutil.rmtree(d, ignore_errors=True)
        except OSError:
            pass
    return rec.out()


def selftest():
    from ..oracle import c15_oracle as orc
    from ..gen import c15_gen as gen

    bad = list(orc.selftest())
    # the generator's reference likelihood against a hand computation
    spec = _simple_spec(['b1', 'b2'], 'st')
    v = gen.quad_reference(spec, {'b1': 3.0, 'b2': -1.0})
    hand = sum(-w * ((3.0 - t) ** 2 + (-1.0 - t) ** 2) for t, w in spec['rows'])
    if not close(v, hand, 1e-13, 0):
        bad.append('quad_reference differs from the hand computation')
    return bad


def finalize(cov, tier):
    out = []
    need = ['transition_first', 'transition_improving', 'transition_tie', 'transition_worse-than-best-not-below-first', 'transition_worse-than-first',
            'transition_noncandidate', 'line_stop_points', 'syscall_stop_points', 'evaluations_with_every_line_stop_point_really_killed',
            'real_kill_compared_with_snapshot', 'statement_boundaries_observed', 'crash_state_previous', 'restart_probes',
            'restart_started_from_saved_values', 'restart_started_from_defaults_without_file', 'likelihood_compared_with_reference',
            'names_with_inner_white_space', 'names_with_non_ascii', 'names_200_chars_or_more', 'names_comment_or_section_like_start',
            'names_edge_white_space', 'names_equals_sign', 'names_reads_as_number', 'estimations_with_bootstrap', 'evaluations_on_resampled_data',
            'interleaved_quick_estimate', 'interleaved_validate', 'interleaved_simulate', 'later_estimation_derivative_evaluations_monitored', 'parameters_with_hostile_values_huge',
            'parameters_with_hostile_values_tiny', 'histories_with_file_of_8KiB_or_more', 'crash_histories_with_file_of_8KiB_or_more',
            'second_estimate_fresh_start_without_file', 'second_estimate_same_object_with_file', 'models_with_16-41_parameters']
    need += ['algorithm_' + a for a in ALGOS]
    for k in need:
        if cov.get(k, 0) == 0:
            out.append(f'monitor/coverage counter never incremented: {k}')
    if cov.get('strace_attach_failed', 0) > 0.02 * max(1, cov.get('syscall_stop_points', 0)):
        out.append(f'strace could not attach {cov["strace_attach_failed"]} time(s) (after 4 attempts each) for {cov.get("syscall_stop_points", 0)} '
                   'system-call stop points obtained: enumeration incomplete')
    return out
