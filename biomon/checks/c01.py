"""C01 — every expression evaluates to its mathematical value on both paths.

Workload: seeded random expression DAGs (+ a parent-op x slot x child-op
position sweep) over random small tables. Monitors: reference evaluator on the
generator's AST, engine proxy + independent signature decoder, metamorphic
partners (DAG vs tree copy, alone vs side by side in BIOGEME.simulate, engine
vs pure-Python evaluator), by-name parameter override.
Thorough adds the same workload on an ASan/UBSan build of the pinned engine.
"""
from __future__ import annotations

import copy
import os
import random

import numpy as np

from .. import env
from ..rec import Rec, stable_hash, close, maxrel

LEVEL = 'exploration'
RULE = (
    'cases = seeded random expression DAGs (depth<=6, <=60 nodes, sub-tree objects shared under several parents) '
    'over random tables (1-8 rows) plus a forced (parent operator, child slot, child operator) sweep; a case is '
    'non-trivial when the reference evaluator accepts it as inside the regular domain and well-conditioned '
    '(float64 vs 80-bit agreement 1e-12, no branch decision within 1e-6 of a tie, no |intermediate|>1e100) and it '
    'has >= 3 operator nodes; distinct = hash of (AST, shared sub-trees, data, parameters)'
)
ASSUMPTIONS = [
    'numpy/scipy float64 + long double arithmetic as reference semantics (biomon/oracle/evalast.py, self-tested '
    'against a third eval()-based route at every run)',
    'engine normal CDF accepted at rtol 1e-6 / atol 1e-8 (calibrated: rational approximation inside external engine)',
    'the installed cythonbiogeme 1.0.4 engine is the one biogeme pins; thorough rebuilds it from the sources shipped '
    'in its wheel with -fsanitize=address,undefined',
]
MIN_DISTINCT = {'quick': 300, 'thorough': 5000}
CASE_TIMEOUT = 120

N_RANDOM = {'quick': 700, 'thorough': 30000}
SWEEP_REPS = {'quick': 1, 'thorough': 3}


def cases(seed, tier):
    from ..gen import exprs

    out = [{'seed': seed, 'i': i, 'mode': 'random'} for i in range(N_RANDOM[tier])]
    k = 0
    for rep in range(SWEEP_REPS[tier]):
        for parent, nslots in exprs.PARENT_SLOTS.items():
            for slot in range(nslots):
                for child in exprs.CHILD_KINDS:
                    out.append({'seed': seed, 'i': k, 'mode': 'force', 'force': [parent, slot, child], 'rep': rep})
                    k += 1
    # directed, the same at every run whatever the seed: the two shapes on which the external engine is known to deviate
    out += [{'seed': 'directed', 'i': 2 * j, 'mode': 'directed', 'which': j} for j in range(len(DIRECTED))]
    return out


_DATA = {'a': [1.0, -1.0, 2.0, 0.0, 3.0], 'x': [0.1, 0.25, 1.0, 20230101.0, 16777217.0], 'y': [0.5, 1.5, 2.5, 3.5, 4.5]}
DIRECTED = [
    {'ast': ['condsum', [[['share', 0], ['num', 10.0]], [['share', 0], ['num', 100.0]]]], 'shared': [['gt', ['var', 'a'], ['num', 0.0]]]},
    {'ast': ['add', ['mul', ['beta', 'b'], ['var', 'y']],
             ['condsum', [[['share', 0], ['var', 'y']], [['le', ['var', 'a'], ['num', 0.0]], ['num', 7.0]], [['share', 0], ['exp', ['beta', 'b']]]]]],
     'shared': [['gt', ['var', 'a'], ['num', 0.0]]]},
    {'ast': ['belongs', ['var', 'x'], [0.1]], 'shared': []},
    {'ast': ['add', ['belongs', ['var', 'x'], [20230101, 5]], ['mul', ['num', 2.0], ['belongs', ['var', 'x'], [16777217]]]], 'shared': []},
    {'ast': ['belongs', ['var', 'x'], [True, 0.25]], 'shared': []},
]


def warmup():
    import biogeme.biogeme  # noqa
    import biogeme.expressions  # noqa
    import biogeme.database  # noqa
    from ..monitors import engine_proxy

    engine_proxy.install()


def selftest():
    """The reference evaluator is cross-checked against a trivially simple
    third route (AST rendered as numpy source and eval-ed)."""
    from ..gen import exprs
    from ..oracle import evalast

    bad = []
    n = 0
    for i in range(120):
        spec = exprs.make_case(987, i, allow_logit=False)
        bv = {k: v[0] for k, v in spec['betas'].items()}
        j = evalast.judge(spec['ast'], spec['data'], bv, spec['shared'])
        if not j['ok']:
            continue
        try:
            src = evalast.to_source(spec['ast'], spec['shared'])
        except NotImplementedError:
            continue
        v = evalast.eval_source(src, spec['data'], bv)
        n += 1
        if not close(v, j['value'], 1e-11, 1e-12):
            bad.append(f'evalast vs eval-source differ on selftest case {i}')
    if n < 20:
        bad.append(f'selftest compared only {n} cases')
    return bad


def _tol(ops):
    if 'ncdf' in ops:
        return 1e-6, 1e-8
    return 1e-9, 1e-11


def _subst_row(node, data, row):
    if isinstance(node, list):
        if node and node[0] == 'var':
            return ['num', float(data[node[1]][row])]
        if node and node[0] == 'linutil':
            return ['multsum', [['mul', ['beta', b], ['num', float(data[x][row])]] for b, x in node[1]], 'list']
        return [_subst_row(x, data, row) for x in node]
    return node


def _walk(node, shared, fn, seen=None):
    """apply fn to every list node of the tree (shared sub-trees once)"""
    seen = set() if seen is None else seen
    if not isinstance(node, list) or not node:
        return
    if node[0] == 'share':
        if node[1] not in seen:
            seen.add(node[1])
            _walk(shared[node[1]], shared, fn, seen)
        return
    fn(node)
    for x in node[1:]:
        if isinstance(x, list):
            _walk(x, shared, fn, seen)
            for y in x:
                if isinstance(y, list):
                    _walk(y, shared, fn, seen)
                    for z in y:
                        if isinstance(z, list):
                            _walk(z, shared, fn, seen)


def _map(node, fn):
    """rebuild a tree bottom-up, fn applied to every operator node"""
    if not isinstance(node, list):
        return node
    out = [_map(x, fn) for x in node]
    return fn(out) if out and isinstance(out[0], str) else out


def _engine_defect_shapes(spec):
    """Two shapes on which the EXTERNAL engine is known to deviate (known findings, classified structurally):
    a ConditionalSum in which one condition object governs several terms (the engine keys the terms by the condition
    object and keeps one), and BelongsTo members that single precision cannot represent (the engine parses the members
    as float). Returns [(mechanism, alternative ast, alternative shared)] describing what the defect would compute."""
    found = {'cond': False, 'f32': False}

    def look(n):
        if n[0] == 'condsum':
            refs = [tuple(c) for c, _ in n[1] if isinstance(c, list) and c and c[0] == 'share']
            if len(refs) != len(set(refs)):
                found['cond'] = True
        if n[0] == 'belongs' and any(float(np.float32(float(m))) != float(m) for m in n[2]):
            found['f32'] = True

    _walk(spec['ast'], spec['shared'], look)
    for a in spec.get('extra_asts', []):
        _walk(a, spec['shared'], look)
    for a in spec['shared']:
        # also the shared sub-trees no formula refers to any more: they are evaluated side by side as formulas of their own
        _walk(a, spec['shared'], look)

    def last_term(n):
        if n[0] == 'condsum':
            keep = {}
            for k, (c, t) in enumerate(n[1]):
                keep[tuple(c) if c and c[0] == 'share' else ('#', k)] = [c, t]
            return ['condsum', list(keep.values())]
        return n

    def first_term(n):
        if n[0] == 'condsum':
            keep = {}
            for k, (c, t) in enumerate(n[1]):
                keep.setdefault(tuple(c) if c and c[0] == 'share' else ('#', k), [c, t])
            return ['condsum', list(keep.values())]
        return n

    def single(n):
        if n[0] == 'belongs':
            return ['belongs', n[1], [float(np.float32(float(m))) for m in n[2]]]
        return n

    alts = []
    M_COND = 'conditional-sum-one-condition-object-for-several-terms-keeps-one-term'
    M_F32 = 'belongs-to-set-member-read-in-single-precision'
    if found['cond']:
        for f in (last_term, first_term):
            alts.append((M_COND, f))
    if found['f32']:
        alts.append((M_F32, single))
    if found['cond'] and found['f32']:
        for f in (last_term, first_term):
            alts.append((M_COND, lambda n, f=f: single(f(n))))
    return [(m, lambda ast, f=f: _map(ast, f)) for m, f in alts]


def _neutralised(spec):
    """the same formula without the two engine-defect shapes: every term of a ConditionalSum gets its own condition object
    (an inline copy of the shared condition) and BelongsTo members are rounded to single precision, so that engine and
    reference agree again and every other monitor can still be applied to the case"""
    import copy

    sp = copy.deepcopy(spec)

    def fix(n):
        if n[0] == 'condsum':
            seen = set()
            for t in n[1]:
                c = t[0]
                if isinstance(c, list) and c and c[0] == 'share':
                    if c[1] in seen:
                        t[0] = copy.deepcopy(sp['shared'][c[1]])
                    seen.add(c[1])
        if n[0] == 'belongs':
            n[2] = sorted({float(np.float32(float(m))) for m in n[2]})
        return n

    sp['shared'] = [_map(a, fix) for a in sp['shared']]
    sp['ast'] = _map(sp['ast'], fix)
    sp['extra_asts'] = [_map(a, fix) for a in sp.get('extra_asts', [])]
    return sp


def _judge_on_defect_shapes(spec, shapes, rec):
    """per-row engine value of every formula of the case against the reference; a mismatch that equals what the known
    engine defect computes is reported under that defect's mechanism, any other mismatch under the ordinary one"""
    from ..gen import build, exprs
    from ..oracle import evalast

    bv = {k: v[0] for k, v in spec['betas'].items()}
    for which, ast in enumerate([spec['ast']] + list(spec.get('extra_asts', [])) + list(spec['shared'][:2])):
        one = dict(spec, ast=ast, extra_asts=[])
        j = evalast.judge(ast, spec['data'], bv, spec['shared'])
        if not j['ok']:
            continue
        rtol, atol = _tol(exprs.ops_in(ast, spec['shared']))
        try:
            e, _ = build.build(one)
            va = np.asarray(e.get_value_c(database=build.database(one), prepare_ids=True), dtype=float)
        except BaseException as ex_:  # noqa
            rec.violation(f'C01/get_value_c-raises-{type(ex_).__name__}', f'{ex_}', {'spec': one})
            continue
        rec.ev()
        rec.c('defect_shape_formulas_judged')
        ref = j['value']
        if va.shape == ref.shape and close(va, ref, rtol, atol):
            continue
        for mech, tr in shapes:
            try:
                alt, _ = evalast.evaluate(tr(ast), spec['data'], bv, [tr(a) for a in spec['shared']])
            except (evalast.OutOfDomain, KeyError):
                continue
            if va.shape == alt.shape and close(va, alt, rtol, atol):
                rec.violation('C01/' + mech, f'get_value_c={va.tolist()} reference={ref.tolist()}; the engine value equals the formula with '
                              f'{"one term kept per condition object" if "conditional" in mech else "the set members rounded to single precision"}: '
                              f'{alt.tolist()}', {'spec': one, 'ref': ref, 'engine': va})
                break
        else:
            rec.violation('C01/engine-value-differs-from-reference', f'get_value_c={va.tolist()} reference={ref.tolist()}', {'spec': one, 'ref': ref, 'engine': va})


def run_case(case):
    from ..gen import exprs, build
    from ..oracle import evalast, signature
    from ..monitors import engine_proxy as ep
    from biogeme.exceptions import BiogemeError

    rec = Rec(case)
    if case['mode'] == 'force':
        spec = exprs.make_case(case['seed'], case['i'], force=case['force'], max_depth=3, extra=0)
    elif case['mode'] == 'directed':
        spec = dict(DIRECTED[case['which']], data=_DATA, betas={'b': [0.3, 0]}, extra_asts=[])
    else:
        spec = exprs.make_case(case['seed'], case['i'], extra=random.Random(case['i']).choice([0, 0, 1, 2, 4]),
                               wide=(case['i'] % 2 == 1))
    shapes = _engine_defect_shapes(spec)
    if shapes:
        # judged as written on the per-row path, then every other monitor runs on the same formula without the two shapes
        rec.c('cases_with_shared_condition_or_single_precision_member')
        _judge_on_defect_shapes(spec, shapes, rec)
        spec = _neutralised(spec)
    bv = {k: v[0] for k, v in spec['betas'].items()}
    j = evalast.judge(spec['ast'], spec['data'], bv, spec['shared'])
    if not j['ok']:
        rec.c('rejected_' + j['reason'].split(':')[0])
        return rec.out()
    ops = exprs.ops_in(spec['ast'], spec['shared'])
    rtol, atol = _tol(ops)
    ref = j['value']
    size = exprs.ast_size(spec['ast'], spec['shared'])
    nontrivial = size >= 3
    wit = {'spec': spec, 'ref': ref}

    def viol(mech, msg, **kw):
        w = dict(wit)
        w.update(kw)
        rec.violation('C01/' + mech, msg, w)

    def guarded(label, fn):
        """run the real code; an exception on a regular-domain formula is a refutation"""
        try:
            return True, fn()
        except BaseException as e:  # noqa
            viol(f'{label}-raises-{type(e).__name__}', f'{label} raised {type(e).__name__}: {e}')
            return False, None

    expr, _ = build.build(spec)
    db = build.database(spec)

    # (a) per-row compiled evaluation
    ep.reset()
    ok, va = guarded('get_value_c', lambda: expr.get_value_c(database=db, prepare_ids=True))
    if not ok:
        return rec.out()
    rec.ev()
    if nontrivial:
        rec.key([spec['ast'], spec['shared'], spec['data'], spec['betas']])
    for o in ops:
        rec.c('op_' + o)
    if case['mode'] == 'force':
        rec.c('sweep_%s_%d_%s' % tuple(case['force']))
    for pc in exprs.parent_child_pairs(spec['ast'], spec['shared']):
        rec.c('edge_%s>%s' % pc)
    if spec['shared']:
        rec.c('cases_with_shared_subtrees')
    rec.sample({'ast': spec['ast'], 'shared': spec['shared'], 'betas': spec['betas'],
                'data': spec['data'], 'reference': ref, 'engine': va})
    va = np.asarray(va, dtype=float)
    if va.shape != ref.shape or not close(va, ref, rtol, atol):
        viol('engine-value-differs-from-reference', f'get_value_c={va.tolist()} reference={ref.tolist()} maxrel={maxrel(va, ref) if va.shape == ref.shape else "shape"}',
             engine=va)
    # (f) signature actually handed over, decoded independently
    h = ep.last_expression_handover()
    if h and h['signature'] is not None:
        rec.c('handover_decoded')
        try:
            ast2, sh2, info = signature.decode(h['signature'], h['free'], h['fixed'], h['columns'])
            for p in info['problems']:
                viol('handover-invariant', p, signature=[s.decode() for s in h['signature']])
            # named leaf <-> vector position
            for lf in info['leaves']['beta']:
                vec = h['free'] if lf['status'] == 0 else h['fixed']
                if 0 <= lf['id'] < len(vec) and lf['name'] in bv and float(vec[lf['id']]) != float(bv[lf['name']]):
                    viol('handover-beta-index-designates-other-parameter',
                         f'Beta {lf["name"]} (value {bv[lf["name"]]}) carries index {lf["id"]} where the vector holds {vec[lf["id"]]}')
                if spec['betas'].get(lf['name'], [None, lf['status']])[1] != lf['status']:
                    viol('handover-beta-status', f'Beta {lf["name"]} serialised with status {lf["status"]}')
            v2, _ = evalast.evaluate(ast2, spec['data'], info['betas'], sh2)
            rec.ev()
            if not close(v2, ref, 1e-11, 1e-13):
                viol('serialised-formula-differs-from-specification',
                     f'decoded signature evaluates to {v2.tolist()} reference={ref.tolist()}',
                     signature=[s.decode() for s in h['signature']])
            if h['nrows'] != len(ref):
                viol('handover-rows', f'{h["nrows"]} rows handed over for {len(ref)} rows')
        except evalast.OutOfDomain:
            rec.c('decoded_out_of_domain')
        except signature.SignatureError as e:
            viol('handover-signature-unparsable', str(e), signature=[s.decode() for s in h['signature']])
    else:
        rec.inconc('engine proxy saw no hand-over')

    # (b) aggregated
    ok, vb = guarded('get_value_c-aggregated', lambda: expr.get_value_c(database=db, prepare_ids=True, aggregation=True))
    if ok:
        rec.ev()
        if not close(vb, ref.sum(), rtol * 10, atol * len(ref) * 10 + 1e-12 * np.abs(ref).sum()):
            viol('aggregated-value-differs-from-sum', f'aggregated={vb} sum of reference={ref.sum()}')

    # (d) DAG vs tree copy (sharing a sub-formula changes nothing)
    if spec['shared']:
        spec_t = spec
        et, _ = build.build(spec_t, tree_copy=True)
        ok, vt = guarded('get_value_c-treecopy', lambda: et.get_value_c(database=db, prepare_ids=True))
        if ok:
            rec.ev()
            rec.c('dag_vs_tree_compared')
            if not close(vt, va, 1e-13, 1e-15):
                viol('shared-subtree-changes-value', f'DAG={va.tolist()} tree={np.asarray(vt).tolist()}')

    # (c) function value returned together with derivatives (only where the engine differentiates)
    nondiff = {'belongs', 'and', 'or', 'eq', 'ne', 'le', 'ge', 'lt', 'gt'}
    if not (ops & nondiff) and case['i'] % 2 == 0:
        try:
            r = expr.get_value_and_derivatives(database=db, prepare_ids=True, aggregation=False,
                                               gradient=True, hessian=True, bhhh=True)
            rec.ev()
            rec.c('value_with_derivatives_compared')
            if not close(r.functions, ref, rtol, atol):
                viol('value-with-derivatives-differs', f'functions={np.asarray(r.functions).tolist()} ref={ref.tolist()}')
        except BaseException as e:
            viol(f'get_value_and_derivatives-raises-{type(e).__name__}', str(e))

    # (h) by-name override of parameter values
    if spec['betas'] and case['i'] % 3 == 0:
        rr = random.Random(case['i'] * 7 + 1)
        # betas= is documented as 'values of the free parameters'
        over = {k: round(v + rr.uniform(-0.3, 0.3), 3) for k, v in bv.items() if spec['betas'][k][1] == 0 and rr.random() < 0.6}
        # boundary values a by-name override must honour literally: exact zero (float / int / bool), negative zero
        for k in list(over):
            if rr.random() < 0.35:
                over[k] = rr.choice([0.0, 0, False, -0.0, 1, True])
                rec.c('override_with_boundary_value')
        if over:
            bv2 = dict(bv)
            bv2.update({k: float(v) for k, v in over.items()})
            j2 = evalast.judge(spec['ast'], spec['data'], bv2, spec['shared'])
            if j2['ok']:
                ok, vo = guarded('get_value_c-betas', lambda: expr.get_value_c(database=db, prepare_ids=True, betas=over))
                if ok:
                    rec.ev()
                    rec.c('override_compared')
                    if not close(vo, j2['value'], rtol, atol):
                        viol('override-by-name-differs', f'betas={over} engine={np.asarray(vo).tolist()} ref={j2["value"].tolist()}')

    # (e) several formulas side by side through BIOGEME.simulate
    if spec.get('extra_asts') or case['i'] % 4 == 0:
        from biogeme.biogeme import BIOGEME
        from biogeme.parameters import Parameters

        forms = {'main': spec['ast']}
        for k, a in enumerate(spec.get('extra_asts', [])):
            forms[f'extra{k}'] = a
        for k, a in enumerate(spec['shared'][:2]):
            forms[f'sharedpart{k}'] = a
        refs = {}
        for nm, a in forms.items():
            jj = evalast.judge(a, spec['data'], bv, spec['shared'])
            if jj['ok']:
                refs[nm] = jj['value']
        if len(refs) >= 2:
            # one build so that shared objects are shared *across* formulas too
            multi = dict(spec)
            multi['ast'] = ['multsum', [forms[nm] for nm in refs], 'list']
            top, _ = build.build(multi)
            objs = dict(zip(refs, top.get_children()))
            try:
                dbh = build.database(spec)
                bg = BIOGEME(dbh, objs, parameters=Parameters())
                free = bg.free_beta_names
                sim = bg.simulate({n: bv[n] for n in free})
                rec.c('side_by_side_runs')
                for nm in refs:
                    rec.ev()
                    o2 = exprs.ops_in(forms[nm], spec['shared'])
                    rt, at = _tol(o2)
                    if not close(sim[nm].to_numpy(), refs[nm], rt, at):
                        viol('side-by-side-value-differs', f'formula {nm}: simulate={sim[nm].tolist()} ref={refs[nm].tolist()}',
                             formulas=forms)
                # history: one of the formulas evaluated directly (ids re-prepared and restored), then simulate again
                if case['i'] % 2 == 0:
                    nm0 = next(iter(refs))
                    tol0 = _tol(exprs.ops_in(forms[nm0], spec['shared']))
                    # on the very same Database object the model was built on (ids already attached for it):
                    # by-name override, then the default values again, then changed initial values, then the
                    # columns of that same object put in another order
                    free0 = [b_ for b_ in sorted(bv) if spec['betas'][b_][1] == 0]
                    rr2 = random.Random(case['i'] * 31 + 7)
                    over2 = {b_: round(bv[b_] + rr2.uniform(-0.3, 0.3), 3) for b_ in free0 if rr2.random() < 0.7}
                    if over2:
                        bvo = dict(bv)
                        bvo.update(over2)
                        jo = evalast.judge(forms[nm0], spec['data'], bvo, spec['shared'])
                        if jo['ok']:
                            vo2 = objs[nm0].get_value_c(database=dbh, prepare_ids=True, betas=over2)
                            rec.ev()
                            if not close(vo2, jo['value'], *tol0):
                                viol('override-on-formula-owned-by-BIOGEME-differs', f'betas={over2}: {np.asarray(vo2).tolist()} vs {jo["value"].tolist()}')
                    vd = objs[nm0].get_value_c(database=dbh, prepare_ids=True)
                    rec.ev()
                    rec.c('history_on_the_model_database')
                    if not close(vd, refs[nm0], *tol0):
                        viol('default-values-not-used-after-an-override-on-the-same-database',
                             f'{np.asarray(vd).tolist()} vs {refs[nm0].tolist()}')
                    direct = objs[nm0].get_value_c(database=build.database(spec), prepare_ids=True)
                    rec.ev()
                    if not close(direct, refs[nm0], *_tol(exprs.ops_in(forms[nm0], spec['shared']))):
                        viol('direct-evaluation-of-formula-owned-by-BIOGEME-differs', f'{np.asarray(direct).tolist()} vs {refs[nm0].tolist()}')
                    sim2 = bg.simulate({n: bv[n] for n in free})
                    rec.ev()
                    rec.c('simulate_after_direct_evaluation')
                    for nm in refs:
                        if not np.array_equal(sim2[nm].to_numpy(), sim[nm].to_numpy(), equal_nan=True):
                            viol('simulate-changes-after-direct-evaluation-of-one-formula',
                                 f'formula {nm}: {sim2[nm].tolist()} vs {sim[nm].tolist()}', formulas=forms)
                            break
                    # columns of the same Database object put in another order, then a direct evaluation
                    cols2 = list(dbh.data.columns)
                    rr2.shuffle(cols2)
                    dbh.data = dbh.data[cols2]
                    vc = objs[nm0].get_value_c(database=dbh, prepare_ids=True)
                    rec.ev()
                    if not close(vc, refs[nm0], *tol0):
                        viol('value-changes-after-reordering-the-columns-of-the-same-database',
                             f'columns {cols2}: {np.asarray(vc).tolist()} vs {refs[nm0].tolist()}')
                    # new initial values through change_init_values, then a direct evaluation on the same database
                    newv = {b_: round(bv[b_] + rr2.uniform(-0.2, 0.2), 3) for b_ in free0}
                    if newv:
                        bvn = dict(bv)
                        bvn.update(newv)
                        jn = evalast.judge(forms[nm0], spec['data'], bvn, spec['shared'])
                        if jn['ok']:
                            objs[nm0].change_init_values(newv)
                            vn = objs[nm0].get_value_c(database=dbh, prepare_ids=True)
                            rec.ev()
                            if not close(vn, jn['value'], *tol0):
                                viol('changed-initial-values-not-used-on-the-same-database',
                                     f'{newv}: {np.asarray(vn).tolist()} vs {jn["value"].tolist()}')
            except BaseException as e:
                viol(f'simulate-raises-{type(e).__name__}', f'{e}', formulas=forms)

    # (i) history: the SAME expression object on another database (columns in another order, rows permuted and one
    #     repeated), then on the first one again; ids prepared for one evaluation must not leak into the next
    if case['i'] % 3 == 1:
        import pandas as pd
        import biogeme.database as dbm

        rr = random.Random(case['i'] * 13 + 5)
        cols = list(spec['data'])
        rr.shuffle(cols)
        nrow = len(ref)
        perm = list(range(nrow))
        rr.shuffle(perm)
        perm.append(perm[0])
        data2 = {c: [spec['data'][c][k] for k in perm] for c in cols}
        data2['zz_extra_column'] = [float(k) for k in range(len(perm))]
        order2 = ['zz_extra_column'] + cols if rr.random() < 0.5 else cols + ['zz_extra_column']
        db2 = dbm.Database('gen2', pd.DataFrame({c: data2[c] for c in order2}))
        ok, v2 = guarded('get_value_c-second-database', lambda: expr.get_value_c(database=db2, prepare_ids=True))
        if ok:
            rec.ev()
            rec.c('second_database_compared')
            if not close(v2, ref[perm], rtol, atol):
                viol('same-expression-on-second-database-differs',
                     f'columns {order2}, rows {perm}: {np.asarray(v2).tolist()} vs {ref[perm].tolist()}')
        ok, v3 = guarded('get_value_c-first-database-again', lambda: expr.get_value_c(database=db, prepare_ids=True))
        if ok:
            rec.ev()
            if not close(v3, va, 1e-13, 1e-15):
                viol('value-changes-after-evaluation-on-another-database', f'{np.asarray(v3).tolist()} vs {va.tolist()}')

    # (e') pure-Python evaluator on the data-free version of row 0
    if case['i'] % 2 == 1 or case['mode'] == 'force':
        row = 0
        s0 = dict(spec)
        s0['ast'] = _subst_row(spec['ast'], spec['data'], row)
        s0['shared'] = [_subst_row(a, spec['data'], row) for a in spec['shared']]
        e0, _ = build.build(s0)
        try:
            pv = e0.get_value()
            accepted = True
        except (NotImplementedError, BiogemeError):
            accepted = False
            rec.c('python_evaluator_not_accepting')
        except BaseException as e:
            accepted = False
            viol(f'python-evaluator-raises-{type(e).__name__}', f'{e}', row=row)
        if accepted:
            rec.ev()
            rec.c('python_evaluator_compared')
            if not close(pv, ref[row], rtol, atol):
                viol('python-evaluator-differs', f'get_value()={pv} reference={ref[row]}', row=row)
        ok, cv = guarded('get_value_c-nodatabase', lambda: e0.get_value_c(prepare_ids=True))
        if ok:
            rec.ev()
            if not close(cv, ref[row], rtol, atol):
                viol('datafree-engine-value-differs', f'get_value_c()={cv} reference={ref[row]}', row=row)
    return rec.out()


def finalize(cov, tier):
    """coverage requirements: every operator kind seen; sweep holes reported"""
    from ..gen import exprs

    out = []
    need = ['add', 'sub', 'mul', 'div', 'pow', 'powc', 'neg', 'exp', 'log', 'logzero', 'sin', 'cos', 'ncdf', 'min', 'max',
            'and', 'or', 'eq', 'ne', 'le', 'ge', 'lt', 'gt', 'belongs', 'multsum', 'elem', 'condsum', 'linutil', 'loglogit',
            'beta', 'var', 'num', 'bool']
    missing = [o for o in need if cov.get('op_' + o, 0) == 0]
    if missing:
        out.append(f'operator kinds never evaluated: {missing}')
    holes = 0
    total = 0
    for parent, ns in exprs.PARENT_SLOTS.items():
        for slot in range(ns):
            for child in exprs.CHILD_KINDS:
                total += 1
                if cov.get(f'sweep_{parent}_{slot}_{child}', 0) == 0:
                    holes += 1
    cov['sweep_pairs_total'] = total
    cov['sweep_pairs_unreached'] = holes
    if holes > 0.25 * total:
        out.append(f'position sweep reached only {total - holes}/{total} (parent, slot, child) triples')
    for k in ('python_evaluator_compared', 'side_by_side_runs', 'dag_vs_tree_compared', 'handover_decoded',
              'second_database_compared', 'simulate_after_direct_evaluation', 'history_on_the_model_database'):
        if cov.get(k, 0) == 0:
            out.append(f'monitor never evaluated: {k}')
    # keep the evidence readable: fold the per-triple / per-edge counters
    for k in [k for k in cov if k.startswith('sweep_') and k not in ('sweep_pairs_total', 'sweep_pairs_unreached')]:
        del cov[k]
    edges = [k for k in cov if k.startswith('edge_')]
    cov['distinct_parent_child_operator_edges'] = len(edges)
    for k in edges:
        del cov[k]
    return out


def extra(seed, tier, workdir):
    from . import _sanitizer

    if tier != 'thorough' and not _sanitizer.available('asan'):
        return []
    n = 3000 if tier == 'thorough' else 150
    return _sanitizer.run_under_asan('C01', 'biomon.checks.c01', [{'seed': seed + 1000, 'i': i, 'mode': 'random'} for i in range(n)],
                                     workdir, tier)
