"""C03 — parameters are identified by name everywhere, never by position of appearance.

Workload: seeded logit / regression specifications (2-8 parameters, free and
fixed mixed, bounds none / one-sided / two-sided / active at the optimum) whose
parameter names are met in an order that differs from the alphabetical one.
Each specification O is run next to S (same names, terms / alternatives /
formulas / tables re-ordered) and R (S with all parameters renamed through a
bijection: order-reversing, rotating, scrambling, prefix tricks, case flips,
numeric suffixes, fresh names).

Monitors (all at public boundaries of the real code):
 * reference log likelihood / gradient / Hessian / BHHH keyed by NAME
   (biomon.oracle.c03_ref on top of the independent numpy evaluator);
 * metamorphic partners O / S / R (same vector for S, rho-mapped values for R);
 * engine proxy: the vectors really handed to the C++ engine hold, at the index
   written in each Beta leaf of the serialised formula, the value supplied for
   that leaf's name; literal ids are 0..K-1;
 * spy on the optimisation algorithm: (starting values, bounds, names) triples;
 * results objects after estimate(): estimates, bounds, activity flag, standard
   errors, covariances, t-tests, sensitivity draws by name;
 * by-name dictionaries: simulate(dict), beta_values_dict_to_list,
   get_value_c(betas=partial), named derivatives, change_init_values, fix_betas;
 * names shared by two kinds of element are refused (BiogemeError);
 * histories: the same Beta / sub-expression objects in several successively built
   models, interleaved with stand-alone evaluations, change_init_values, fix_betas,
   nest correlation; every live model is judged against the by-name reference and
   the hand-over monitor after every step; a stand-alone evaluation must give the
   evaluated expression back the id manager it carried;
 * saved-iteration histories: successive specifications under one model name in one
   private working directory (save_iterations on): fixed parameters keep exactly the
   value they were given whatever the file written by the previous specification holds.
"""
from __future__ import annotations

import copy
import itertools
import math
import os
import random

import numpy as np

from .. import env
from ..rec import Rec, stable_hash, close, maxrel

LEVEL = 'exploration'
RULE = (
    'cases = seeded model specifications (multinomial logit with 2-4 alternatives, optional availabilities / weights / '
    'extra simulated formulas, or a least-squares regression; 2-8 parameters with random free/fixed status and bounds) '
    'x one bijective renaming of ALL parameters (8 families incl. order-reversing) x one re-ordering of terms, '
    'alternatives, formulas and tables, plus random partial name->value dictionaries; a case is non-trivial when it has '
    '>= 2 free parameters, every parameter moves the log likelihood, the order of first appearance differs from the '
    'alphabetical order in O or between O and S, and the renaming is not order preserving (or S changes the appearance '
    'order); distinct = hash of (specification, renaming map, re-ordered specification); directed cases: the '
    'kind x kind x entry-point matrix of duplicated names and the fixed-parameter update through '
    'BIOGEME.change_init_values; second family = histories on SHARED expression objects: one Beta object per name and a pool of '
    'shared sub-expressions used in 2-3 successively built BIOGEME models whose name sets number the shared parameters '
    'differently, interleaved with stand-alone get_value_c(prepare_ids=True) (with/without betas=), change_init_values, '
    'fix_betas and NestsForNestedLogit.correlation() on the shared objects; after every step live models are judged '
    '(simulate / calculate_likelihood vs the by-name reference + hand-over monitor); a history is non-trivial when it '
    'built >= 2 models and simulated at least one of them; distinct = hash of (names, pool, steps); third family = 2-4 '
    'successive specifications estimated under ONE model name in ONE private working directory with save_iterations on '
    '(default Parameters): between them parameters go free->fixed at another value, fixed->free, are renamed (some/all, '
    'possibly onto a name another parameter had), added, removed, so the saved-iteration file names parameters that are '
    'now fixed / absent and lacks free ones; judged: fixed parameters keep exactly the given value (Beta objects, '
    'fixed_betas_values, every engine call), reported likelihood = reference at the reported estimates by name, '
    'the gradient held by the results matches the reference derivative name by name; neither the starting point (C15) nor the quality of the stopping point (C07) is judged; distinct = hash of the specification sequence'
)
ASSUMPTIONS = [
    'reference semantics = biomon/oracle/evalast.py (numpy, complex-step derivatives), guarded at every run by a closed-form '
    'multinomial logit written without it (selftest)',
    'estimates compared under renaming at max(1e-6, 20 x the optimiser tolerance set for the case) absolute, final log '
    'likelihood at 1e-7 relative ("up to the optimiser\'s tolerance"); deterministic quantities at 1e-9..1e-10 relative',
    'the documented numbering (IdManager.prepare: "sorted by alphabetical order") is what free_beta_names must follow; '
    'vectors given to calculate_likelihood are built from free_beta_names as a careful user would',
    'a model whose parameter changed status through fix_betas on a shared object after it was built is another '
    'specification from then on: it is retired from the history, not judged',
    'Monte-Carlo and panel specifications are not part of this workload (their parameters go through the same '
    'IdManager numbering; draws are covered by C10/C11)',
]
MIN_DISTINCT = {'quick': 300, 'thorough': 3000}
CASE_TIMEOUT = 600  # generous: a case needs 1-3 s of CPU; the watchdog only guards against hangs on a loaded machine
SHARD_TIMEOUT = {'quick': 1800, 'thorough': 14400}

N_MODELS = {'quick': 360, 'thorough': 3000}
EST_EVERY = 3  # one case out of EST_EVERY estimates O, S and R
N_HISTORIES = {'quick': 240, 'thorough': 2400}
N_ITERFILE = {'quick': 120, 'thorough': 1200}

DUP_KINDS = ['free-fixed', 'free-var', 'fixed-var', 'free-unusedcol', 'free-draws', 'fixed-draws', 'free-rv',
             'draws-var', 'rv-var', 'rv-draws', 'free-fixed-across-formulas', 'free-var-across-formulas']
DUP_ENTRIES = ['biogeme', 'get_value_c', 'create_function', 'simulate']


def cases(seed, tier):
    from ..gen import c03_models as gm

    out = []
    nren = len(gm.RENAMINGS)
    for i in range(N_MODELS[tier]):
        out.append({'mode': 'model', 'seed': seed, 'i': i, 'est': (i % EST_EVERY == 0), 'ren': gm.RENAMINGS[i % nren]})
    for k in DUP_KINDS:
        for e in DUP_ENTRIES:
            out.append({'mode': 'dup', 'kind': k, 'entry': e, 'seed': seed})
    for v in range(4):
        out.append({'mode': 'directed-fixed-update', 'variant': v, 'seed': seed})
    for i in range(N_HISTORIES[tier]):
        out.append({'mode': 'history', 'seed': seed, 'i': i, 'directed': None})
    for i in range(N_ITERFILE[tier]):
        out.append({'mode': 'iterfile', 'seed': seed, 'i': i, 'directed': None})
    for shape in ('free-to-fixed', 'free-to-fixed-then-back'):
        for v in range(3):
            out.append({'mode': 'iterfile', 'seed': 0, 'i': 9000 + v, 'directed': shape})
    for shape in ('c03c-shape', 'nest-shape', 'older-model-shape'):
        for v in range(3):
            out.append({'mode': 'history', 'seed': 0, 'i': 9000 + v, 'directed': shape})
    return out


def extra(seed, tier, workdir):
    """the same workload (every family, evenly sub-sampled) on the ASan/UBSan build of the pinned engine"""
    from . import _sanitizer

    return _sanitizer.asan_stage_on_sample('C03', 'biomon.checks.c03', cases(seed + 1000, tier), workdir, tier, 40, 800)


def warmup():
    import biogeme.biogeme  # noqa
    import biogeme.expressions  # noqa
    import biogeme.database  # noqa
    import biogeme.results  # noqa
    from ..monitors import engine_proxy

    engine_proxy.install()
    _install_optimizer_spy()


# ---------------------------------------------------------------------------
# oracle guard


def selftest():
    """evalast-based reference vs a closed-form MNL written without it; renaming
    machinery (bijections, inverse) checked on the way."""
    from ..oracle import c03_ref as ref
    from ..gen import c03_models as gm

    bad = []
    rng = np.random.default_rng(5)
    N, J, K = 9, 3, 4
    X = rng.normal(size=(N, J, K)).round(3)
    y = rng.integers(0, J, N)
    names = ['zeta', 'B', 'b10', 'b2']
    beta = np.array([0.3, -0.7, 0.15, 0.9])
    data = {f'x{j}{k}': X[:, j, k].tolist() for j in range(J) for k in range(K)}
    data['ch'] = [float(v + 1) for v in y]
    utils = [[j + 1, ['multsum', [['mul', ['beta', names[k]], ['var', f'x{j}{k}']] for k in range(K)], 'list']]
             for j in range(J)]
    ast = ['loglogit', utils, None, ['var', 'ch'], 'log']
    model = {'data': data, 'weight': None}
    vals = dict(zip(names, beta.tolist()))
    ll, g, H, B = ref.closed_form_mnl(X, y, beta)
    if not close(ref.loglike(ast, model, vals), ll, 1e-12, 1e-12):
        bad.append('reference LL differs from closed-form MNL')
    d = ref.derivatives(ast, model, vals, names)
    if not close([d['gradient'][n] for n in names], g, 1e-10, 1e-12):
        bad.append('reference gradient differs from closed-form MNL')
    if not close([[d['hessian'][(n, m)] for m in names] for n in names], H, 1e-6, 1e-7):
        bad.append('reference hessian differs from closed-form MNL')
    if not close([[d['bhhh'][(n, m)] for m in names] for n in names], B, 1e-10, 1e-12):
        bad.append('reference BHHH differs from closed-form MNL')
    # the reference must be sensitive to a swap of two parameters (else it could not see a mix-up)
    sw = dict(vals)
    sw['zeta'], sw['B'] = sw['B'], sw['zeta']
    if close(ref.loglike(ast, model, sw), ll, 1e-6, 1e-6):
        bad.append('reference LL insensitive to a swap')
    # renamings are bijections and renaming the spec commutes with evaluation
    n_ok = 0
    for i in range(40):
        m = gm.make_model(991, i, estimation=False)
        r = random.Random(i)
        for kind in gm.RENAMINGS:
            rho = gm.renaming(m, kind, r)
            if sorted(rho) != sorted(m['betas']) or len(set(rho.values())) != len(rho):
                bad.append(f'renaming {kind} is not a bijection on selftest model {i}')
                continue
            mr = gm.rename(gm.shuffle_terms(m, r), rho)
            v0 = {k: v[0] for k, v in m['betas'].items()}
            v1 = {rho[k]: v for k, v in v0.items()}
            a = ref.loglike(gm.loglike_ast(m), m, v0)
            b = ref.loglike(gm.loglike_ast(mr), mr, v1)
            if not close(a, b, 1e-11, 1e-12):
                bad.append(f'reference not invariant under renaming {kind} on selftest model {i}')
            n_ok += 1
    if n_ok < 100:
        bad.append('renaming selftest compared too few cases')
    return bad[:10]


# ---------------------------------------------------------------------------
# spies


OPT_CALLS: list[dict] = []
_spy_installed = False


def _install_optimizer_spy():
    """record what BIOGEME.optimize hands to the optimisation algorithm"""
    global _spy_installed
    if _spy_installed:
        return
    import biogeme.optimization as opt

    def wrap(fn):
        def spy(*a, **k):
            try:
                OPT_CALLS.append({
                    'init': [float(v) for v in k.get('init_betas', [])],
                    'bounds': [tuple(b) for b in k.get('bounds', [])],
                    'names': None if k.get('variable_names') is None else list(k.get('variable_names')),
                    'positional': len(a),
                })
            except Exception as e:  # pragma: no cover
                OPT_CALLS.append({'error': repr(e)})
            return fn(*a, **k)

        spy.__wrapped__ = fn
        return spy

    for name, fn in list(opt.algorithms.items()):
        opt.algorithms[name] = wrap(fn)
    _spy_installed = True


def _params(tol=None, algo=None, boot=0):
    from biogeme.parameters import Parameters

    p = Parameters()
    p.set_value('save_iterations', False, 'Estimation')
    p.set_value('generate_html', False, 'Output')
    p.set_value('generate_pickle', False, 'Output')
    p.set_value('number_of_threads', 1, 'MultiThreading')
    if tol is not None:
        p.set_value('tolerance', tol, 'SimpleBounds')
    if algo is not None:
        p.set_value('optimization_algorithm', algo, 'Estimation')
    if boot:
        p.set_value('bootstrap_samples', int(boot), 'Estimation')
    return p


def _all_betas(exprs):
    """every Beta object reachable from the expressions (id()-keyed: Expression defines __eq__)"""
    import biogeme.expressions as ex

    seen = {}
    out = []
    stack = list(exprs)
    while stack:
        e = stack.pop()
        if id(e) in seen:
            continue
        seen[id(e)] = True
        if isinstance(e, ex.Beta):
            out.append(e)
        try:
            stack.extend(e.get_children())
        except Exception:
            pass
    return out


def _build_formulas(model, forms: dict, share: bool):
    """dict formula name -> real biogeme expression, same key order as `forms`"""
    from ..gen import build, c03_models as gm

    keys = list(forms)
    if share and len(keys) > 1:
        spec = gm.spec_for_build(model, ['multsum', [forms[k] for k in keys], 'list'], one_beta_object=True)
        top, _ = build.build(spec)
        ch = top.get_children()
        return {k: c for k, c in zip(keys, ch)}
    out = {}
    for k in keys:
        e, _ = build.build(gm.spec_for_build(model, forms[k], one_beta_object=share))
        out[k] = e
    return out


def _eq_bound(a, b):
    return (a is None and b is None) or (a is not None and b is not None and float(a) == float(b))


def _bounds_of(model, n):
    b = model['bounds'].get(n)
    return (None, None) if b is None else (b[0], b[1])


def _perm_explains(obs: dict, refd: dict, rtol, atol):
    """obs/refd: name -> value. Is there a non identity re-attachment of the observed
    values to names that matches the reference? (pairing defect vs numerical defect)"""
    names = list(refd)
    if len(names) > 8:
        return False
    ov = sorted(float(obs[n]) for n in names)
    rv = sorted(float(refd[n]) for n in names)
    return all(close(a, b, rtol, atol) for a, b in zip(ov, rv))


# ---------------------------------------------------------------------------
# one specification observed through the public API


class Watch:
    """runs one variant (O, S or R) and reports what was observed BY NAME, translated
    back to the names of O through `back` (identity for O and S)."""

    def __init__(self, rec: Rec, tag: str, model: dict, order, share: bool, back: dict, case, viol):
        from ..gen import c03_models as gm

        self.rec = rec
        self.tag = tag
        self.model = model
        self.order = order
        self.share = share
        self.back = back  # variant name -> O name
        self.fwd = {v: k for k, v in back.items()}
        self.case = case
        self._viol = viol
        self.forms = gm.formulas(model, order)
        self.used = gm.appearance_order(model, order)
        self.free = sorted(n for n in self.used if model['betas'][n][1] == 0)
        self.fixed = sorted(n for n in self.used if model['betas'][n][1] != 0)
        self.init = {n: model['betas'][n][0] for n in self.used}
        self.bg = None
        self.exprs = None
        self.ok = False

    def viol(self, mech, msg, **kw):
        w = {'variant': self.tag, 'model': self.model, 'formula_order': list(self.forms), 'share_objects': self.share}
        w.update(kw)
        self._viol(mech, f'[{self.tag}] {msg}', w)

    # -- construction --------------------------------------------------------
    def construct(self, tol=None, algo=None, boot=0):
        from ..gen import build
        from biogeme.biogeme import BIOGEME

        try:
            self.exprs = _build_formulas(self.model, self.forms, self.share)
            self.db = build.database({'data': self.model['data']})
            arg = self.exprs if (len(self.exprs) > 1 or self.case['i'] % 2) else self.exprs['log_like']
            self.bg = BIOGEME(self.db, arg, parameters=_params(tol, algo, boot))
            self.bg.modelName = f'c03_{self.tag}'
        except BaseException as e:
            self.viol(f'construction-raises-{type(e).__name__}', f'BIOGEME(...) raised {type(e).__name__}: {e}')
            return False
        self.ok = True
        return True

    # -- A. numbering -----------------------------------------------------------
    def names_and_bounds(self):
        rec, bg, model = self.rec, self.bg, self.model
        names = list(bg.free_beta_names)
        self.names = names
        rec.ev()
        rec.c('free_beta_names_observed')
        if names != self.free:
            if sorted(names) == self.free:
                self.viol('free-beta-names-not-in-documented-sorted-order',
                          f'free_beta_names={names} but the documented numbering is sorted: {self.free}')
            else:
                self.viol('free-beta-names-wrong-set', f'free_beta_names={names}, free parameters of the specification: {self.free}')
        if bg.number_unknown_parameters() != len(self.free):
            self.viol('number-unknown-parameters', f'{bg.number_unknown_parameters()} != {len(self.free)}')
        # bounds by name, and the positional list handed to optimisers paired with the names
        for n in names:
            if n not in model['betas']:
                continue
            try:
                b = bg.get_bounds_on_beta(n)
            except BaseException as e:
                self.viol(f'get-bounds-on-beta-raises-{type(e).__name__}', f'get_bounds_on_beta({n!r}): {e}')
                continue
            rec.ev()
            rec.c('bounds_by_name_compared')
            want = _bounds_of(model, n)
            if not (_eq_bound(b[0], want[0]) and _eq_bound(b[1], want[1])):
                self.viol('get-bounds-on-beta-returns-bounds-of-another-parameter',
                          f'get_bounds_on_beta({n!r})={tuple(b)} specification says {want}', name=n)
        bl = list(bg.id_manager.bounds)
        if len(bl) != len(names):
            self.viol('bounds-list-length', f'{len(bl)} bounds for {len(names)} names')
        else:
            for i, n in enumerate(names):
                if n not in model['betas']:
                    continue
                want = _bounds_of(model, n)
                rec.ev()
                if not (_eq_bound(bl[i][0], want[0]) and _eq_bound(bl[i][1], want[1])):
                    self.viol('bounds-list-not-paired-with-names',
                              f'id_manager.bounds[{i}]={tuple(bl[i])} sits at the position of {n!r} whose bounds are {want}', name=n)
                    break
        # fixed parameters are not among the unknowns, free ones all are
        for n in self.fixed:
            if n in names:
                self.viol('fixed-parameter-listed-as-free', f'{n!r} (status 1) is in free_beta_names')
        # initial values reported by name
        try:
            gb = bg.get_beta_values()
            rec.ev()
            for n in self.free:
                if n not in gb or float(gb[n]) != float(self.init[n]):
                    self.viol('get-beta-values-initial-value-of-another-parameter',
                              f'BIOGEME.get_beta_values()[{n!r}]={gb.get(n)} specification says {self.init[n]}', name=n)
                    break
        except BaseException as e:
            self.viol(f'get-beta-values-raises-{type(e).__name__}', str(e))

    # -- B. what is handed to the engine -------------------------------------------
    def _handover(self, entry, supplied_free: dict, what):
        """entry: engine proxy log entry of calculateLikelihood(AndDerivatives) / simulateSeveralFormulas"""
        from ..oracle import signature

        rec = self.rec
        args = entry['args']
        if what == 'sim':
            sigs, free_vec, fixed_vec = args[0], list(args[1]), list(args[2])
            cols = args[3]['columns'] if isinstance(args[3], dict) else None
        else:
            sigs = None
            free_vec, fixed_vec = list(args[0]), list(args[1])
            cols = None
            for c in entry['owner'].calls:
                if c['op'] == 'setExpressions':
                    sigs = [c['args'][0]] + ([c['args'][2]] if len(c['args']) > 2 else [])
                if c['op'] == 'setData':
                    cols = c['args'][0]['columns']
            if what == 'deriv':
                ids = [int(v) for v in list(args[2])]
                rec.ev()
                rec.c('handover_literal_ids_checked')
                if ids != list(range(len(free_vec))):
                    self.viol('handover-literal-ids-not-0-to-K-1', f'literal ids handed to the engine: {ids}')
        if sigs is None:
            rec.inconc('engine proxy: no signature seen for a likelihood call')
            return
        for sig in sigs:
            try:
                _, _, info = signature.decode(sig, free_vec, fixed_vec, cols)
            except signature.SignatureError as e:
                self.viol('handover-signature-unparsable', str(e))
                continue
            for p in info['problems']:
                self.viol('handover-invariant', p)
            for lf in info['leaves']['beta']:
                nm = lf['name']
                rec.ev()
                rec.c('handover_beta_leaves_checked')
                if nm not in self.model['betas']:
                    continue
                st = self.model['betas'][nm][1]
                if (lf['status'] != 0) != (st != 0):
                    self.viol('handover-beta-status', f'Beta {nm!r} serialised with status {lf["status"]}, specification says {st}')
                    continue
                vec = free_vec if st == 0 else fixed_vec
                want = supplied_free[nm] if st == 0 else self.init[nm]
                if not (0 <= lf['id'] < len(vec)):
                    self.viol('handover-beta-index-out-of-range', f'Beta {nm!r} carries index {lf["id"]}, vector length {len(vec)}')
                elif float(vec[lf['id']]) != float(want):
                    self.viol('handover-beta-index-designates-value-of-another-parameter' if st == 0
                              else 'handover-fixed-beta-index-designates-another-value',
                              f'Beta {nm!r} carries index {lf["id"]} where the vector handed over holds {vec[lf["id"]]}; '
                              f'the value supplied for that name is {want}', name=nm)

    def _last(self, op):
        from ..monitors import engine_proxy as ep

        for e in reversed(ep.LOG):
            if e.get('op') == op and e.get('kind') == 'biogeme':
                return e
        return None

    # -- C. likelihood and derivatives at a point given by name ---------------------
    def likelihood(self, point: dict, with_hessian: bool):
        """point: variant name -> value for the free parameters. Returns observations keyed by O names."""
        from ..oracle import c03_ref as ref
        from ..monitors import engine_proxy as ep

        rec, bg, model = self.rec, self.bg, self.model
        names = self.names
        if sorted(names) != self.free:
            return None
        x = [point[n] for n in names]
        values = dict(self.init)
        values.update(point)
        ast = self.forms['log_like']
        out = {}
        try:
            rll = ref.loglike(ast, model, values)
        except Exception as e:
            rec.c('reference_out_of_domain')
            rec.info['ood'] = repr(e)
            return None
        try:
            ll = bg.calculate_likelihood(x, scaled=False)
        except BaseException as e:
            self.viol(f'calculate-likelihood-raises-{type(e).__name__}', str(e), point=point)
            return None
        rec.ev()
        rec.c('likelihood_vs_reference')
        out['ll'] = float(ll)
        if not close(ll, rll, 1e-9, 1e-10):
            self.viol('likelihood-differs-from-reference-with-values-assigned-by-name',
                      f'calculate_likelihood({dict(zip(names, x))})={ll!r} reference={rll!r}', point=point, reference=rll)
        e = self._last('calculateLikelihood')
        if e is not None:
            self._handover(e, point, 'll')
        else:
            rec.inconc('engine proxy saw no calculateLikelihood')
        # derivatives, positional arrays paired with free_beta_names
        try:
            r = bg.calculate_likelihood_and_derivatives(x, scaled=False, hessian=with_hessian, bhhh=True)
        except BaseException as e:
            self.viol(f'calculate-likelihood-and-derivatives-raises-{type(e).__name__}', str(e), point=point)
            return out
        e = self._last('calculateLikelihoodAndDerivatives')
        if e is not None:
            self._handover(e, point, 'deriv')
        d = ref.derivatives(ast, model, values, names, hessian=with_hessian)
        g = np.asarray(r.gradient, dtype=float)
        gobs = {n: float(g[i]) for i, n in enumerate(names)}
        out['gradient'] = {self.back[n]: v for n, v in gobs.items()}
        scale = max(1.0, max(abs(v) for v in d['gradient'].values()))
        rec.ev()
        rec.c('gradient_vs_reference_by_name')
        if not close(r.function, rll, 1e-9, 1e-10):
            self.viol('likelihood-with-derivatives-differs-from-reference', f'{r.function!r} vs {rll!r}', point=point)
        if not all(close(gobs[n], d['gradient'][n], 1e-7, 1e-8 * scale) for n in names):
            if _perm_explains(gobs, d['gradient'], 1e-7, 1e-8 * scale):
                self.viol('gradient-entries-attached-to-other-parameters',
                          f'gradient by free_beta_names {gobs} reference by name {d["gradient"]}', point=point)
            else:
                rec.c('derivative_mismatch_not_a_permutation')
                rec.inconc(f'[{self.tag}] gradient differs from the reference and no re-pairing explains it (C02 territory): '
                           f'{gobs} vs {d["gradient"]}')
        from ..gen import c03_models as gm

        in_ll = [n for n in names if n in set(gm.betas_in(ast))]
        nontriv = all(abs(d['gradient'][n]) > 1e-6 * scale for n in in_ll) and len(
            {round(d['gradient'][n] / scale, 7) for n in in_ll}) == len(in_ll)
        out['all_parameters_move_ll'] = nontriv
        if model.get('weight') is None:
            bh = np.asarray(r.bhhh, dtype=float)
            out['bhhh'] = {(self.back[n], self.back[m]): float(bh[i, j]) for i, n in enumerate(names) for j, m in enumerate(names)}
            sc = max(1.0, max(abs(v) for v in d['bhhh'].values()))
            rec.ev()
            rec.c('bhhh_vs_reference_by_name')
            bad = [(n, m) for i, n in enumerate(names) for j, m in enumerate(names)
                   if not close(bh[i, j], d['bhhh'][(n, m)], 1e-6, 1e-8 * sc)]
            if bad:
                diag_o = {n: float(bh[i, i]) for i, n in enumerate(names)}
                diag_r = {n: d['bhhh'][(n, n)] for n in names}
                if _perm_explains(diag_o, diag_r, 1e-6, 1e-8 * sc):
                    self.viol('bhhh-entries-attached-to-other-parameters', f'pairs {bad[:4]} differ; diagonal {diag_o} vs {diag_r}', point=point)
                else:
                    rec.c('derivative_mismatch_not_a_permutation')
                    rec.inconc(f'[{self.tag}] BHHH differs from the reference, not a re-pairing')
        if with_hessian:
            h = np.asarray(r.hessian, dtype=float)
            out['hessian'] = {(self.back[n], self.back[m]): float(h[i, j]) for i, n in enumerate(names) for j, m in enumerate(names)}
            sc = max(1.0, max(abs(v) for v in d['hessian'].values()))
            rec.ev()
            rec.c('hessian_vs_reference_by_name')
            bad = [(n, m) for i, n in enumerate(names) for j, m in enumerate(names)
                   if not close(h[i, j], d['hessian'][(n, m)], 2e-5, 2e-6 * sc)]
            if bad:
                diag_o = {n: float(h[i, i]) for i, n in enumerate(names)}
                diag_r = {n: d['hessian'][(n, n)] for n in names}
                if _perm_explains(diag_o, diag_r, 2e-5, 2e-6 * sc):
                    self.viol('hessian-entries-attached-to-other-parameters', f'pairs {bad[:4]} differ; diagonal {diag_o} vs {diag_r}', point=point)
                else:
                    rec.c('derivative_mismatch_not_a_permutation')
                    rec.inconc(f'[{self.tag}] Hessian differs from the reference, not a re-pairing: {bad[:3]}')
        return out

    # -- D. simulate(dict) -----------------------------------------------------------
    def simulate(self, point: dict, r: random.Random):
        from ..oracle import c03_ref as ref
        from biogeme.exceptions import BiogemeError

        rec, bg, model = self.rec, self.bg, self.model
        names = self.names
        if sorted(names) != self.free:
            return None
        values = dict(self.init)
        values.update(point)
        refs = {}
        try:
            for k, a in self.forms.items():
                refs[k] = ref.rows(a, model['data'], values)
        except Exception as e:
            rec.c('reference_out_of_domain')
            rec.info['ood'] = repr(e)
            return None
        items = list(point.items())
        r.shuffle(items)
        d1 = dict(items)
        out = {}

        def run(d, label):
            try:
                return True, bg.simulate(d)
            except BaseException as e:
                self.viol(f'simulate-{label}-raises-{type(e).__name__}', f'simulate({d}) raised {type(e).__name__}: {e}', dictionary=d)
                return False, None

        ok, sim = run(d1, 'full-dictionary')
        if not ok:
            return None
        e = self._last('simulateSeveralFormulas')
        if e is not None:
            self._handover(e, point, 'sim')
        else:
            rec.inconc('engine proxy saw no simulateSeveralFormulas')
        if list(sim.columns) != list(self.forms):
            self.viol('simulate-columns-not-the-formula-names', f'{list(sim.columns)} vs {list(self.forms)}')
        for k in self.forms:
            if k not in sim.columns:
                continue
            rec.ev()
            rec.c('simulate_formula_vs_reference')
            got = sim[k].to_numpy(dtype=float)
            out[k] = got
            if got.shape != refs[k].shape or not close(got, refs[k], 1e-9, 1e-11):
                self.viol('simulate-differs-from-reference-with-values-assigned-by-name',
                          f'formula {k!r}: simulate({d1})={got.tolist()} reference={refs[k].tolist()}', dictionary=d1, formula=k)
        # the list the dictionary is turned into follows free_beta_names
        try:
            lst = bg.beta_values_dict_to_list(d1)
            rec.ev()
            rec.c('dict_to_list_checked')
            if [float(v) for v in lst] != [float(point[n]) for n in names]:
                self.viol('beta-values-dict-to-list-not-ordered-by-free-beta-names',
                          f'beta_values_dict_to_list({d1})={lst} free_beta_names={names}', dictionary=d1)
        except BaseException as e:
            self.viol(f'beta-values-dict-to-list-raises-{type(e).__name__}', str(e))
        # other entry order, extra names (unknown + fixed names with other values): only a warning, same numbers
        items2 = list(reversed(items))
        extra = {'not_a_parameter_': 9.75}
        for n in self.fixed:
            extra[n] = self.init[n] + 1.5
        items2 = items2 + list(extra.items())
        r.shuffle(items2)
        d2 = dict(items2)
        ok, sim2 = run(d2, 'extra-names')
        if ok:
            for k in self.forms:
                if k in sim2.columns and k in out:
                    rec.ev()
                    rec.c('simulate_entry_order_and_extra_names')
                    if not close(sim2[k].to_numpy(dtype=float), out[k], 1e-13, 0.0):
                        which = 'fixed parameter does not keep its value when the dictionary names it' if self.fixed and close(
                            sim2[k].to_numpy(dtype=float), ref.rows(self.forms[k], model['data'], {**values, **{n: extra[n] for n in self.fixed}}), 1e-9, 1e-11
                        ) else 'result depends on entry order / extra names'
                        self.viol('simulate-fixed-parameter-overridden-by-dictionary' if which.startswith('fixed')
                                  else 'simulate-depends-on-dictionary-entry-order-or-extra-names',
                                  f'formula {k!r}: {which}: {sim2[k].tolist()} vs {out[k].tolist()}', dictionary=d2, formula=k)
                        break
        # a missing free name is refused
        if len(names) >= 1:
            miss = r.choice(names)
            d3 = {k: v for k, v in d1.items() if k != miss}
            try:
                res = bg.simulate(d3)
                self.viol('simulate-missing-name-not-refused', f'simulate without {miss!r} returned {res.to_numpy().tolist()[:2]}', dictionary=d3)
            except BiogemeError:
                rec.ev()
                rec.c('simulate_missing_name_refused')
            except BaseException as e:
                self.viol(f'simulate-missing-name-raises-{type(e).__name__}', str(e), dictionary=d3)
        return out


# ---------------------------------------------------------------------------
# expression-level dictionaries (not attached to a BIOGEME object)


def _expression_dicts(rec, viol, model, forms, r: random.Random, tag):
    """get_value_c(betas=partial), named derivatives, change_init_values, fix_betas"""
    from ..gen import build, c03_models as gm
    from ..oracle import c03_ref as ref

    ast = forms['log_like']
    used = gm.betas_in(ast)
    free = sorted(n for n in used if model['betas'][n][1] == 0)
    fixed = sorted(n for n in used if model['betas'][n][1] != 0)
    init = {n: model['betas'][n][0] for n in used}
    db = build.database({'data': model['data']})

    def V(mech, msg, **kw):
        w = {'variant': tag, 'model': model}
        w.update(kw)
        viol(mech, f'[{tag}] {msg}', w)

    def fresh(one=False):
        e, _ = build.build(gm.spec_for_build(model, ast, one_beta_object=one))
        return e

    def newval(n):
        return round(init[n] + r.choice([-1, 1]) * r.uniform(0.11, 0.7), 3)

    # (1) partial dictionary: named ones overridden, ALL others at their initial value
    for rep in range(2):
        sub = [n for n in free if r.random() < (0.5 if rep == 0 else 0.25)]
        over = {n: newval(n) for n in sub}
        if r.random() < 0.4:
            over['unknown_name_'] = 3.25
        items = list(over.items())
        r.shuffle(items)
        over = dict(items)
        vals = dict(init)
        vals.update({k: v for k, v in over.items() if k in init})
        try:
            want = ref.rows(ast, model['data'], vals)
        except Exception as ex_:
            rec.c('reference_out_of_domain')
            rec.info['ood'] = repr(ex_)
            continue
        e = fresh(one=bool(rep))
        try:
            got = np.asarray(e.get_value_c(database=db, betas=over, prepare_ids=True), dtype=float)
        except BaseException as ex_:
            V(f'get-value-c-partial-dictionary-raises-{type(ex_).__name__}', f'get_value_c(betas={over}): {ex_}', betas=over)
            continue
        rec.ev()
        rec.c('partial_dictionary_vs_reference')
        if len(sub) < len(free):
            rec.c('partial_dictionary_with_unnamed_free_parameters')
        if got.shape != want.shape or not close(got, want, 1e-9, 1e-11):
            # which wrong rule explains it?
            alt0 = dict(vals)
            for n in free:
                if n not in over:
                    alt0[n] = 0.0
            try:
                zero_fallback = close(got, ref.rows(ast, model['data'], alt0), 1e-9, 1e-11)
            except Exception:
                zero_fallback = False
            V('partial-dictionary-unnamed-parameters-not-at-initial-value' if zero_fallback
              else 'partial-dictionary-value-differs-from-reference',
              f'get_value_c(betas={over})={got.tolist()} reference (named overridden, others initial)={want.tolist()}', betas=over)
        # named derivatives: dict name -> value reported by the library
        if rep == 0 and free:
            try:
                nr = e.get_value_and_derivatives(betas=over, database=db, gradient=True, hessian=False, bhhh=False,
                                                 aggregation=True, prepare_ids=True, named_results=True)
                gd = {k: float(v) for k, v in nr.gradient.items()}
            except BaseException as ex_:
                V(f'named-derivatives-raise-{type(ex_).__name__}', str(ex_), betas=over)
                gd = None
            if gd is not None:
                d = ref.derivatives(ast, {'data': model['data'], 'weight': None}, vals, free, hessian=False)
                sc = max(1.0, max(abs(v) for v in d['gradient'].values()))
                rec.ev()
                rec.c('named_gradient_vs_reference')
                if sorted(gd) != free:
                    V('named-gradient-wrong-names', f'{sorted(gd)} vs {free}')
                elif not all(close(gd[n], d['gradient'][n], 1e-7, 1e-8 * sc) for n in free):
                    if _perm_explains(gd, d['gradient'], 1e-7, 1e-8 * sc):
                        V('named-gradient-attached-to-other-parameters', f'{gd} reference {d["gradient"]}', betas=over)
                    else:
                        rec.c('derivative_mismatch_not_a_permutation')
                        rec.inconc(f'[{tag}] named gradient differs from reference, not a re-pairing')
    # a dictionary that names a FIXED parameter: recorded, not judged (documented as "values of the free parameters")
    if fixed:
        e = fresh()
        n = fixed[0]
        try:
            got = np.asarray(e.get_value_c(database=db, betas={n: init[n] + 1.5}, prepare_ids=True), dtype=float)
            keep = close(got, ref.rows(ast, model['data'], init), 1e-9, 1e-11)
            rec.c('info_betas_dict_naming_fixed_parameter_ignored' if keep else 'info_betas_dict_naming_fixed_parameter_applied')
        except BaseException:
            rec.c('info_betas_dict_naming_fixed_parameter_raises')

    # (2) Expression.change_init_values(partial): exactly the named ones change (free or fixed alike)
    e = fresh(one=r.random() < 0.5)
    objs = _all_betas([e])
    sub = [n for n in used if r.random() < 0.5] or [r.choice(used)]
    q = {n: newval(n) for n in sub}
    if r.random() < 0.4:
        q['nobody_'] = -4.5
    items = list(q.items())
    r.shuffle(items)
    q = dict(items)
    before = [(b.name, b.initValue, b.status, b.lb, b.ub) for b in objs]
    try:
        e.change_init_values(q)
    except BaseException as ex_:
        V(f'change-init-values-raises-{type(ex_).__name__}', str(ex_), dictionary=q)
    else:
        rec.ev()
        rec.c('expression_change_init_values')
        for b, (nm, v0, st, lb, ub) in zip(objs, before):
            want = q.get(nm, v0)
            if b.name != nm or b.status != st or b.lb != lb or b.ub != ub:
                V('change-init-values-alters-name-status-or-bounds', f'{(nm, st, lb, ub)} -> {(b.name, b.status, b.lb, b.ub)}', dictionary=q)
                break
            if float(b.initValue) != float(want):
                V('change-init-values-touches-unnamed-parameter' if nm not in q else 'change-init-values-named-parameter-not-updated',
                  f'Beta {nm!r}: value {b.initValue} after change_init_values({q}), expected {want}', dictionary=q, name=nm)
                break
        vals = dict(init)
        vals.update({k: v for k, v in q.items() if k in init})
        try:
            want = ref.rows(ast, model['data'], vals)
        except Exception as ex_:
            want = None
            rec.c('reference_out_of_domain')
            rec.info['ood'] = repr(ex_)
        if want is not None:
            try:
                got = np.asarray(e.get_value_c(database=db, prepare_ids=True), dtype=float)
                rec.ev()
                if not close(got, want, 1e-9, 1e-11):
                    V('value-after-change-init-values-differs-from-reference', f'{got.tolist()} vs {want.tolist()}', dictionary=q)
                gb = e.get_beta_values()
                for n in free:
                    if float(gb.get(n, float('nan'))) != float(vals[n]):
                        V('expression-get-beta-values-after-change-init-values', f'get_beta_values()[{n!r}]={gb.get(n)} expected {vals[n]}', dictionary=q)
                        break
            except BaseException as ex_:
                V(f'value-after-change-init-values-raises-{type(ex_).__name__}', str(ex_), dictionary=q)

    # (3) fix_betas(partial[, prefix/suffix]): named ones become fixed at the given value, by name
    if len(free) >= 2:
        e = fresh(one=r.random() < 0.5)
        objs = _all_betas([e])
        k = r.randint(1, len(free) - 1)
        sub = r.sample(free, k)
        q = {n: newval(n) for n in sub}
        q['stranger_'] = 1.0
        items = list(q.items())
        r.shuffle(items)
        q = dict(items)
        pre = r.choice([None, None, 'fx_'])
        suf = r.choice([None, None, '_fixed'])
        before = [(b.name, b.initValue, b.status) for b in objs]
        try:
            e.fix_betas(q, prefix=pre, suffix=suf)
        except BaseException as ex_:
            V(f'fix-betas-raises-{type(ex_).__name__}', str(ex_), dictionary=q)
        else:
            rec.ev()
            rec.c('fix_betas_checked')

            def newname(n):
                return f'{pre or ""}{n}{suf or ""}'

            okk = True
            for b, (nm, v0, st) in zip(objs, before):
                if nm in q:
                    if b.status == 0 or float(b.initValue) != float(q[nm]) or b.name != newname(nm):
                        V('fix-betas-named-parameter-not-fixed-at-given-value',
                          f'Beta {nm!r} after fix_betas({q}, {pre}, {suf}): name {b.name!r} status {b.status} value {b.initValue}', dictionary=q, name=nm)
                        okk = False
                        break
                elif b.status != st or float(b.initValue) != float(v0) or b.name != nm:
                    V('fix-betas-touches-unnamed-parameter', f'Beta {nm!r}: {(st, v0)} -> {(b.name, b.status, b.initValue)}', dictionary=q, name=nm)
                    okk = False
                    break
            if okk:
                # the modified expression inside a BIOGEME object: remaining free names, likelihood by name
                from biogeme.biogeme import BIOGEME

                m2 = copy.deepcopy(model)
                rho = {n: (newname(n) if n in sub else n) for n in model['betas']}
                m2 = gm.rename(m2, rho)
                for n in sub:
                    m2['betas'][rho[n]] = [q[n], 1]
                    m2['bounds'].pop(rho[n], None)
                ast2 = gm.loglike_ast(m2)
                free2 = sorted(rho[n] for n in free if n not in sub)
                try:
                    bg = BIOGEME(db, e, parameters=_params())
                    nm2 = list(bg.free_beta_names)
                    rec.ev()
                    if nm2 != free2:
                        V('free-beta-names-after-fix-betas', f'{nm2} expected {free2}', dictionary=q)
                    else:
                        pt = {n: newval(n) if n in init else 0.3 for n in [x for x in free if x not in sub]}
                        vals = {rho[n]: v for n, v in init.items()}
                        vals.update({rho[n]: q[n] for n in sub})
                        vals.update({rho[n]: v for n, v in pt.items()})
                        ll = bg.calculate_likelihood([vals[n] for n in nm2], scaled=False)
                        want = ref.loglike(ast2, {'data': model['data'], 'weight': None}, vals)
                        rec.ev()
                        rec.c('likelihood_after_fix_betas_vs_reference')
                        if not close(ll, want, 1e-9, 1e-10):
                            V('likelihood-after-fix-betas-differs-from-reference', f'{ll!r} vs {want!r}', dictionary=q)
                except BaseException as ex_:
                    V(f'biogeme-after-fix-betas-raises-{type(ex_).__name__}', str(ex_), dictionary=q)


# ---------------------------------------------------------------------------
# BIOGEME.change_init_values (free names) -> initial likelihood, starting point of the optimiser


def _biogeme_change_init(w: Watch, r: random.Random):
    from ..oracle import c03_ref as ref

    rec, bg, model = w.rec, w.bg, w.model
    names = w.names
    if sorted(names) != w.free or not names:
        return None
    sub = [n for n in names if r.random() < 0.5] or [r.choice(names)]
    q = {}
    for n in sub:
        lo, hi = _bounds_of(model, n)
        v = round(w.init[n] + r.choice([-1, 1]) * r.uniform(0.05, 0.3), 3)
        if lo is not None:
            v = max(v, lo)
        if hi is not None:
            v = min(v, hi)
        q[n] = v
    if r.random() < 0.5:
        q['who_is_this_'] = 7.0
    items = list(q.items())
    r.shuffle(items)
    q = dict(items)
    try:
        bg.change_init_values(q)
    except BaseException as e:
        w.viol(f'biogeme-change-init-values-raises-{type(e).__name__}', str(e), dictionary=q)
        return None
    new_init = dict(w.init)
    new_init.update({k: v for k, v in q.items() if k in w.init})
    rec.ev()
    rec.c('biogeme_change_init_values')
    try:
        gb = bg.get_beta_values()
        for n in names:
            if float(gb[n]) != float(new_init[n]):
                w.viol('biogeme-change-init-values-touches-unnamed-parameter' if n not in q
                       else 'biogeme-change-init-values-named-parameter-not-updated',
                       f'get_beta_values()[{n!r}]={gb[n]} after change_init_values({q}); expected {new_init[n]}', dictionary=q, name=n)
                break
        ll0 = bg.calculate_init_likelihood()
        want = ref.loglike(w.forms['log_like'], model, new_init)
        rec.ev()
        if not close(ll0, want, 1e-9, 1e-10):
            w.viol('initial-likelihood-after-change-init-values-differs-from-reference',
                   f'calculate_init_likelihood()={ll0!r} reference with {q} applied by name={want!r}', dictionary=q)
    except BaseException as e:
        w.viol(f'after-biogeme-change-init-values-raises-{type(e).__name__}', str(e), dictionary=q)
    return new_init


# ---------------------------------------------------------------------------
# estimation


def _reported_gradient_by_name(rec, viol, res, names, refgrad, counter):
    """the gradient the results object holds (res.data.g, positions = free_beta_names) must be, entry by entry, the
    reference derivative w.r.t. the parameter of THAT name at the reported estimates. Whether the point is a maximum
    is the optimiser's business (C07), not a naming matter: it is not judged."""
    try:
        g = np.asarray(res.data.g, dtype=float).ravel()
    except Exception:
        return
    if g.shape != (len(names),):
        viol('reported-gradient-length', f'{g.shape} for {len(names)} free parameters')
        return
    obs = {n: float(g[i]) for i, n in enumerate(names)}
    sc = max(1.0, max(abs(v) for v in refgrad.values()))
    rec.ev()
    rec.c(counter)
    if not all(close(obs[n], refgrad[n], 1e-6, 1e-7 * sc) for n in names):
        if _perm_explains(obs, refgrad, 1e-6, 1e-7 * sc):
            viol('reported-gradient-entries-attached-to-other-parameters', f'results gradient by free_beta_names {obs}; reference by name {refgrad}')
        else:
            rec.c('derivative_mismatch_not_a_permutation')




def _estimate(w: Watch, start: dict, tol: float, r: random.Random, boot: int = 0):
    """returns by-O-name observations of the results object"""
    from ..oracle import c03_ref as ref

    rec, bg, model = w.rec, w.bg, w.model
    names = w.names
    if sorted(names) != w.free:
        return None
    objs = _all_betas(list(w.exprs.values()))
    fixed_before = [(b, b.name, b.initValue, b.status) for b in objs if b.status != 0]
    OPT_CALLS.clear()
    np.random.seed(12345)
    try:
        res = bg.estimate(run_bootstrap=bool(boot))
    except BaseException as e:
        w.viol(f'estimate-raises-{type(e).__name__}', f'{e}')
        return None
    rec.c('estimations_run')
    if boot:
        rec.c('estimations_with_bootstrap')
    out = {}
    # what the optimiser was given
    if OPT_CALLS and 'error' not in OPT_CALLS[0]:
        oc = OPT_CALLS[0]
        rec.ev()
        rec.c('optimizer_handover_checked')
        onames = oc['names'] if oc['names'] is not None else names
        if len(oc['bounds']) != len(onames) or len(oc['init']) != len(onames):
            w.viol('optimizer-handover-lengths', f'{oc}')
        else:
            for i, n in enumerate(onames):
                want = _bounds_of(model, n) if n in model['betas'] else None
                if want is not None and not (_eq_bound(oc['bounds'][i][0], want[0]) and _eq_bound(oc['bounds'][i][1], want[1])):
                    w.viol('optimizer-given-bounds-of-another-parameter',
                           f'bounds[{i}]={oc["bounds"][i]} is handed over at the position of {n!r} whose bounds are {want}', name=n)
                    break
                if n in start and float(oc['init'][i]) != float(start[n]):
                    w.viol('optimizer-given-starting-value-of-another-parameter',
                           f'init_betas[{i}]={oc["init"][i]} at the position of {n!r} whose starting value is {start[n]}', name=n)
                    break
    else:
        rec.inconc('optimizer spy saw no call')
    # results by name
    try:
        est = {k: float(v) for k, v in res.get_beta_values().items()}
        table = res.get_estimated_parameters(only_robust=False)
        vc = res.get_var_covar()
        rvc = res.get_robust_var_covar()
        corr = res.get_correlation_results()
        final_ll = float(res.data.logLike)
        converged = bool(res.algorithm_has_converged())
    except BaseException as e:
        w.viol(f'results-accessors-raise-{type(e).__name__}', str(e))
        return None
    rec.ev()
    if sorted(est) != w.free:
        w.viol('results-report-wrong-set-of-parameters', f'{sorted(est)} vs free parameters {w.free}')
        return None
    if list(table.index) != names:
        w.viol('estimated-parameters-table-rows-not-free-beta-names', f'{list(table.index)} vs {names}')
    for n in w.fixed:
        if n in est or n in table.index:
            w.viol('fixed-parameter-reported-as-estimated', f'{n!r}')
    # (i) the reported dictionary is THE point whose likelihood is reported
    values = dict(w.init)
    values.update(est)
    ast = w.forms['log_like']
    try:
        rll = ref.loglike(ast, model, values)
    except Exception as e:
        rec.c('reference_out_of_domain')
        rec.info['ood'] = repr(e)
        return None
    rec.ev()
    rec.c('final_likelihood_vs_reference_at_reported_estimates')
    if not close(final_ll, rll, 1e-9, 1e-9):
        w.viol('reported-estimates-by-name-do-not-give-the-reported-final-likelihood',
               f'results.data.logLike={final_ll!r}; reference at get_beta_values()={est} gives {rll!r}', estimates=est)
    for n in names:
        if n in table.index and float(table.loc[n, 'Value']) != est[n]:
            w.viol('estimated-parameters-table-value-differs-from-get-beta-values', f'{n!r}: {table.loc[n, "Value"]} vs {est[n]}')
            break
    # (ii) bounds and activity flag attached to the right name
    any_active = False
    for b in res.data.betas:
        want = _bounds_of(model, b.name) if b.name in model['betas'] else (None, None)
        rec.ev()
        if not (_eq_bound(b.lb, want[0]) and _eq_bound(b.ub, want[1])):
            w.viol('results-carry-bounds-of-another-parameter', f'results Beta {b.name!r}: bounds {(b.lb, b.ub)}, specification {want}', name=b.name)
            break
        act = (want[0] is not None and abs(est[b.name] - want[0]) <= 1e-6) or (want[1] is not None and abs(est[b.name] - want[1]) <= 1e-6)
        any_active = any_active or act
        out.setdefault('active', {})[w.back[b.name]] = bool(act)
        if 'Active bound' in table.columns:
            flag = float(table.loc[b.name, 'Active bound'])
            if bool(flag) != bool(act):
                w.viol('active-bound-flag-attached-to-another-parameter',
                       f'{b.name!r}: flag {flag}, value {est[b.name]}, bounds {want}', name=b.name)
                break
        elif act:
            w.viol('active-bound-not-flagged', f'{b.name!r} sits on its bound {want} but the table has no Active bound column')
            break
    if any_active:
        rec.c('estimations_with_active_bound')
    # (iii) conditioning of the problem (guards the O/S/R comparison of estimates) and the reported gradient by name
    se, rse, V, d = ref.std_errors(ast, model, values, names)
    try:
        Hm = -np.array([[d['hessian'][(a, b)] for b in names] for a in names], dtype=float)
        eig = np.linalg.eigvalsh(0.5 * (Hm + Hm.T))
        out['well_conditioned'] = bool(eig.min() > 1e-2 and eig.max() / eig.min() < 1e5)
    except Exception:
        out['well_conditioned'] = False
    # (was: stationarity per name. Dropped: whether the reported point is a maximum is C07's subject -- the optimiser may
    #  legitimately stop by its own projected-gradient rule next to a bound; what decides NAME attachment is (i) above and:)
    _reported_gradient_by_name(rec, lambda mech, msg: w.viol(mech, msg), res, names, d['gradient'], 'reported_gradient_by_name_checked')
    if not converged:
        rec.c('estimations_not_converged')
    # (iv) statistics attached to the right name (pairing only: formulas are C08's business)
    cols = {'Std err': se, 'Rob. Std err': rse}
    for col, refd in cols.items():
        if col not in table.columns:
            continue
        obs = {n: float(table.loc[n, col]) for n in names}
        out[col] = {w.back[n]: v for n, v in obs.items()}
        if not all(math.isfinite(v) for v in refd.values()):
            continue
        rec.ev()
        rec.c('standard_errors_pairing_checked')
        if not all(close(obs[n], refd[n], 2e-4, 1e-7) for n in names):
            if _perm_explains(obs, refd, 2e-4, 1e-7):
                w.viol('standard-errors-attached-to-other-parameters', f'{col}: table {obs} reference by name {refd}')
            else:
                rec.c('statistic_mismatch_not_a_permutation')
    for col in ('t-test', 'Rob. t-test'):
        if col in table.columns:
            out[col] = {w.back[n]: float(table.loc[n, col]) for n in names}
    # t-test = value / std err of the SAME row
    if 'Std err' in table.columns:
        for n in names:
            s = float(table.loc[n, 'Std err'])
            if s > 0 and math.isfinite(s) and s < 1e100:
                rec.ev()
                if not close(float(table.loc[n, 't-test']), est[n] / s, 1e-9, 1e-12):
                    others = [m for m in names if m != n and close(float(table.loc[n, 't-test']), est[m] / s, 1e-9, 1e-12)]
                    if others:
                        w.viol('t-test-built-from-the-value-of-another-parameter', f'{n!r}: t={table.loc[n, "t-test"]} value {est[n]} se {s}')
                        break
    # covariance matrices by name pair
    try:
        rec.ev()
        rec.c('covariance_pairing_checked')
        okc = True
        sc = max(1e-12, max(abs(v) for v in V.values()))
        if list(vc.index) != names or list(vc.columns) != names:
            w.viol('var-covar-labels-not-free-beta-names', f'{list(vc.index)}')
        else:
            for n in names:
                for m in names:
                    if not close(float(vc.at[n, m]), V[(n, m)], 5e-4, 1e-6 * sc):
                        okc = False
            if not okc:
                do = {n: float(vc.at[n, n]) for n in names}
                dr = {n: V[(n, n)] for n in names}
                if _perm_explains(do, dr, 5e-4, 1e-6 * sc) and not all(close(do[n], dr[n], 5e-4, 1e-6 * sc) for n in names):
                    w.viol('var-covar-entries-attached-to-other-parameters', f'diagonal {do} reference {dr}')
                else:
                    rec.c('statistic_mismatch_not_a_permutation')
            out['varcovar'] = {(w.back[n], w.back[m]): float(vc.at[n, m]) for n in names for m in names}
            out['robvarcovar'] = {(w.back[n], w.back[m]): float(rvc.at[n, m]) for n in names for m in names}
        # pairs table: 'a-b' rows
        pair = {}
        for lab, row in corr.iterrows():
            hit = [(a, b) for a in names for b in names if a != b and lab == f'{a}-{b}']
            if len(hit) == 1:
                a, b = hit[0]
                pair[frozenset((w.back[a], w.back[b]))] = (float(row['Covariance']), abs(float(row['t-test'])))
                if list(vc.index) == names and not close(float(row['Covariance']), float(vc.at[a, b]), 1e-9, 1e-15):
                    w.viol('correlation-table-pair-carries-covariance-of-another-pair', f'{lab}: {row["Covariance"]} vs var-covar[{a},{b}]={vc.at[a, b]}')
                    break
        out['pairs'] = pair
    except BaseException as e:
        w.viol(f'covariance-accessors-raise-{type(e).__name__}', str(e))
    # (v) fixed parameters: untouched by estimation; free Beta objects carry their own estimate
    rec.ev()
    rec.c('fixed_parameters_after_estimation_checked', len(fixed_before))
    for b, nm, v0, st in fixed_before:
        if b.name != nm or b.status != st or float(b.initValue) != float(v0):
            w.viol('fixed-parameter-changed-by-estimation', f'Beta {nm!r}: value {v0} status {st} -> {b.name!r} {b.initValue} {b.status}', name=nm)
            break
    for b in objs:
        if b.status == 0 and b.name in est and float(b.initValue) != est[b.name]:
            w.viol('free-beta-object-carries-estimate-of-another-parameter',
                   f'after estimate(), Beta {b.name!r}.initValue={b.initValue} but its estimate is {est[b.name]}', name=b.name)
            break
    # (vi) subsets by name, sensitivity draws by name
    try:
        sub = r.sample(names, max(1, len(names) - 1))
        r.shuffle(sub)
        gbv = res.get_beta_values(my_betas=sub)
        rec.ev()
        if list(gbv) != sub or any(float(gbv[n]) != est[n] for n in sub):
            w.viol('get-beta-values-subset-returns-values-of-other-parameters', f'get_beta_values({sub})={gbv} full={est}')
        if all(math.isfinite(v) for v in np.asarray(res.data.robust_varCovar, dtype=float).ravel()):
            np.random.seed(777)
            draws = res.get_betas_for_sensitivity_analysis(sub, size=3, use_bootstrap=False)
            np.random.seed(777)
            import warnings

            with warnings.catch_warnings():
                warnings.simplefilter('ignore')
                expect = np.random.multivariate_normal(np.asarray([est[n] for n in names]), np.asarray(
                    [[float(rvc.at[a, b]) for b in names] for a in names]), 3)
            rec.ev()
            rec.c('sensitivity_draws_by_name_checked')
            for k, dct in enumerate(draws):
                if sorted(dct) != sorted(sub) or not all(close(dct[n], expect[k, names.index(n)], 1e-9, 1e-12) for n in sub):
                    w.viol('sensitivity-draws-attached-to-other-parameters', f'draw {k}: {dct} expected by name {dict(zip(names, expect[k]))}')
                    break
    except BaseException as e:
        w.viol(f'results-subset-accessors-raise-{type(e).__name__}', str(e))
    # (vii) bootstrap: one column per name
    if boot:
        try:
            bcol = [c for c in table.columns if c.startswith('Bootstrap[') and c.endswith('Std err')]
            bmat = np.asarray(res.data.bootstrap, dtype=float)
            rec.ev()
            rec.c('bootstrap_by_name_checked')
            if bmat.shape != (boot, len(names)) or len(bcol) != 1:
                w.viol('bootstrap-results-shape', f'{bmat.shape} columns {bcol}')
            else:
                out['Bootstrap Std err'] = {w.back[n]: float(table.loc[n, bcol[0]]) for n in names}
                out['boot_ok'] = bool(all(math.isfinite(float(table.loc[n, bcol[0]])) and float(table.loc[n, bcol[0]]) <= 5 * max(
                    rse.get(n, 0.0) if math.isfinite(rse.get(n, 0.0)) else 0.0, 1e-3) for n in names) and out.get('well_conditioned'))
                out['bootstrap_mean'] = {w.back[n]: float(bmat[:, k].mean()) for k, n in enumerate(names)}
                sub = list(names)
                r.shuffle(sub)
                dr = res.get_betas_for_sensitivity_analysis(sub, use_bootstrap=True)
                for k, dct in enumerate(dr):
                    if sorted(dct) != sorted(sub) or any(float(dct[n]) != float(bmat[k, names.index(n)]) for n in sub):
                        w.viol('bootstrap-draws-attached-to-other-parameters', f'row {k}: {dct} vs {dict(zip(names, bmat[k]))}')
                        break
                # the bootstrap standard error of a name is the spread of ITS column
                sd = {n: float(np.std(bmat[:, k], ddof=1)) for k, n in enumerate(names)}
                ob = {n: float(table.loc[n, bcol[0]]) for n in names}
                if not all(close(ob[n], sd[n], 1e-9, 1e-12) for n in names) and _perm_explains(ob, sd, 1e-9, 1e-12):
                    w.viol('bootstrap-standard-errors-attached-to-other-parameters', f'{ob} vs column spreads {sd}')
        except BaseException as e:
            w.viol(f'bootstrap-accessors-raise-{type(e).__name__}', str(e))
    out['est'] = {w.back[n]: v for n, v in est.items()}
    out['ll'] = final_ll
    out['converged'] = converged
    out['init_ll'] = res.data.initLogLike
    return out


# ---------------------------------------------------------------------------
# the case


def _run_model(case):
    from ..gen import c03_models as gm
    from ..monitors import engine_proxy as ep

    rec = Rec(case)
    seed, i, est = case['seed'], case['i'], bool(case['est'])
    model = gm.make_model(seed, i, est)
    r = random.Random(f'c03run-{seed}-{i}')
    S = gm.reverse_terms(model) if i % 4 == 1 else gm.shuffle_terms(model, r)
    rho = gm.renaming(model, case['ren'], r)
    R = gm.rename(S, rho)
    nform = len(gm.formulas(model))
    order_o = list(range(nform))
    order_s = order_o[:]
    r.shuffle(order_s)
    order_r = list(reversed(order_o)) if r.random() < 0.5 else order_s
    ident = {n: n for n in model['betas']}
    back_r = {v: k for k, v in rho.items()}

    def viol(mech, msg, witness):
        w = {'renaming': rho, 'renaming_family': case['ren']}
        w.update(witness)
        rec.violation('C03/' + mech, msg, w)

    tol = None
    if est:
        tol = r.choice([None, 1e-7, 1e-9])
    eff_tol = 0.0001220703125 if tol is None else tol
    share = r.random() < 0.5
    boot = 4 if (est and i % 4 == 0) else 0
    if boot and sum(1 for v in model['betas'].values() if v[1] == 0) < 2:
        # (with ONE free parameter estimate(run_bootstrap=True) raises IndexError in bioResults._calculate_stats:
        #  np.cov of a (B, 1) array is 0-dimensional -- a statistics matter (C08), not a naming one; kept out)
        boot = 0
        rec.c('info_bootstrap_skipped_single_free_parameter')
    wo = Watch(rec, 'O', model, order_o, share, ident, case, viol)
    ws = Watch(rec, 'S', S, order_s, r.random() < 0.5, ident, case, viol)
    wr = Watch(rec, 'R', R, order_r, r.random() < 0.5, back_r, case, viol)
    ep.reset()
    for w in (wo, ws, wr):
        if not w.construct(tol=tol, boot=boot):
            return rec.out()
        w.names_and_bounds()
    # the numbering depends on names only
    rec.ev()
    rec.c('numbering_O_vs_S_vs_R_compared')
    if ws.names != wo.names:
        viol('numbering-depends-on-order-of-appearance',
             f'same names, terms re-ordered: free_beta_names {wo.names} became {ws.names}', {'model': model, 'reordered': S})
    if [back_r.get(n) for n in wr.names] != sorted(wo.names, key=lambda n: rho[n]):
        viol('numbering-after-renaming-not-the-sorted-image', f'{wr.names} vs sorted image {sorted(rho[n] for n in wo.names)}',
             {'model': model, 'renamed': R})
    app_o, app_s = wo.used, ws.used
    free_o = wo.free
    # --- points given by name ---------------------------------------------------------
    npts = 2
    obs = {'O': [], 'S': [], 'R': []}
    allmove = False
    for p in range(npts):
        pt = {}
        vals = gm._distinct_values(r, len(free_o), -0.9, 0.9)
        for n, v in zip(free_o, vals):
            lo, hi = _bounds_of(model, n)
            pt[n] = v
        with_h = (p == 0)
        o = wo.likelihood(pt, with_h)
        # S: the SAME positional vector as for O (what "never by position of appearance" means for vector APIs)
        s = ws.likelihood(pt, with_h) if ws.names == wo.names else None
        if ws.names != wo.names and sorted(ws.names) == sorted(wo.names):
            # numbering already reported; show the consequence: same vector, other likelihood
            try:
                x = [pt[n] for n in wo.names]
                lo_ = wo.bg.calculate_likelihood(x, scaled=False)
                ls_ = ws.bg.calculate_likelihood(x, scaled=False)
                if not close(lo_, ls_, 1e-10, 1e-12):
                    viol('same-vector-other-likelihood-after-reordering-terms', f'{x}: {lo_} vs {ls_}', {'model': model, 'reordered': S})
            except BaseException:
                pass
        rr = wr.likelihood({rho[n]: v for n, v in pt.items()}, with_h)
        if o is None:
            continue
        allmove = allmove or bool(o.get('all_parameters_move_ll'))
        for tag, other in (('S', s), ('R', rr)):
            if other is None:
                continue
            rec.ev()
            rec.c(f'likelihood_O_vs_{tag}')
            if not close(other['ll'], o['ll'], 1e-10, 1e-11):
                viol('likelihood-changes-under-term-reordering' if tag == 'S' else 'likelihood-changes-under-renaming',
                     f'LL(O)={o["ll"]!r} LL({tag})={other["ll"]!r} at {pt}', {'model': model, 'partner': S if tag == 'S' else R, 'point': pt})
            for key, rt, at in (('gradient', 1e-8, 1e-9), ('hessian', 1e-8, 1e-9), ('bhhh', 1e-8, 1e-9)):
                if key in o and key in other:
                    sc = max(1.0, max(abs(v) for v in o[key].values()))
                    rec.ev()
                    badk = [k for k in o[key] if not close(other[key].get(k, float('nan')), o[key][k], rt, at * sc)]
                    if badk:
                        viol(f'{key}-not-the-permutation-of-the-original-under-' + ('term-reordering' if tag == 'S' else 'renaming'),
                             f'{key} entries {badk[:4]} differ: O {[o[key][k] for k in badk[:4]]} {tag} {[other[key].get(k) for k in badk[:4]]}',
                             {'model': model, 'partner': S if tag == 'S' else R, 'point': pt})
        # simulate (all variants); O vs S vs R per formula
        if p == 0:
            so = wo.simulate(pt, r)
            ss = ws.simulate(pt, r)
            sr = wr.simulate({rho[n]: v for n, v in pt.items()}, r)
            if so is not None:
                for tag, other in (('S', ss), ('R', sr)):
                    if other is None:
                        continue
                    for k in so:
                        if k in other:
                            rec.ev()
                            rec.c(f'simulate_O_vs_{tag}')
                            if not close(other[k], so[k], 1e-10, 1e-12):
                                viol('simulated-values-change-under-' + ('term-reordering' if tag == 'S' else 'renaming'),
                                     f'formula {k!r}: {so[k].tolist()} vs {other[k].tolist()}', {'model': model, 'partner': S if tag == 'S' else R})
    # --- expression-level dictionaries (on O and on R) ------------------------------------
    _expression_dicts(rec, viol, model, wo.forms, r, 'O')
    _expression_dicts(rec, viol, R, wr.forms, r, 'R')
    # --- BIOGEME.change_init_values on free names, then estimation from there -----------------
    start_o = dict(wo.init)
    start_r = dict(wr.init)
    start_s = dict(ws.init)
    rr2 = random.Random(f'chg-{seed}-{i}')
    if i % 2 == 0:
        st = rr2.getstate()
        ni = _biogeme_change_init(wo, rr2)
        if ni is not None:
            start_o = ni
            # the same dictionary, renamed, on R (and unchanged on S): everything stays comparable
            q = {n: v for n, v in ni.items() if wo.init[n] != v}
            try:
                ws.bg.change_init_values(dict(q))
                wr.bg.change_init_values({rho[n]: v for n, v in q.items()})
                start_s = dict(ws.init)
                start_s.update(q)
                start_r = dict(wr.init)
                start_r.update({rho[n]: v for n, v in q.items()})
            except BaseException as e:
                viol(f'biogeme-change-init-values-raises-{type(e).__name__}', str(e), {'model': model})
    if est:
        eo = _estimate(wo, start_o, eff_tol, r, boot)
        es = _estimate(ws, start_s, eff_tol, r, boot)
        er = _estimate(wr, start_r, eff_tol, r, boot)
        etol = max(1e-6, 20 * eff_tol)
        if eo is not None:
            sep = min([abs(a - b) for a, b in itertools.combinations(eo['est'].values(), 2)] or [1.0])
            rec.c('estimations_with_well_separated_estimates' if sep > 10 * etol else 'estimations_with_close_estimates')
            for tag, other in (('S', es), ('R', er)):
                if other is None:
                    continue
                rec.ev()
                rec.c(f'estimation_O_vs_{tag}')
                if not (eo['converged'] and other['converged']):
                    rec.c('estimation_pair_not_converged')
                    continue
                suffix = 'term-reordering' if tag == 'S' else 'renaming'
                wit = {'model': model, 'partner': S if tag == 'S' else R, 'O': eo['est'], tag: other['est']}
                if not close(other['ll'], eo['ll'], 1e-7, 1e-7):
                    viol(f'final-likelihood-changes-under-{suffix}', f'{eo["ll"]!r} vs {other["ll"]!r}', wit)
                    continue
                if not (eo.get('well_conditioned') and other.get('well_conditioned')):
                    # flat direction of the likelihood: the maximiser is not determined "up to the optimiser's tolerance"
                    rec.c('estimation_pair_ill_conditioned_not_compared')
                    continue
                rec.c(f'estimates_O_vs_{tag}_compared')
                badn = [n for n in eo['est'] if not close(other['est'].get(n, float('nan')), eo['est'][n], etol, etol)]
                if badn:
                    viol(f'estimates-not-attached-to-the-corresponding-parameter-under-{suffix}',
                         f'{[(n, eo["est"][n], other["est"].get(n)) for n in badn[:4]]} (tolerance {etol})', wit)
                    continue
                if eo.get('active') != other.get('active'):
                    viol(f'active-bound-flags-move-under-{suffix}', f'{eo.get("active")} vs {other.get("active")}', wit)
                # bootstrap columns: every resample is a small estimation problem of its own, often nearly flat
                # (estimates in the tens): only a pairing error is looked for, and only on well-behaved resamples
                for col in ('Bootstrap Std err', 'bootstrap_mean'):
                    if col in eo and col in other and eo.get('boot_ok') and other.get('boot_ok'):
                        rec.ev()
                        rec.c('bootstrap_O_vs_%s_compared' % tag)
                        if not all(close(other[col].get(n, float('nan')), eo[col][n], 0.05, 1e-3) for n in eo[col]):
                            if _perm_explains({n: other[col].get(n, float('nan')) for n in eo[col]}, eo[col], 0.05, 1e-3):
                                viol(f'bootstrap-statistics-not-attached-to-the-corresponding-parameter-under-{suffix}',
                                     f'{col}: O {eo[col]} {tag} {other[col]}', wit)
                                break
                            rec.c('bootstrap_mismatch_not_a_permutation')
                for col in ('Std err', 'Rob. Std err', 't-test', 'Rob. t-test'):
                    if col in eo and col in other:
                        rec.ev()
                        bad = [n for n in eo[col] if math.isfinite(eo[col][n]) and abs(eo[col][n]) < 1e100 and not close(
                            other[col].get(n, float('nan')), eo[col][n], max(1e-4, 50 * etol), max(1e-6, 50 * etol))]
                        if bad:
                            viol(f'statistics-not-attached-to-the-corresponding-parameter-under-{suffix}',
                                 f'{col}: {[(n, eo[col][n], other[col].get(n)) for n in bad[:4]]}', wit)
                            break
                for key in ('varcovar', 'robvarcovar'):
                    if key in eo and key in other:
                        sc = max(abs(v) for v in eo[key].values()) or 1.0
                        rec.ev()
                        bad = [k for k in eo[key] if math.isfinite(eo[key][k]) and not close(
                            other[key].get(k, float('nan')), eo[key][k], max(1e-4, 50 * etol), max(1e-6, 50 * etol) * sc)]
                        if bad:
                            viol(f'covariances-not-attached-to-the-corresponding-pair-under-{suffix}',
                                 f'{key}: {[(k, eo[key][k], other[key].get(k)) for k in bad[:3]]}', wit)
                            break
                if 'pairs' in eo and 'pairs' in other:
                    sc = max([abs(v[0]) for v in eo['pairs'].values()] or [1.0]) or 1.0
                    for k, (cv, tt) in eo['pairs'].items():
                        if k in other['pairs']:
                            rec.ev()
                            if math.isfinite(cv) and not close(other['pairs'][k][0], cv, max(1e-4, 50 * etol), max(1e-6, 50 * etol) * sc):
                                viol(f'pair-statistics-not-attached-to-the-corresponding-pair-under-{suffix}',
                                     f'{sorted(k)}: cov {cv} vs {other["pairs"][k][0]}', wit)
                                break
                        else:
                            viol(f'pair-statistics-missing-under-{suffix}', f'{sorted(k)}', wit)
                            break
    # --- coverage ---------------------------------------------------------------------------
    K = len(free_o)
    order_differs = [n for n in app_o if n in free_o] != free_o
    reorder_changes = [n for n in app_s if n in free_o] != [n for n in app_o if n in free_o]
    so_ = sorted(free_o)
    monotone = sorted(so_, key=lambda n: rho[n]) == so_
    nontrivial = K >= 2 and allmove and (order_differs or reorder_changes) and ((not monotone) or reorder_changes)
    rec.c('renaming_' + case['ren'])
    rec.c('free_parameters_%d' % K)
    rec.c('fixed_parameters_%d' % len(wo.fixed))
    rec.c('kind_' + model['kind'])
    if model['bounds']:
        rec.c('models_with_bounds')
    if any(b[0] is None or b[1] is None for b in model['bounds'].values()):
        rec.c('models_with_one_sided_bounds')
    if model['av']:
        rec.c('models_with_availabilities')
    if model['weight']:
        rec.c('models_with_weight_formula')
    if len(wo.forms) > 1:
        rec.c('models_with_several_formulas')
    if order_differs:
        rec.c('appearance_order_differs_from_alphabetical')
    if reorder_changes:
        rec.c('reordering_changes_appearance_order')
    if not monotone:
        rec.c('renaming_not_order_preserving')
    if so_ and sorted(so_, key=lambda n: rho[n]) == list(reversed(so_)):
        rec.c('renaming_order_reversing')
    if nontrivial:
        rec.key([model, rho, S])
    else:
        rec.c('trivial_cases')
    rec.sample({'names_in_order_of_appearance': app_o, 'free_beta_names': wo.names, 'renaming': rho,
                'free_beta_names_renamed': wr.names, 'betas': model['betas'], 'bounds': model['bounds'],
                'formulas': {k: v for k, v in wo.forms.items()}, 'rows': len(next(iter(model['data'].values()))),
                'estimated': est})
    return rec.out()


# ---------------------------------------------------------------------------
# directed: a name used for two different kinds of element is refused


def _dup_formulas(kind):
    import biogeme.expressions as ex

    x, y = ex.Variable('x'), ex.Variable('y')

    def free(n, v=0.1):
        return ex.Beta(n, v, None, None, 0)

    def fixed(n, v=0.3):
        return ex.Beta(n, v, None, None, 1)

    def integ(body_name, coef):
        rv = ex.RandomVariable(body_name)
        return ex.Integrate(coef * ex.exp(-rv * rv), body_name)

    if kind == 'free-fixed':
        return {'log_like': free('n') * x + fixed('n')}
    if kind == 'free-var':
        return {'log_like': free('x') * x}
    if kind == 'fixed-var':
        return {'log_like': fixed('x') * x + free('k')}
    if kind == 'free-unusedcol':
        return {'log_like': free('y') * x}
    if kind == 'free-draws':
        return {'log_like': ex.MonteCarlo(free('n') * ex.bioDraws('n', 'NORMAL'))}
    if kind == 'fixed-draws':
        return {'log_like': ex.MonteCarlo(fixed('n') * free('k') * ex.bioDraws('n', 'NORMAL'))}
    if kind == 'free-rv':
        return {'log_like': integ('n', free('n'))}
    if kind == 'draws-var':
        return {'log_like': ex.MonteCarlo(free('n') * ex.bioDraws('x', 'NORMAL'))}
    if kind == 'rv-var':
        return {'log_like': integ('x', free('n'))}
    if kind == 'rv-draws':
        return {'log_like': ex.MonteCarlo(ex.bioDraws('w', 'NORMAL') * integ('w', free('n')))}
    if kind == 'free-fixed-across-formulas':
        return {'log_like': free('n') * x, 'other': fixed('n') * y}
    if kind == 'free-var-across-formulas':
        return {'log_like': free('k') * x, 'other': free('y') * x}
    raise ValueError(kind)


def _run_dup(case):
    import pandas as pd
    import biogeme.database as dbm
    import biogeme.expressions as ex
    from biogeme.biogeme import BIOGEME
    from biogeme.exceptions import BiogemeError
    from ..monitors import engine_proxy as ep

    rec = Rec(case)
    kind, entry = case['kind'], case['entry']
    forms = _dup_formulas(kind)
    db = dbm.Database('dup', pd.DataFrame({'x': [1.0, 2.0, 3.0], 'y': [0.5, 0.1, 0.2], 'ch': [1.0, 2.0, 1.0]}))
    p = _params()
    p.set_value('number_of_draws', 7, 'MonteCarlo')
    ep.reset()
    outcome = None
    try:
        if entry == 'biogeme':
            bg = BIOGEME(db, forms if len(forms) > 1 else forms['log_like'], parameters=p)
            outcome = f'BIOGEME object built, free_beta_names={bg.free_beta_names}'
        elif entry == 'simulate':
            f2 = dict(forms)
            f2.setdefault('zzz', ex.Variable('y') * 2)
            bg = BIOGEME(db, f2, parameters=p)
            outcome = f'simulate returned {bg.simulate(bg.get_beta_values()).to_numpy().tolist()}'
        elif entry == 'get_value_c':
            e = forms['log_like'] if len(forms) == 1 else ex.bioMultSum(list(forms.values()))
            outcome = f'get_value_c returned {e.get_value_c(database=db, prepare_ids=True, number_of_draws=7)}'
        else:
            e = forms['log_like'] if len(forms) == 1 else ex.bioMultSum(list(forms.values()))
            fn = e.create_function(database=db, number_of_draws=7)
            outcome = 'create_function returned a function'
        refused = False
    except BiogemeError as e:
        refused = True
        msg = str(e)
    except BaseException as e:
        refused = None
        outcome = f'{type(e).__name__}: {e}'
    rec.ev()
    rec.c(f'duplicate_{kind}')
    rec.c(f'duplicate_entry_{entry}')
    rec.key(['dup', kind, entry])
    if refused is True:
        rec.c('duplicates_refused')
        if ep.completed_calculations():
            rec.violation(f'C03/duplicate-name-{kind}-refused-after-numbers-were-produced-{entry}', msg, {'kind': kind, 'entry': entry})
    elif refused is False:
        rec.violation(f'C03/duplicate-name-{kind}-not-refused-by-{entry}', f'name shared by two kinds of element accepted: {outcome}',
                      {'kind': kind, 'entry': entry})
    else:
        rec.violation(f'C03/duplicate-name-{kind}-not-a-library-error-{entry}', f'expected BiogemeError, got {outcome}', {'kind': kind, 'entry': entry})
    return rec.out()


# ---------------------------------------------------------------------------
# directed: BIOGEME.change_init_values naming a FIXED parameter


def _run_directed_fixed_update(case):
    """The library documents change_init_values as indifferent to free/fixed ("The fact that the
    parameters are fixed or free is irrelevant here") and the Beta object does take the new value.
    The value supplied BY NAME must then be the one every entry point uses."""
    from ..gen import c03_models as gm, build
    from ..oracle import c03_ref as ref
    from biogeme.biogeme import BIOGEME

    rec = Rec(case)
    v = case['variant']
    r = random.Random(f'dfu-{v}')
    # deterministic little models, the same at every run and seed
    model = None
    for j in range(200):
        m = gm.make_model(4242, 100 * v + j, estimation=False, force_kind='logit' if v % 2 == 0 else 'regression')
        used = gm.betas_in(gm.loglike_ast(m))
        if [n for n in used if m['betas'][n][1] != 0] and m['weight'] is None:
            model = m
            break
    if model is None:
        rec.inconc('directed case: no model with a fixed parameter found')
        return rec.out()
    if v >= 2:
        model = gm.rename(gm.reverse_terms(model), gm.renaming(model, 'prefix-reversing', r))
    model['extra'] = []
    ast = gm.loglike_ast(model)
    used = gm.betas_in(ast)
    fixed = sorted(n for n in used if model['betas'][n][1] != 0)
    free = sorted(n for n in used if model['betas'][n][1] == 0)
    init = {n: model['betas'][n][0] for n in used}
    e, _ = build.build(gm.spec_for_build(model, ast))
    db = build.database({'data': model['data']})
    bg = BIOGEME(db, e, parameters=_params())
    f = fixed[0]
    newv = round(init[f] + 1.25, 3)
    q = {f: newv}
    vals_new = dict(init)
    vals_new[f] = newv
    want_new = ref.loglike(ast, model, vals_new)
    want_old = ref.loglike(ast, model, init)
    rec.key(['directed-fixed-update', v])
    try:
        bg.change_init_values(q)
        ll = bg.calculate_init_likelihood()
        via_expr = float(e.get_value_c(database=db, prepare_ids=True, aggregation=True))
        objs = [b for b in _all_betas([e]) if b.name == f]
        sim = bg.simulate({n: init[n] for n in free})['log_like'].to_numpy(dtype=float).sum()
    except BaseException as ex_:
        rec.violation(f'C03/directed-fixed-update-raises-{type(ex_).__name__}', str(ex_), {'model': model, 'dictionary': q})
        return rec.out()
    rec.ev(3)
    rec.c('directed_fixed_update_cases')
    obj_vals = sorted({float(b.initValue) for b in objs})
    wit = {'model': model, 'dictionary': q, 'Beta_object_values': obj_vals, 'calculate_init_likelihood': ll,
           'simulate_sum': sim, 'same_expression_get_value_c': via_expr, 'reference_with_new_value': want_new,
           'reference_with_old_value': want_old}
    if obj_vals == [newv] and close(via_expr, want_new, 1e-9, 1e-10) and close(ll, want_old, 1e-9, 1e-10) and not close(ll, want_new, 1e-6, 1e-8):
        rec.violation('C03/biogeme-change-init-values-fixed-parameter-updated-in-formula-but-stale-in-likelihood',
                      f'change_init_values({q}): Beta({f!r}).initValue={obj_vals}, get_value_c of the same formula={via_expr!r} (new value) but '
                      f'calculate_init_likelihood()={ll!r} and simulate sum={sim!r} still use {init[f]} (reference new {want_new!r}, old {want_old!r})', wit)
    elif close(ll, want_new, 1e-9, 1e-10) and close(via_expr, want_new, 1e-9, 1e-10) and close(sim, want_new, 1e-9, 1e-10):
        rec.c('directed_fixed_update_consistent_new_value')
    elif close(ll, want_old, 1e-9, 1e-10) and close(via_expr, want_old, 1e-9, 1e-10) and obj_vals == [float(init[f])]:
        rec.c('directed_fixed_update_consistently_ignored')
    else:
        rec.violation('C03/biogeme-change-init-values-fixed-parameter-inconsistent-across-entry-points',
                      f'change_init_values({q}): Beta objects {obj_vals}, likelihood {ll!r}, simulate {sim!r}, get_value_c {via_expr!r}; '
                      f'reference new {want_new!r} old {want_old!r}', wit)
    return rec.out()


# ---------------------------------------------------------------------------
# histories on shared expression objects

STALE_MECH = 'simulate-pairs-by-stale-position-after-its-expression-objects-were-registered-elsewhere'


def _run_history(case):
    from ..gen import c03_history as gh
    from ..oracle import c03_ref as ref, signature
    from ..monitors import engine_proxy as ep
    from biogeme.biogeme import BIOGEME
    from biogeme.exceptions import BiogemeError

    rec = Rec(case)
    world = gh.World(case['seed'], case['i'])
    steps = gh.plan(world, case.get('directed'))
    r = random.Random(f'c03histrun-{case["seed"]}-{case["i"]}')
    status = dict(world.status)
    init = dict(world.init)
    models = []
    done = []
    refixed = set()  # names whose status was changed by fix_betas after a model had been built with them
    ep.reset()

    def subasts(ast, acc):
        if isinstance(ast, list) and ast and isinstance(ast[0], str):
            acc.add(json_key(ast))
            for x in ast[1:]:
                if isinstance(x, list):
                    if x and isinstance(x[0], str):
                        subasts(x, acc)
                    else:
                        for y in x:
                            if isinstance(y, list):
                                for z in y:
                                    if isinstance(z, list):
                                        subasts(z, acc)
        return acc

    import json as _json

    def json_key(a):
        return _json.dumps(a)

    def sole_owner(m):
        """nothing else registered m's expression objects since m was built: no younger model, and every
        stand-alone evaluation since then was made on one of m's own (sub-)expressions"""
        return m is models[-1] and not m['foreign_eval']

    def V(m, mech, msg, **kw):
        w = {'names': world.names, 'status_at_start': world.status, 'init_at_start': world.init, 'pool': world.pool,
             'loglike': world.loglike, 'data': world.data, 'steps_so_far': done, 'model_index': m['idx'] if m else None,
             'model_formulas': m['forms'] if m else None}
        w.update(kw)
        if m is not None and not sole_owner(m):
            rec.violation('C03/' + STALE_MECH, f'[{mech}] model #{m["idx"]} of {len(models)} (younger model or foreign stand-alone '
                          f'evaluation since it was built): {msg}', w)
        else:
            rec.violation('C03/history-' + mech, msg, w)

    def handover(m, sigs, free_vec, fixed_vec, cols, supplied):
        for sig in sigs:
            try:
                _, _, info = signature.decode(sig, free_vec, fixed_vec, cols)
            except signature.SignatureError as e:
                V(m, 'handover-signature-unparsable', str(e))
                continue
            for lf in info['leaves']['beta']:
                nm = lf['name']
                rec.ev()
                rec.c('history_handover_beta_leaves_checked')
                if nm not in m['status']:
                    V(m, 'handover-unknown-parameter', f'{nm!r}')
                    continue
                st = m['status'][nm]
                if (lf['status'] != 0) != (st != 0):
                    V(m, 'handover-beta-status', f'Beta {nm!r} serialised with status {lf["status"]}, model built with {st}')
                    continue
                vec = free_vec if st == 0 else fixed_vec
                want = supplied[nm] if st == 0 else m['fixedvals'][nm]
                if not (0 <= lf['id'] < len(vec)):
                    V(m, 'handover-beta-index-out-of-range', f'Beta {nm!r} carries index {lf["id"]}, vector length {len(vec)}', name=nm)
                    return
                if float(vec[lf['id']]) != float(want):
                    V(m, 'handover-beta-index-designates-value-of-another-parameter',
                      f'Beta {nm!r} carries index {lf["id"]} where the vector handed over holds {vec[lf["id"]]}; the value supplied '
                      f'for that name is {want}', name=nm)
                    return

    def last(owner, op):
        for e in reversed(owner.calls):
            if e.get('op') == op:
                return e
        return None

    def judge(m):
        if m['retired']:
            return
        bg = m['bg']
        free = m['free']
        vals = gm_distinct(r, len(free))
        pt = dict(zip(free, vals))
        values = dict(m['fixedvals'])
        values.update(pt)
        items = list(pt.items())
        r.shuffle(items)
        d = dict(items)
        if r.random() < 0.3:
            d['nobody_'] = 4.5
        rec.c('history_judgements')
        if sole_owner(m):
            rec.c('history_judgements_sole_owner')
        if m['nsim'] == 0 and len(done) > m['built_at'] + 1:
            rec.c('history_first_simulate_after_later_steps')
        try:
            sim = bg.simulate(d)
        except BaseException as e:
            V(m, f'simulate-raises-{type(e).__name__}', f'simulate({d}): {e}')
            sim = None
        m['nsim'] += 1
        if sim is not None:
            e = last(bg.theC, 'simulateSeveralFormulas')
            if e is not None:
                a = e['args']
                handover(m, a[0], list(a[1]), list(a[2]), a[3]['columns'] if isinstance(a[3], dict) else None, pt)
            for k, ast in m['forms'].items():
                want = ref.rows(ast, world.data, values)
                got = sim[k].to_numpy(dtype=float) if k in sim.columns else None
                rec.ev()
                rec.c('history_simulate_vs_reference')
                if got is None or got.shape != want.shape or not close(got, want, 1e-9, 1e-11):
                    V(m, 'simulate-differs-from-reference-with-values-assigned-by-name',
                      f'formula {k!r}: simulate({d})={None if got is None else got.tolist()} reference={want.tolist()}', formula=k)
                    break
        if list(bg.free_beta_names) != free:
            V(m, 'free-beta-names-changed', f'{bg.free_beta_names} vs {free}')
        if 'log_like' in m['forms']:
            x = [pt[n] for n in free]
            try:
                ll = bg.calculate_likelihood(x, scaled=False)
                want = ref.loglike(m['forms']['log_like'], {'data': world.data, 'weight': None}, values)
                rec.ev()
                rec.c('history_likelihood_vs_reference')
                if not close(ll, want, 1e-9, 1e-10):
                    V(m, 'likelihood-differs-from-reference-with-values-assigned-by-name', f'{ll!r} vs {want!r} at {pt}')
                e = last(bg.theC, 'calculateLikelihood')
                se = last(bg.theC, 'setExpressions')
                dd = last(bg.theC, 'setData')
                if e is not None and se is not None:
                    handover(m, [se['args'][0]], list(e['args'][0]), list(e['args'][1]), dd['args'][0]['columns'] if dd else None, pt)
            except BaseException as e:
                V(m, f'calculate-likelihood-raises-{type(e).__name__}', str(e))

    def ids_restored(o, before, what):
        """a stand-alone evaluation with prepare_ids=True gives the expression back the id manager it carried before
        ("we restore the previous Id manager"): observed on the evaluated object itself"""
        rec.ev()
        rec.c('history_ids_restored_checked')
        if o.id_manager is not before:
            def d(im):
                return 'none' if im is None else f'free names {im.free_betas.names}'

            rec.violation('C03/history-id-manager-of-evaluated-expression-not-restored',
                          f'after {what}: the expression carried the id manager with {d(before)} and now carries the one with {d(o.id_manager)}',
                          {'steps_so_far': done, 'names': world.names, 'pool': world.pool})

    def gm_distinct(rr, n):
        from ..gen import c03_models as gm

        return gm._distinct_values(rr, n, -0.9, 0.9)

    for si, st in enumerate(steps):
        op = st['op']
        done.append(st)
        rec.c('history_step_' + op)
        if op == 'build':
            forms = st['forms']
            try:
                exprs = {k: world.obj(a) for k, a in forms.items()}
                bg = BIOGEME(world.database(f'h{len(models)}'), exprs, parameters=_params())
            except BaseException as e:
                V(None, f'build-raises-{type(e).__name__}', str(e))
                return rec.out()
            used = []
            for a in forms.values():
                gh.names_in(a, used)
            own = set()
            for a in forms.values():
                subasts(a, own)
            m = {'bg': bg, 'exprs': exprs, 'forms': forms, 'idx': len(models), 'built_at': si, 'retired': False, 'nsim': 0,
                 'free': sorted(n for n in used if status[n] == 0), 'fixed': sorted(n for n in used if status[n] != 0),
                 'status': {n: status[n] for n in used}, 'fixedvals': {n: init[n] for n in used if status[n] != 0},
                 'own': own, 'foreign_eval': False, 'used': set(used)}
            if models:
                prev = models[-1]
                shared = [n for n in prev['free'] if n in m['free']]
                if any(prev['free'].index(n) != m['free'].index(n) for n in shared):
                    rec.c('history_models_numbering_shared_parameters_differently')
            models.append(m)
            if list(bg.free_beta_names) != m['free']:
                V(m, 'free-beta-names-not-sorted-names-of-the-model', f'{bg.free_beta_names} vs {m["free"]}')
        elif op in ('judge-latest', 'judge-all'):
            for m in (models[-1:] if op == 'judge-latest' else models):
                judge(m)
            continue
        elif op == 'eval':
            ast = st['ast']
            nm = gh.names_in(ast)
            betas = st['betas']
            if betas is not None:
                betas = {k: v for k, v in betas.items() if k not in status or status[k] == 0}
            vals = {n: init[n] for n in nm}
            if betas:
                vals.update({k: v for k, v in betas.items() if k in vals})
            o = world.obj(ast)
            before = o.id_manager
            failed = False
            key = json_key(ast)
            for m in models:
                if key not in m['own']:
                    m['foreign_eval'] = True
            try:
                if gh.has_var(ast):
                    got = np.asarray(o.get_value_c(database=world.database('ev'), betas=betas, prepare_ids=True), dtype=float)
                    want = ref.rows(ast, world.data, vals)
                else:
                    got = np.asarray(o.get_value_c(betas=betas, prepare_ids=True), dtype=float)
                    want = ref.rows(ast, world.data, vals)[0]
                rec.ev()
                rec.c('history_stand_alone_evaluations')
                if not close(got, want, 1e-9, 1e-11):
                    rec.violation('C03/history-stand-alone-evaluation-differs-from-reference-by-name',
                                  f'get_value_c(betas={betas}, prepare_ids=True)={got.tolist()} reference={np.asarray(want).tolist()}',
                                  {'ast': ast, 'steps_so_far': done, 'init': init, 'status': status})
            except BaseException as e:
                failed = True
                if isinstance(e, KeyError) and any(x in refixed for x in nm):
                    # restoring the ids of a model built when this parameter was still free: that model is a stale
                    # specification (retired); the failed restore leaves shared objects half re-numbered
                    rec.c('info_history_restore_of_retired_model_ids_raises_keyerror')
                    for m in models:
                        m['foreign_eval'] = True
                else:
                    rec.violation(f'C03/history-stand-alone-evaluation-raises-{type(e).__name__}', str(e), {'ast': ast, 'steps_so_far': done})
            if not failed:
                ids_restored(o, before, f'get_value_c(prepare_ids=True) of {ast}')
        elif op == 'chinit':
            vals = {k: v for k, v in st['values'].items() if status[k] == 0}
            live = [m for m in models if not m['retired']]
            try:
                if st['via_model'] and live:
                    m = r.choice(live)
                    m['bg'].change_init_values(dict(vals))
                    touched = m['used']
                    rec.c('history_change_init_through_model')
                else:
                    world.obj(st['ast']).change_init_values(dict(vals))
                    touched = set(gh.names_in(st['ast']))
                for k, v in vals.items():
                    if k in touched:
                        init[k] = v
                rec.ev()
                for n, b in world.beta_obj.items():
                    if float(b.initValue) != float(init[n]) or b.status != status[n]:
                        rec.violation('C03/history-change-init-values-shared-object-state',
                                      f'Beta {n!r}: value {b.initValue} status {b.status}; expected {init[n]} {status[n]}',
                                      {'steps_so_far': done})
                        break
            except BaseException as e:
                rec.violation(f'C03/history-change-init-values-raises-{type(e).__name__}', str(e), {'steps_so_far': done})
        elif op == 'fix':
            nm = [n for n in gh.names_in(st['ast']) if status[n] == 0]
            still_free = [n for n in world.names if status[n] == 0]
            if nm and len(still_free) >= 2:
                n = nm[0]
                try:
                    world.obj(st['ast']).fix_betas({n: st['value'], 'nobody_': 1.0})
                    status[n] = 1
                    init[n] = st['value']
                    b = world.beta_obj.get(n)
                    rec.ev()
                    rec.c('history_fix_betas')
                    if b is not None and (b.status == 0 or float(b.initValue) != float(st['value'])):
                        rec.violation('C03/history-fix-betas-not-applied-by-name', f'{n!r}: {b.status} {b.initValue}', {'steps_so_far': done})
                    for m in models:
                        if n in m['used']:
                            refixed.add(n)
                            m['retired'] = True  # another specification from now on
                            rec.c('history_models_retired_by_fix_betas')
                except BaseException as e:
                    rec.violation(f'C03/history-fix-betas-raises-{type(e).__name__}', str(e), {'steps_so_far': done})
        elif op == 'corr':
            from biogeme.nests import OneNestForNestedLogit, NestsForNestedLogit

            n = st['name']
            params = st['parameters']
            if params is not None:
                params = {k: v for k, v in params.items() if status[k] == 0}
            b = world.obj(['beta', n])
            before = b.id_manager
            failed = False
            key = json_key(['beta', n])
            for m in models:
                if key not in m['own']:
                    m['foreign_eval'] = True
            try:
                nests = NestsForNestedLogit(choice_set=[1, 2, 3], tuple_of_nests=(
                    OneNestForNestedLogit(nest_param=b, list_of_alternatives=[1, 3], name='shared_nest'),))
                cm = nests.correlation(parameters=params)
                if params and n in params:
                    init[n] = params[n]
                mu = init[n]
                want = 1.0 - 1.0 / (mu * mu)
                got = float(cm.to_numpy()[0][2])
                rec.ev()
                rec.c('history_nest_correlations')
                if not close(got, want, 1e-9, 1e-11):
                    rec.violation('C03/history-nest-correlation-not-from-the-named-parameter',
                                  f'correlation(parameters={params}) gives {got}; 1-1/mu^2 with {n!r}={mu} is {want}', {'steps_so_far': done})
            except BaseException as e:
                failed = True
                if isinstance(e, KeyError) and n in refixed:
                    rec.c('info_history_restore_of_retired_model_ids_raises_keyerror')
                    for m in models:
                        m['foreign_eval'] = True
                else:
                    rec.violation(f'C03/history-nest-correlation-raises-{type(e).__name__}', str(e), {'steps_so_far': done})
            if not failed:
                ids_restored(b, before, f'NestsForNestedLogit.correlation() with nest parameter {n!r}')
        # judge the live models (each with probability 0.55: first simulations must also happen late)
        if st.get('judge', True):
            for m in models:
                if not m['retired'] and r.random() < 0.55:
                    judge(m)
    for m in models:
        judge(m)
    live = [m for m in models if not m['retired']]
    if len(models) >= 2 and any(m['nsim'] for m in live):
        rec.key(['history', world.names, world.pool, steps])
    rec.sample({'parameters': world.names, 'status': world.status, 'pool_of_shared_formulas': world.pool, 'steps': steps})
    return rec.out()


# ---------------------------------------------------------------------------
# successive specifications under one model name, saved-iteration file read by name


def _run_iterfile(case):
    import shutil
    import tempfile
    from ..gen import c03_iterfile as gi, c03_models as gm, build
    from ..oracle import c03_ref as ref, signature
    from ..monitors import engine_proxy as ep
    from biogeme.biogeme import BIOGEME
    from biogeme.parameters import Parameters

    rec = Rec(case)
    specs = gi.plan(case['seed'], case['i'], case.get('directed'))
    if len(specs) < 2:
        rec.c('iterfile_histories_too_short')
        return rec.out()
    old_cwd = os.getcwd()
    tmp = tempfile.mkdtemp(prefix='c03iter_', dir=os.environ.get('BIOMON_WORKDIR') or None)
    os.chdir(tmp)
    history = []
    try:
        file_names = None  # names found in the file before the estimation of the current specification
        for k, (model, desc) in enumerate(specs):
            history.append(desc)
            ast = gm.loglike_ast(model)
            used = gm.betas_in(ast)
            free = sorted(n for n in used if model['betas'][n][1] == 0)
            fixed = sorted(n for n in used if model['betas'][n][1] != 0)
            given = {n: model['betas'][n][0] for n in used}

            def V(mech, msg, **kw):
                w = {'history': history, 'specification_index': k, 'model': model, 'names_in_saved_file': file_names}
                w.update(kw)
                rec.violation('C03/iterfile-' + mech, f'[specification {k}: {desc.get("op")}] {msg}', w)

            p = Parameters()  # save_iterations is on by default: that is the point
            p.set_value('generate_html', False, 'Output')
            p.set_value('generate_pickle', False, 'Output')
            p.set_value('number_of_threads', 1, 'MultiThreading')
            iter_file = '__c03model.iter'
            file_before = None
            if os.path.exists(iter_file):
                with open(iter_file) as f:
                    file_before = dict(line.rstrip('\n').rsplit(' = ', 1) for line in f if ' = ' in line)
                file_names = sorted(file_before)
            try:
                e, _ = build.build(gm.spec_for_build(model, ast, one_beta_object=bool(k % 2)))
                bg = BIOGEME(build.database({'data': model['data']}), e, parameters=p)
                bg.modelName = 'c03model'
                if not bg.save_iterations:
                    rec.inconc('save_iterations is not on by default')
                objs = _all_betas([e])
                ep.reset()
                res = bg.estimate()
            except BaseException as ex_:
                V(f'estimate-raises-{type(ex_).__name__}', str(ex_))
                break
            rec.c('iterfile_estimations')
            if file_before is not None:
                rec.c('iterfile_estimations_with_a_saved_file')
                if any(n in file_before for n in fixed):
                    rec.c('iterfile_file_names_a_parameter_that_is_now_fixed')
                if any(n not in used for n in file_before):
                    rec.c('iterfile_file_names_a_parameter_the_specification_does_not_contain')
                if any(n not in file_before for n in free):
                    rec.c('iterfile_free_parameter_absent_from_the_file')
            # (a) fixed parameters keep exactly the value they were given: objects, vector, every engine call
            rec.ev()
            rec.c('iterfile_fixed_parameters_checked', len(fixed))
            bad = False
            for b in objs:
                if b.status != 0 and b.name in given and float(b.initValue) != float(given[b.name]):
                    V('fixed-parameter-does-not-keep-the-value-it-was-given',
                      f'Beta {b.name!r} (status {b.status}) given {given[b.name]}, carries {b.initValue} after estimate(); '
                      f'the saved file held {None if file_before is None else file_before.get(b.name)}', name=b.name)
                    bad = True
                    break
                if (b.status != 0) != (model['betas'][b.name][1] != 0):
                    V('status-changed-by-estimation', f'{b.name!r}: {b.status}')
            fv = [float(v) for v in bg.id_manager.fixed_betas_values]
            if list(bg.id_manager.fixed_betas.names) != fixed:
                V('fixed-names', f'{bg.id_manager.fixed_betas.names} vs {fixed}')
            elif fv != [float(given[n]) for n in fixed] and not bad:
                V('fixed-values-handed-to-the-engine-differ-from-the-given-ones',
                  f'id_manager.fixed_betas_values={dict(zip(fixed, fv))} given {dict((n, given[n]) for n in fixed)}')
                bad = True
            ncalls = 0
            for ent in ep.LOG:
                if ent.get('kind') == 'biogeme' and ent.get('op') in ('calculateLikelihood', 'calculateLikelihoodAndDerivatives'):
                    ncalls += 1
                    vec = [float(v) for v in list(ent['args'][1])]
                    if vec != [float(given[n]) for n in fixed] and not bad:
                        V('engine-call-received-other-fixed-values', f'{ent["op"]}: fixed vector {vec}, given {[given[n] for n in fixed]}')
                        bad = True
                        break
            rec.ev(ncalls)
            rec.c('iterfile_engine_calls_checked', ncalls)
            # serialised formula: every fixed Beta leaf designates its own given value
            se = None
            for ent in ep.LOG:
                if ent.get('kind') == 'biogeme' and ent.get('op') == 'setExpressions':
                    se = ent
            sig = se['args'][0] if se is not None else bg.loglikeSignatures
            try:
                _, _, info = signature.decode(sig, [0.0] * len(free), fv, list(model['data']))
                for lf in info['leaves']['beta']:
                    if lf['status'] != 0 and lf['name'] in given:
                        rec.ev()
                        if not (0 <= lf['id'] < len(fv)) or float(fv[lf['id']]) != float(given[lf['name']]):
                            if not bad:
                                V('fixed-beta-leaf-designates-another-value', f'{lf}')
                                bad = True
                            break
            except signature.SignatureError as ex_:
                V('signature-unparsable', str(ex_))
            # (b) results: names, and THE reported point gives the reported likelihood with fixed parameters at their given value
            try:
                est = {kk: float(v) for kk, v in res.get_beta_values().items()}
                final_ll = float(res.data.logLike)
                table = res.get_estimated_parameters(only_robust=False)
                converged = bool(res.algorithm_has_converged())
            except BaseException as ex_:
                V(f'results-accessors-raise-{type(ex_).__name__}', str(ex_))
                break
            rec.ev()
            if sorted(est) != free or list(table.index) != free:
                V('results-report-wrong-set-of-parameters', f'{sorted(est)} / {list(table.index)} vs free {free} (fixed {fixed})')
                break
            values = dict(given)
            values.update(est)
            try:
                rll = ref.loglike(ast, {'data': model['data'], 'weight': None}, values)
            except Exception as ex_:
                rec.c('reference_out_of_domain')
                continue
            rec.ev()
            rec.c('iterfile_final_likelihood_vs_reference')
            if not close(final_ll, rll, 1e-9, 1e-9):
                V('reported-likelihood-not-the-one-of-the-reported-estimates-with-fixed-parameters-at-their-given-value',
                  f'results.data.logLike={final_ll!r}; reference at {est} with fixed {dict((n, given[n]) for n in fixed)} gives {rll!r}', estimates=est)
            # (c) the gradient held by the results, entry by entry, is the reference derivative for THAT name at the reported
            #     estimates (neither the starting point -- C15 -- nor the quality of the stopping point -- C07 -- is judged)
            try:
                d = ref.derivatives(ast, {'data': model['data'], 'weight': None}, values, free, hessian=False)
                _reported_gradient_by_name(rec, lambda mech, msg: V(mech, msg), res, free, d['gradient'], 'iterfile_reported_gradient_by_name_checked')
            except Exception:
                rec.c('reference_out_of_domain')
            for b in objs:
                if b.status == 0 and b.name in est and float(b.initValue) != est[b.name]:
                    V('free-beta-object-carries-estimate-of-another-parameter', f'{b.name!r}: {b.initValue} vs {est[b.name]}', name=b.name)
                    break
            rec.c('iterfile_op_' + str(desc.get('op')).replace(' ', '_'))
        if len(history) >= 2:
            rec.key(['iterfile', [s[0]['betas'] for s in specs], [s[1] for s in specs]])
        rec.sample({'successive_specifications': [{'change': s[1], 'betas': s[0]['betas']} for s in specs]})
    finally:
        os.chdir(old_cwd)
        shutil.rmtree(tmp, ignore_errors=True)
    return rec.out()


def run_case(case):
    mode = case['mode']
    if mode == 'history':
        return _run_history(case)
    if mode == 'iterfile':
        return _run_iterfile(case)
    if mode == 'model':
        return _run_model(case)
    if mode == 'dup':
        return _run_dup(case)
    if mode == 'directed-fixed-update':
        return _run_directed_fixed_update(case)
    raise ValueError(mode)


def finalize(cov, tier):
    out = []
    need = ['free_beta_names_observed', 'bounds_by_name_compared', 'likelihood_vs_reference', 'gradient_vs_reference_by_name',
            'hessian_vs_reference_by_name', 'handover_beta_leaves_checked', 'handover_literal_ids_checked',
            'simulate_formula_vs_reference', 'simulate_missing_name_refused', 'dict_to_list_checked',
            'partial_dictionary_vs_reference', 'partial_dictionary_with_unnamed_free_parameters', 'named_gradient_vs_reference',
            'expression_change_init_values', 'biogeme_change_init_values', 'fix_betas_checked', 'estimations_run',
            'optimizer_handover_checked', 'final_likelihood_vs_reference_at_reported_estimates', 'reported_gradient_by_name_checked',
            'standard_errors_pairing_checked', 'covariance_pairing_checked', 'estimations_with_active_bound',
            'fixed_parameters_after_estimation_checked', 'sensitivity_draws_by_name_checked', 'estimates_O_vs_R_compared',
            'estimates_O_vs_S_compared', 'likelihood_O_vs_R', 'likelihood_O_vs_S', 'simulate_O_vs_R', 'duplicates_refused',
            'renaming_order_reversing', 'models_with_one_sided_bounds', 'models_with_several_formulas',
            'directed_fixed_update_cases', 'estimations_with_well_separated_estimates', 'bootstrap_by_name_checked', 'bootstrap_O_vs_R_compared',
            'history_judgements', 'history_judgements_sole_owner', 'history_first_simulate_after_later_steps',
            'history_models_numbering_shared_parameters_differently', 'history_stand_alone_evaluations',
            'history_nest_correlations', 'history_fix_betas', 'history_change_init_through_model', 'history_ids_restored_checked',
            'history_handover_beta_leaves_checked', 'history_simulate_vs_reference', 'history_likelihood_vs_reference',
            'iterfile_estimations_with_a_saved_file', 'iterfile_file_names_a_parameter_that_is_now_fixed',
            'iterfile_file_names_a_parameter_the_specification_does_not_contain', 'iterfile_free_parameter_absent_from_the_file',
            'iterfile_fixed_parameters_checked', 'iterfile_engine_calls_checked', 'iterfile_final_likelihood_vs_reference',
            'iterfile_reported_gradient_by_name_checked']
    from ..gen import c03_models as gm

    need += ['renaming_' + k for k in gm.RENAMINGS]
    need += [f'duplicate_{k}' for k in DUP_KINDS]
    for k in need:
        if cov.get(k, 0) == 0:
            out.append(f'monitor never evaluated: {k}')
    if cov.get('estimation_pair_not_converged', 0) > 0.2 * max(1, cov.get('estimation_O_vs_R', 0) + cov.get('estimation_O_vs_S', 0)):
        out.append('more than 20% of the estimation pairs did not converge')
    if cov.get('statistic_mismatch_not_a_permutation', 0) > 0.05 * max(1, cov.get('standard_errors_pairing_checked', 0)):
        out.append('reference standard errors often differ from the reported ones without being a re-pairing: oracle or C08 issue, look')
    return out
