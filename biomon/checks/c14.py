"""C14 -- what is written to disk reads back unchanged and never overwrites earlier output.

Workload: (a) synthetic estimation outcomes pushed through the real
RawResults/bioResults classes and small real logit models estimated by the real
BIOGEME, each in an adversarially pre-populated scratch directory, followed by a
history of 1-12 output-producing calls (estimate, estimate(recycle=True),
write_html/latex/f12/pickle, Database.dump_on_file, validate, create_backup);
(b) parameter sets with every parameter at a value its own check functions
admit, dumped to TOML and read back by a fresh Parameters object.

Monitors (all at the boundary: files in the scratch directory and the objects
re-read from them):
* directory snapshot (inode, mtime_ns, size, sha1) before/after every call, plus
  an audit-hook log of open-for-writing / rename / remove / copy with the
  biogeme frame that issued it, plus a post-condition contract on the real
  ``get_new_file_name``: no result / report / data-dump file that existed
  before the call may be opened for writing, replaced, removed or renamed onto;
* independent parsers of the HTML / LaTeX / F12 / printed layouts: every
  estimated parameter is listed with its value;
* pickle round trip: raw content of the file (plain ``pickle.load``) equals what
  was estimated; ``bioResults(pickle_file=)`` gives tables, statistics and
  reports identical to the original;
* ``estimate(recycle=True)`` returns the most recently saved results;
* parameter file: independent ``tomllib`` reading of the dumped file + fresh
  ``Parameters().read_file``: same value and same kind (bool stays bool) for
  every parameter, also for the second generation (dump of what was read).
"""
from __future__ import annotations

import math
import os
import pickle
import random
import re
import shutil

import numpy as np

from .. import env
from ..rec import Rec, stable_hash

LEVEL = 'exploration'
RULE = (
    'cases = (i) seeded synthetic estimation outcomes (1-8 parameters; names long / with "_" / not alphabetical / '
    'sharing their first 10 characters; values over 16 orders of magnitude; active bounds; optional bootstrap) and real '
    'logit estimations, each followed by a seeded history of 1-12 output-producing calls (including the default '
    'construction BIOGEME(database, formula), which reads or creates biogeme.toml) in a scratch directory '
    'pre-populated with earlier output (none, base name, base+~00, runs, gaps, 120 earlier versions, look-alike names; '
    'with or without a user-written biogeme.toml); '
    '(ii) seeded parameter sets in which every parameter takes a value admitted by its own check functions (special and '
    'random floats, ints where floats are expected, both booleans, every algorithm name, strings needing escapes), plus '
    'directed cases. A case is non-trivial when at least one file was written by biogeme and read back / re-parsed by a '
    'monitor; distinct = hash of (results content, pre-population kind, history) resp. of the parameter values'
)
ASSUMPTIONS = [
    'the file system of the scratch directory reports inode / mtime_ns / size faithfully; sha1 of the content identifies it',
    'sys.addaudithook "open"/"os.rename"/"os.remove"/"shutil.copyfile" events are raised for every such operation of the interpreter',
    'stdlib tomllib, html.parser and pickle are the independent readers of what biogeme wrote',
    'the parameter-file round trip runs on the real code path with the installed tomlkit (0.15.1 here), no shim',
    'biogeme.toml is judged like a result file for "never replaces an existing file": BIOGEME(database, formula) without '
    'a Parameters object must read an existing biogeme.toml and may only create it when it is absent '
    '(Parameters.dump_file to a name chosen by the caller overwrites by design and is not judged for that)',
    'admissible parameter values = values of the declared type of the parameter (ints also for floats and for the '
    '"number" missing_data) accepted by every function in its check tuple; numpy scalars, complex numbers and booleans '
    'given to integer parameters are not judged',
    'time stamps (YYYY-MM-DD hh:mm:ss[.ffffff]) are masked before two reports are compared',
    'for estimate(recycle=True) "the saved results" is taken to be the most recently created pickle of the model when '
    'the version numbers on disk have no gap; directories with gaps (files deleted by the user) are only required to '
    'return the faithful content of one of the pickle files',
]
MIN_DISTINCT = {'quick': 250, 'thorough': 2500}
CASE_TIMEOUT = 600  # generous: the machine is shared; a watchdog firing is inconclusive, never a verdict
SHARD_TIMEOUT = {'quick': 3600, 'thorough': 4 * 3600}

N_SYN = {'quick': 340, 'thorough': 3000}
N_REAL = {'quick': 36, 'thorough': 200}
N_PAR = {'quick': 160, 'thorough': 1500}
N_PARREAD = {'quick': 60, 'thorough': 500}

# the first four are regression cases of defects repaired in /repo (99ee103, 99ee103, e4d29b3, 652f296): they must hold
DIRECTED = [
    'parameters-dump-installed-tomlkit', 'biogeme-default-parameter-file', 'recycle-beyond-100-versions',
    'latex-exponent-values', 'base-and-00-present', 'backup-twice', 'f12-shared-prefix', 'active-bound-roundtrip',
    'zero-valued-parameters', 'dump-on-file-thrice', 'recycle-two-digit-run', 'real-estimate-validate-recycle',
]

PROTECTED = ('html', 'pickle', 'tex', 'F12', 'dat', 'toml')
LATEX_MALFORMED_IS_VIOLATION = True


def cases(seed, tier):
    out = [{'seed': seed, 'i': k, 'mode': 'directed', 'name': n} for k, n in enumerate(DIRECTED)]
    out += [{'seed': seed, 'i': i, 'mode': 'syn'} for i in range(N_SYN[tier])]
    out += [{'seed': seed, 'i': i, 'mode': 'real'} for i in range(N_REAL[tier])]
    out += [{'seed': seed, 'i': i, 'mode': 'par'} for i in range(N_PAR[tier])]
    out += [{'seed': seed, 'i': i, 'mode': 'parread'} for i in range(N_PARREAD[tier])]
    # interleave cheap and expensive cases over the shards
    random.Random(seed).shuffle(out)
    return out


def warmup():
    import biogeme.biogeme  # noqa
    import biogeme.results  # noqa
    import biogeme.database  # noqa
    import biogeme.parameters  # noqa
    import biogeme.filenames  # noqa
    import biogeme.tools.files  # noqa
    import tomllib  # noqa
    from ..oracle import c14_reports as orc

    orc.FILE_EVENTS.install()
    orc.NAME_CONTRACT.install()


# ----------------------------------------------------------------------------
# self-test of the observers (hand-written documents, no biogeme involved)
# ----------------------------------------------------------------------------
def selftest():
    import tempfile
    import tomllib
    from ..oracle import c14_reports as orc

    bad = []
    html = ('<html><h1>Estimation report</h1><table><tr><td>Sample size</td><td>5</td></tr></table>'
            '<h1>Estimated parameters</h1>\n<table border="1">\n<tr class=biostyle><th>Name</th><th>Value</th><th>Rob. Std err</th></tr>\n'
            '<tr class=biostyle><td>b_x</td><td>1.23e+03</td><td>0.1</td></tr>\n<tr class=biostyle><td>A</td><td>-0.5</td><td>2</td></tr>\n</table>'
            '<h2>Correlation of coefficients</h2><table><tr><th>c</th></tr></table></html>')
    rows = orc.html_parameter_rows(html)
    if rows != [('b_x', {'Value': '1.23e+03', 'Rob. Std err': '0.1'}), ('A', {'Value': '-0.5', 'Rob. Std err': '2'})]:
        bad.append(f'html parser: {rows}')
    tex = ('\\section{General statistics}\n\\begin{tabular}{ll}\nx & 1 \\\\\n\\end{tabular}\n\\section{Parameter estimates}\n'
           '\\begin{tabular}{lrr}\n & Value & Rob. Std err \\\\\nb_x & 1.23e+03 & 0.1 \\\\\nA & -0.5 & 2.0 \\\\\n\\end{tabular}\n')
    rows = orc.latex_parameter_rows(tex)
    if rows != [('b_x', {'Value': '1.23e+03', 'Rob. Std err': '0.1'}), ('A', {'Value': '-0.5', 'Rob. Std err': '2.0'})]:
        bad.append(f'latex parser: {rows}')
    f12 = (' ' * 70 + 'model\nFrom biogeme' + ' ' * 44 + '2026-01-01 00:00:00  \nEND\n'
           '   0 b_long_nam F  +1.234500000000e+03 +1.408839765056e-03\n   0          a T  -2.500000000000e-01 +6.7e-03\n  -1\n   5 0 0 0\n')
    co = orc.f12_coefficients(f12)
    if not co or [c[:4] for c in co] != [('b_long_nam', 'F', '+1.234500000000e+03', '+1.408839765056e-03'), ('a', 'T', '-2.500000000000e-01', '+6.7e-03')]:
        bad.append(f'f12 parser: {co}')
    pr = orc.printed_parameters('x\nb_x            : 1.23e+03[0.1 2 3]\nb_long_name_with_many_parts_01: -0.5\n', ['b_x', 'b_long_name_with_many_parts_01'])
    if pr != {'b_x': '1.23e+03', 'b_long_name_with_many_parts_01': '-0.5'}:
        bad.append(f'printed parser: {pr}')
    for txt, v, exp in [('1.23e+03', 1234.5, True), ('1.23e+03', 1244.5, False), ('-0.25', -0.25, True), ('0', 0.0, True),
                        ('1e+03.0', 1000.0, False), ('100.0', 100.0, True), ('1.5e-05', 1.5e-5, True), ('0.5', -0.5, False)]:
        if orc.agrees_3g(txt, v) != exp:
            bad.append(f'agrees_3g({txt!r},{v}) != {exp}')
    with tempfile.TemporaryDirectory(prefix='c14_self_') as d:
        vals = {('a', 'S'): True, ('b', 'S'): 1e22, ('c', 'T'): -0.0, ('d', 'T'): 'q"\\\n\t#é', ('e', 'T'): 10 ** 30,
                ('f', 'T'): float('inf'), ('g', 'T'): 5e-324, ('h', 'U'): 1.0}
        p = os.path.join(d, 'x.toml')
        orc.write_parameter_file(p, vals)
        with open(p, 'rb') as f:
            doc = tomllib.load(f)
        for (n, s), v in vals.items():
            w = doc[s][n]
            if isinstance(v, bool):
                if w != ('True' if v else 'False'):
                    bad.append(f'toml writer bool {n}')
            elif not (w == v and type(w) is type(v) and (not isinstance(v, float) or math.copysign(1, w) == math.copysign(1, v))):
                bad.append(f'toml writer {n}: {v!r} -> {w!r}')
        # snapshot notices replacement with identical content
        q = os.path.join(d, 'f.html')
        with open(q, 'w') as f:
            f.write('same')
        s1 = orc.snapshot(d)
        os.utime(q, ns=(1, 1))
        s1 = orc.snapshot(d)
        with open(q, 'w') as f:
            f.write('same')
        s2 = orc.snapshot(d)
        if s1['f.html'] == s2['f.html']:
            bad.append('snapshot blind to rewrite with identical content')
        # audit recorder sees a write-open
        orc.FILE_EVENTS.install()
        with orc.FILE_EVENTS.recording() as evs:
            with open(q, 'w') as f:
                f.write('x')
            with open(q) as f:
                f.read()
        if [e['ev'] for e in evs] != ['open-write']:
            bad.append(f'file event recorder: {evs}')
    return bad


# ----------------------------------------------------------------------------
# helpers
# ----------------------------------------------------------------------------
def _ext(fn: str) -> str:
    return fn.rsplit('.', 1)[-1] if '.' in fn else ''


def _scratch(case) -> str:
    base = os.environ.get('BIOMON_WORKDIR') or os.getcwd()
    d = os.path.join(base, 'c14-' + stable_hash(case))
    shutil.rmtree(d, ignore_errors=True)
    os.makedirs(d)
    os.chdir(d)
    return d


class Ctx:
    """everything the monitors of one case share"""

    def __init__(self, rec: Rec, d: str, wit: dict):
        self.rec = rec
        self.d = d
        self.wit = wit
        self.produced = []  # names of files created by biogeme calls, in order
        self.origin = {}  # pickle file name -> (results object held in memory, tables taken when it was written)
        self.pickle_order = []  # model pickles in creation order (prepopulated ones first, by version)
        self.read_back = 0
        self.toml_values = None  # what the biogeme.toml of the directory holds, when the harness knows it

    def viol(self, mech, msg, **kw):
        w = dict(self.wit)
        w.update(kw)
        self.rec.violation('C14/' + mech, msg, w)


def monitored(ctx: Ctx, label: str, fn, allow_removed=()):
    """run one call of the real code between two snapshots with the event
    recorder and the fresh-name contract on; judge the never-overwrite part"""
    from ..oracle import c14_reports as orc

    before = orc.snapshot(ctx.d)
    orc.NAME_CONTRACT.reset()
    err = None
    result = None
    with orc.FILE_EVENTS.recording() as evs:
        try:
            result = fn()
        except BaseException as e:  # classified by the caller
            err = e
    evs = list(evs)
    after = orc.snapshot(ctx.d)
    ctx.rec.ev()
    ctx.rec.c('calls_' + label)
    ctx.rec.c('file_events_seen', len(evs))
    ctx.rec.c('fresh_name_contract_evaluations', orc.NAME_CONTRACT.calls)
    for fn_, meta in before.items():
        if _ext(fn_) not in PROTECTED or fn_ in allow_removed:
            continue
        if fn_ not in after:
            ctx.viol(f'existing-file-removed-by-{label}', f'{fn_} existed before {label} and is gone', file=fn_, events=evs[:20])
        elif after[fn_] != meta:
            what = 'content changed' if after[fn_][3] != meta[3] else 'rewritten (inode/mtime changed, same content)'
            ctx.viol(f'existing-file-replaced-by-{label}', f'{fn_} existed before {label}: {what}', file=fn_, events=evs[:20])
    for e in evs:
        if e['ev'] == 'open-write':
            p = os.path.abspath(e['path'])
            if os.path.dirname(p) == ctx.d and os.path.basename(p) in before and _ext(p) in PROTECTED and e['func'] is not None:
                ctx.viol(f'writer-opened-existing-file-for-writing-{label}',
                         f'{e["func"]} ({e["module"]}) opened {os.path.basename(p)} with mode {e["mode"]!r}; it existed before the call', event=e)
        elif e['ev'] in ('os.rename', 'shutil.copyfile', 'shutil.move'):
            dst = e['args'][1]
            if dst is not None:
                p = os.path.abspath(dst)
                if os.path.dirname(p) == ctx.d and os.path.basename(p) in before and _ext(p) in PROTECTED and e['func'] is not None:
                    ctx.viol(f'rename-or-copy-onto-existing-file-{label}', f'{e["func"]}: {e["ev"]} onto existing {os.path.basename(p)}', event=e)
    for f in orc.NAME_CONTRACT.failures:
        ctx.viol('get_new_file_name-returned-existing-name', f'get_new_file_name({f["name"]!r},{f["ext"]!r}) returned {f["returned"]!r} which exists', **f)
    new = [f for f in after if f not in before]
    # (a name may legitimately come back after create_backup(rename=True) moved the file away: the snapshot decides)
    ctx.produced += [f for f in new if _ext(f) in PROTECTED]
    return result, err, new, before, after


def unexpected(ctx: Ctx, label: str, err) -> bool:
    """an exception from an output call on a regular results object refutes the property"""
    if err is None:
        return False
    ctx.viol(f'{label}-raises-{type(err).__name__}', f'{label} raised {type(err).__name__}: {err}')
    return True


def expect_single_new(ctx: Ctx, label: str, new, ext: str, reported):
    """the call must have created exactly one new file, the one it reports"""
    prot = [f for f in new if _ext(f) in PROTECTED]
    if len(prot) != 1 or _ext(prot[0]) != ext:
        ctx.viol(f'no-new-file-created-by-{label}', f'{label} created {prot} (expected exactly one new .{ext} file; reported {reported!r})')
        return None
    if reported is not None and os.path.basename(str(reported)) != prot[0]:
        ctx.viol(f'reported-name-differs-from-file-created-by-{label}', f'{label} reports {reported!r}, created {prot[0]}')
    ctx.rec.c('fresh_files_' + ext)
    return prot[0]


# ---- reports ----------------------------------------------------------------
def check_html(ctx: Ctx, text: str, names, values, where: str):
    from ..oracle import c14_reports as orc

    ctx.rec.ev()
    ctx.rec.c('html_reports_parsed')
    rows = orc.html_parameter_rows(text)
    if rows is None:
        ctx.viol(f'html-{where}-no-parameter-table', 'no table headed "Estimated parameters"')
        return
    listed = {}
    for n, cells in rows:
        listed.setdefault(n, cells)
    for n, v in zip(names, values):
        if n not in listed:
            ctx.viol(f'html-{where}-parameter-missing', f'parameter {n} is not listed in the HTML report (listed: {[r[0] for r in rows]})')
        elif not orc.agrees_3g(listed[n].get('Value', ''), v):
            ctx.viol(f'html-{where}-parameter-value-differs', f'parameter {n}: report says {listed[n].get("Value")!r}, estimate {v!r}')
    if len(rows) != len(names):
        ctx.viol(f'html-{where}-row-count', f'{len(rows)} rows for {len(names)} parameters')


def check_latex(ctx: Ctx, text: str, names, values, where: str):
    from ..oracle import c14_reports as orc

    ctx.rec.ev()
    ctx.rec.c('latex_reports_parsed')
    rows = orc.latex_parameter_rows(text)
    if rows is None:
        ctx.viol(f'latex-{where}-no-parameter-table', 'no tabular after \\section{Parameter estimates}')
        return
    listed = {}
    for n, cells in rows:
        listed.setdefault(n, cells)
    for n, v in zip(names, values):
        if n not in listed:
            ctx.viol(f'latex-{where}-parameter-missing', f'parameter {n} is not listed in the LaTeX report (listed: {[r[0] for r in rows]})')
            continue
        cell = listed[n].get('Value', '')
        if orc.agrees_3g(cell, v):
            continue
        m = re.match(r'^([+-]?\d+e[+-]?\d+)\.0$', cell)
        if m and orc.agrees_3g(m.group(1), v):
            # '2e+03.0': exponent form with '.0' glued behind the exponent -- not a numeral
            ctx.rec.c('latex_malformed_exponent_numeral_seen')
            if LATEX_MALFORMED_IS_VIOLATION:
                ctx.viol('latex-value-malformed-numeral-exponent-followed-by-dot-zero',
                         f'parameter {n}: the LaTeX report prints {cell!r} for {v!r}; that is not a number in any notation')
            continue
        ctx.viol(f'latex-{where}-parameter-value-differs', f'parameter {n}: report says {cell!r}, estimate {v!r}')
    if len(rows) != len(names):
        ctx.viol(f'latex-{where}-row-count', f'{len(rows)} rows for {len(names)} parameters')


def check_f12(ctx: Ctx, text: str, names, values, where: str):
    from ..oracle import c14_reports as orc

    ctx.rec.ev()
    ctx.rec.c('f12_reports_parsed')
    co = orc.f12_coefficients(text)
    if co is None:
        ctx.viol(f'f12-{where}-layout', 'coefficient block not in the documented layout')
        return
    if len(co) != len(names):
        ctx.viol(f'f12-{where}-parameter-missing', f'{len(co)} coefficient lines for {len(names)} parameters: {[c[0] for c in co]}')
        return
    for (label, flag, val, se, field), n, v in zip(co, names, values):
        if field != f'{n[:10]: >10}':
            ctx.viol(f'f12-{where}-label-differs', f'coefficient line carries label {field!r}; parameter {n} has the 10-character field {n[:10]!r:>10}')
        elif not orc.agrees_12e(val, v):
            ctx.viol(f'f12-{where}-parameter-value-differs', f'parameter {n}: F12 says {val!r}, estimate {v!r}')
        if len(n) > 10:
            ctx.rec.c('f12_labels_truncated_to_10')


def check_printed(ctx: Ctx, text: str, names, values, where: str):
    from ..oracle import c14_reports as orc

    ctx.rec.ev()
    ctx.rec.c('printed_reports_parsed')
    got = orc.printed_parameters(text, list(names))
    for n, v in zip(names, values):
        if n not in got:
            ctx.viol(f'printed-{where}-parameter-missing', f'parameter {n} is not listed in the printed form')
        elif not orc.agrees_3g(got[n], v):
            ctx.viol(f'printed-{where}-parameter-value-differs', f'parameter {n}: printed {got[n]!r}, estimate {v!r}')


_TABLE_CACHE: dict = {}


def tables_of(r):
    """what 'the same estimates, statistics and reports' is compared on"""
    from ..oracle import c14_reports as orc

    key_ = (id(r), r.data.htmlFileName, r.data.latexFileName)  # the only mutable state the tables / reports depend on
    if key_ in _TABLE_CACHE:
        return _TABLE_CACHE[key_][0]
    out = {}

    def grab(key, fn):
        try:
            out[key] = ('ok', fn())
        except BaseException as e:  # the same failure on both sides is the same behaviour
            out[key] = ('raised', f'{type(e).__name__}: {e}')

    grab('estimated_parameters_all', lambda: r.get_estimated_parameters(only_robust=False))
    grab('estimated_parameters_robust', lambda: r.get_estimated_parameters(only_robust=True))
    grab('correlation', lambda: r.get_correlation_results())
    grab('general_statistics', lambda: {k: (orc.plain(v[0]), v[1]) for k, v in r.get_general_statistics().items()})
    grab('beta_values', lambda: {k: float(v) for k, v in r.get_beta_values().items()})
    grab('var_covar', lambda: r.get_var_covar())
    grab('robust_var_covar', lambda: r.get_robust_var_covar())
    grab('bootstrap_var_covar', lambda: r.get_bootstrap_var_covar())
    grab('html', lambda: orc.mask_timestamps(r.get_html(only_robust=False)))
    grab('latex', lambda: orc.mask_timestamps(r.get_latex(only_robust=False)))
    grab('f12', lambda: orc.mask_timestamps(r.get_f12()))
    grab('f12_rao_cramer', lambda: orc.mask_timestamps(r.get_f12(robust_std_err=False)))
    grab('printed', lambda: str(r))
    grab('short_summary', lambda: r.short_summary())
    if len(_TABLE_CACHE) > 6:
        _TABLE_CACHE.pop(next(iter(_TABLE_CACHE)))
    _TABLE_CACHE[key_] = (out, r)  # holding r keeps id(r) from being reused
    return out


def compare_tables(ctx: Ctx, a: dict, b: dict, mech_prefix: str, what: str):
    import pandas as pd
    from ..oracle import c14_reports as orc

    for key in a:
        ctx.rec.ev()
        sa, va = a[key]
        sb, vb = b.get(key, ('missing', None))
        if sa != sb:
            ctx.viol(f'{mech_prefix}-{key}-differs', f'{what}: {key}: original {sa} ({str(va)[:200]}), re-read {sb} ({str(vb)[:200]})')
            continue
        if sa != 'ok':
            ctx.rec.c('compared_both_raised_' + key)
            continue
        if isinstance(va, pd.DataFrame):
            diff = orc.frames_equal(va, vb) if isinstance(vb, pd.DataFrame) else 'not a data frame'
        elif va is None or vb is None:
            diff = None if (va is None and vb is None) else 'one side is None'
        elif isinstance(va, str):
            diff = None
            if va != vb:
                la, lb = va.split('\n'), vb.split('\n')
                k = next((j for j, (x, y) in enumerate(zip(la, lb)) if x != y), min(len(la), len(lb)))
                diff = f'first differing line {k}: {la[k][:160] if k < len(la) else None!r} vs {lb[k][:160] if k < len(lb) else None!r}'
        else:
            diff = None if va == vb else f'{str(va)[:300]} vs {str(vb)[:300]}'
        if diff:
            ctx.viol(f'{mech_prefix}-{key}-differs', f'{what}: {key}: {diff}')


def check_pickle_file(ctx: Ctx, fn: str, r, expected_raw: dict | None, label: str):
    """independent reading of the file + the library's own loader against the original"""
    import biogeme.results as res
    from ..oracle import c14_reports as orc

    # (1) plain pickle.load: what is in the file is what was estimated
    try:
        with open(os.path.join(ctx.d, fn), 'rb') as f:
            data = pickle.load(f)
    except BaseException as e:
        ctx.viol(f'pickle-file-unreadable-{label}', f'{fn}: {type(e).__name__}: {e}')
        return
    ctx.rec.ev()
    ctx.rec.c('pickle_files_read_independently')
    exp = expected_raw or {}
    names = list(exp.get('names', r.data.betaNames))
    beta = exp.get('beta', np.asarray(r.data.betaValues, dtype=float))
    if list(data.betaNames) != names:
        ctx.viol('pickle-file-content-names-differ', f'{fn}: names {list(data.betaNames)} vs {names}')
    if not orc.arrays_equal(np.asarray(data.betaValues, dtype=float), beta):
        ctx.viol('pickle-file-content-estimates-differ', f'{fn}: estimates {list(data.betaValues)} vs {list(beta)}')
    for attr, ref in (('H', exp.get('H', r.data.H)), ('bhhh', exp.get('BHHH', r.data.bhhh)), ('bootstrap', exp.get('bootstrap', r.data.bootstrap)),
                      ('g', exp.get('gradient', r.data.g))):
        if not orc.arrays_equal(getattr(data, attr, None), ref):
            ctx.viol(f'pickle-file-content-{attr}-differs', f'{fn}: {attr} in the file differs from what was estimated')
    for attr, ref in (('logLike', exp.get('L', r.data.logLike)), ('initLogLike', exp.get('L0', r.data.initLogLike)),
                      ('nullLogLike', exp.get('Lnull', r.data.nullLogLike)), ('sampleSize', exp.get('N', r.data.sampleSize))):
        got = getattr(data, attr, 'absent')
        if not (got == ref or (got is None and ref is None)):
            ctx.viol(f'pickle-file-content-{attr}-differs', f'{fn}: {attr}={got!r} vs {ref!r}')
    for b, n, v in zip(data.betas, names, beta):
        if b.name != n or float(b.value) != float(v):
            ctx.viol('pickle-file-content-beta-objects-differ', f'{fn}: Beta object {b.name}={b.value!r} vs {n}={v!r}')
        lb, ub = (exp['bounds'][n] if 'bounds' in exp else (b.lb, b.ub))
        if (b.lb, b.ub) != (lb, ub):
            ctx.viol('pickle-file-content-bounds-differ', f'{fn}: bounds of {n}: {(b.lb, b.ub)} vs {(lb, ub)}')
    # (2) the library's loader against the original object
    original = tables_of(r)
    try:
        loaded = res.bioResults(pickle_file=fn, identification_threshold=r.identification_threshold)
    except BaseException as e:
        ctx.viol(f'pickle-reload-raises-{type(e).__name__}', f'bioResults(pickle_file={fn!r}) raised {type(e).__name__}: {e}')
        return
    ctx.rec.c('pickle_round_trips')
    ctx.read_back += 1
    compare_tables(ctx, original, tables_of(loaded), 'pickle-roundtrip', f'{fn} written by {label} and loaded again')
    if list(loaded.data.betaNames) != names or not orc.arrays_equal(np.asarray(loaded.data.betaValues, dtype=float), beta):
        ctx.viol('pickle-roundtrip-estimates-differ', f'{fn}: loaded estimates {list(loaded.data.betaValues)} vs {list(beta)}')
    ctx.origin[fn] = (r, original)


def model_pickles_on_disk(ctx: Ctx, model: str):
    """[(file, version or None, digits)]: the files the documented patterns model.pickle / model~*.pickle designate;
    version is None for names that are not of the form model~<digits>.pickle (e.g. a backup copy model~00_1.pickle)"""
    pat = re.compile('^' + re.escape(model) + r'(~(.*))?\.pickle$', re.S)
    out = []
    for fn in os.listdir(ctx.d):
        m = pat.match(fn)
        if m:
            tail = m.group(2)
            if m.group(1) is None:
                out.append((fn, -1, 0))
            elif tail.isdigit():
                out.append((fn, int(tail), len(tail)))
            else:
                out.append((fn, None, 0))
    return out


def do_recycle(ctx: Ctx, bg, model: str, label='recycle'):
    """estimate(recycle=True) must give back the saved results"""
    from ..oracle import c14_reports as orc

    disk = model_pickles_on_disk(ctx, model)
    if not disk:
        ctx.rec.c('recycle_skipped_no_pickle')
        return
    res_, err, new, before, after = monitored(ctx, label, lambda: bg.estimate(recycle=True))
    if unexpected(ctx, label, err):
        return
    if [f for f in new if _ext(f) in PROTECTED]:
        ctx.viol('recycle-wrote-files', f'estimate(recycle=True) created {new} although a pickle file was available')
    if before != after:
        changed = [f for f in before if after.get(f) != before[f]]
        if [f for f in changed if _ext(f) in PROTECTED]:
            return  # already reported by monitored()
    ctx.rec.c('recycle_calls_judged')
    ctx.read_back += 1
    got_beta = np.asarray(res_.data.betaValues, dtype=float)
    got_ll = res_.data.logLike

    def matches(fn):
        try:
            with open(os.path.join(ctx.d, fn), 'rb') as f:
                d = pickle.load(f)
        except BaseException:
            return False
        return orc.arrays_equal(np.asarray(d.betaValues, dtype=float), got_beta) and d.logLike == got_ll and list(d.betaNames) == list(res_.data.betaNames)

    matching = [fn for fn, _, _ in disk if matches(fn)]
    ctx.rec.ev()
    if not matching:
        ctx.viol('recycle-results-match-no-pickle-on-disk', f'estimate(recycle=True) returned estimates {got_beta.tolist()} found in none of {[d[0] for d in disk]}')
        return
    on_disk = {fn: v for fn, v, _ in disk}
    if any(v is None for v in on_disk.values()):
        ctx.rec.c('recycle_with_foreign_names_not_judged_for_latest')
        return
    versions = sorted(on_disk.values())
    gap = versions != list(range(-1, len(versions) - 1))
    # creation order known to the harness must be the order of the version numbers (it is not once a gap was filled)
    known = [f for f in ctx.pickle_order if f in on_disk]
    kv = [on_disk[f] for f in known]
    consistent = len(known) == len(on_disk) and kv == sorted(kv)
    latest = known[-1] if known else None
    if latest is None:
        ctx.rec.c('recycle_latest_unknown_not_judged')
        return
    three_digits = any(nd > 2 for _, _, nd in disk)
    if gap or not consistent:
        ctx.rec.c('recycle_with_gap_not_judged_for_latest')
    elif latest in matching:
        ctx.rec.c('recycle_returned_latest' + ('_beyond_100' if three_digits else ''))
    elif three_digits:
        ctx.viol('recycle-returns-older-pickle-when-version-numbers-exceed-two-digits',
                 f'latest saved results are in {latest}; estimate(recycle=True) returned those of {matching} ({len(disk)} versions on disk)')
    else:
        ctx.viol('recycle-returns-older-pickle', f'latest saved results are in {latest}; estimate(recycle=True) returned those of {matching}')
    # the recycled object must equal the object that was saved (tables, reports)
    fn = latest if latest in matching else matching[-1]
    if fn in ctx.origin:
        r0, t0 = ctx.origin[fn]
        if getattr(res_, 'identification_threshold', None) == r0.identification_threshold:
            compare_tables(ctx, t0, tables_of(res_), 'recycle-roundtrip', f'results recycled from {fn}')
            ctx.rec.c('recycle_tables_compared')


def tiny_biogeme(model: str, threshold: float):
    """a BIOGEME object that only lends its modelName to estimate(recycle=True)"""
    import pandas as pd
    import biogeme.database as db
    from biogeme.biogeme import BIOGEME
    from biogeme.expressions import Beta, Variable
    from biogeme.parameters import Parameters

    p = Parameters()
    p.set_value('identification_threshold', float(threshold), 'Output')
    p.set_value('save_iterations', False, 'Estimation')
    p.set_value('number_of_threads', 1, 'MultiThreading')
    d = db.Database('tiny', pd.DataFrame({'y': [1.0, 2.0]}))
    b = Beta('b', 0.5, None, None, 0)
    bg = BIOGEME(d, -(Variable('y') - b) ** 2, parameters=p)
    bg.modelName = model
    return bg


# ----------------------------------------------------------------------------
# operations of a history
# ----------------------------------------------------------------------------
def op_write_report(ctx: Ctx, r, op: str, names, values):
    d = r.data
    if op in ('write_html', 'write_html_all'):
        only = op == 'write_html'
        _, err, new, _, _ = monitored(ctx, 'write_html', lambda: r.write_html(only_robust=only))
        if unexpected(ctx, 'write_html', err):
            return
        fn = expect_single_new(ctx, 'write_html', new, 'html', d.htmlFileName)
        if fn:
            with open(os.path.join(ctx.d, fn), encoding='utf-8') as f:
                check_html(ctx, f.read(), names, values, 'file')
            ctx.read_back += 1
    elif op == 'write_latex':
        _, err, new, _, _ = monitored(ctx, 'write_latex', lambda: r.write_latex())
        if unexpected(ctx, 'write_latex', err):
            return
        fn = expect_single_new(ctx, 'write_latex', new, 'tex', d.latexFileName)
        if fn:
            with open(os.path.join(ctx.d, fn), encoding='utf-8') as f:
                check_latex(ctx, f.read(), names, values, 'file')
            ctx.read_back += 1
    elif op in ('write_f12', 'write_f12_rc'):
        rob = op == 'write_f12'
        _, err, new, _, _ = monitored(ctx, 'write_f12', lambda: r.write_f12(robust_std_err=rob))
        if unexpected(ctx, 'write_f12', err):
            return
        fn = expect_single_new(ctx, 'write_f12', new, 'F12', d.F12FileName)
        if fn:
            with open(os.path.join(ctx.d, fn), encoding='utf-8') as f:
                check_f12(ctx, f.read(), names, values, 'file')
            ctx.read_back += 1


def op_write_pickle(ctx: Ctx, r, raw):
    ret, err, new, _, _ = monitored(ctx, 'write_pickle', lambda: r.write_pickle())
    if unexpected(ctx, 'write_pickle', err):
        return
    fn = expect_single_new(ctx, 'write_pickle', new, 'pickle', ret)
    if fn:
        ctx.pickle_order.append(fn)
        check_pickle_file(ctx, fn, r, raw, 'write_pickle')


def op_dump_on_file(ctx: Ctx, seed, i, j):
    import pandas as pd
    import biogeme.database as db
    from ..gen import c14_work as gen

    df = gen.dump_dataframe(seed, i * 31 + j)
    database = db.Database(random.Random(i).choice(['mydata', 'swiss_metro', 'd']), df.copy())
    ret, err, new, _, _ = monitored(ctx, 'dump_on_file', lambda: database.dump_on_file())
    if unexpected(ctx, 'dump_on_file', err):
        return
    fn = expect_single_new(ctx, 'dump_on_file', new, 'dat', ret)
    if fn:
        ctx.read_back += 1
        try:
            back = pd.read_csv(os.path.join(ctx.d, fn), sep='\t', index_col='__rowId', float_precision='round_trip')
            ctx.rec.c('data_dumps_read_back')
            if list(back.columns) != list(df.columns) or not np.array_equal(back.to_numpy(dtype=float), df.to_numpy(dtype=float)):
                ctx.rec.c('data_dump_differs_informational')
        except BaseException:
            ctx.rec.c('data_dump_unreadable_informational')


def op_backup(ctx: Ctx, rename: bool, pr: random.Random, target=None):
    import hashlib
    from biogeme.tools.files import create_backup

    files = sorted(f for f in os.listdir(ctx.d) if _ext(f) in PROTECTED)
    if not files:
        ctx.rec.c('backup_skipped_empty_directory')
        return
    target = target or pr.choice(files)
    with open(os.path.join(ctx.d, target), 'rb') as f:
        content = hashlib.sha1(f.read()).hexdigest()
    label = 'create_backup_rename' if rename else 'create_backup_copy'
    ret, err, new, before, after = monitored(ctx, label, lambda: create_backup(target, rename=rename),
                                             allow_removed=(target,) if rename else ())
    if unexpected(ctx, label, err):
        return
    if ret is None or os.path.basename(ret) not in new:
        ctx.viol(f'backup-name-not-new-{label}', f'create_backup({target!r}) returned {ret!r}; new files {new}')
        return
    ctx.rec.c('backups_made')
    if after[os.path.basename(ret)][3] != content:
        ctx.viol(f'backup-content-differs-{label}', f'{ret} does not hold the content of {target}')
    if rename and target in after:
        ctx.rec.c('backup_rename_left_original')
    if target in ctx.pickle_order and rename:
        ctx.pickle_order.remove(target)
    ctx.origin.pop(target, None) if rename else None


def write_user_toml(ctx: Ctx, seed, i):
    from ..gen import c14_work as gen
    from ..oracle import c14_reports as orc

    vals = gen.make_user_toml_values(seed, i)
    pr = random.Random(f'spell-{seed}-{i}')
    spell = {k: pr.choice(['True', 'true', 'Yes', 'yes'] if v else ['False', 'false', 'No', 'no']) for k, v in vals.items() if isinstance(v, bool)}
    orc.write_parameter_file(os.path.join(ctx.d, 'biogeme.toml'), vals, spell)
    ctx.toml_values = vals
    ctx.rec.c('prepop_user_biogeme_toml')


def op_default_biogeme(ctx: Ctx):
    """BIOGEME(database, formula) without a Parameters object: reads biogeme.toml if it exists (and leaves it alone),
    creates it otherwise; what it created reads back as the default values"""
    import tomllib
    import pandas as pd
    import biogeme.database as db
    from biogeme.biogeme import BIOGEME
    from biogeme.expressions import Beta, Variable
    from biogeme.parameters import Parameters
    from ..gen import c14_work as gen

    existed = os.path.exists(os.path.join(ctx.d, 'biogeme.toml'))

    def make():
        data = db.Database('tiny', pd.DataFrame({'y': [1.0, 2.0]}))
        return BIOGEME(data, -(Variable('y') - Beta('b', 0.5, None, None, 0)) ** 2)

    bg, err, new, before, after = monitored(ctx, 'default_biogeme', make)
    if err is not None:
        import traceback

        through_dump = any(fr.name == 'dump_file' for fr in traceback.extract_tb(err.__traceback__))
        mech = f'parameters-dump_file-raises-{type(err).__name__}' if through_dump else f'default_biogeme-raises-{type(err).__name__}'
        ctx.viol(mech, f'BIOGEME(database, formula) with{"" if existed else "out"} biogeme.toml in the directory raised {type(err).__name__}: {err}')
        return
    prot_new = [f for f in new if _ext(f) in PROTECTED]
    defaults = {(k.name, k.section): v.value for k, v in Parameters().all_parameters_dict.items()}
    if existed:
        # (a replaced / rewritten biogeme.toml is reported by monitored(): 'toml' is a protected extension)
        ctx.rec.c('existing_parameter_file_read_by_default_construction')
        if prot_new:
            ctx.viol('default_biogeme-created-files-although-biogeme.toml-existed', f'new files {prot_new}')
        if ctx.toml_values is not None:
            ctx.read_back += 1
            expected = dict(defaults)
            expected.update(ctx.toml_values)
            _compare_parameters(ctx, expected, bg.biogeme_parameters, 'existing-parameter-file-not-honoured', 'biogeme.toml present before BIOGEME(database, formula)')
    else:
        if prot_new != ['biogeme.toml']:
            ctx.viol('default-parameter-file-not-created', f'BIOGEME(database, formula) without biogeme.toml created {prot_new}')
            return
        ctx.rec.c('default_parameter_file_created')
        ctx.read_back += 1
        try:
            with open(os.path.join(ctx.d, 'biogeme.toml'), 'rb') as f:
                doc = tomllib.load(f)
        except BaseException as e:
            ctx.viol('dumped-parameter-file-is-not-valid-toml', f'biogeme.toml: {type(e).__name__}: {e}')
            return
        for (name, section), v in defaults.items():
            ctx.rec.ev()
            w = doc.get(section, {}).get(name, KeyError)
            if w is KeyError:
                ctx.viol('dumped-parameter-file-lacks-parameter', f'{name} [{section}] is not in the created biogeme.toml')
            elif isinstance(v, bool):
                if not (isinstance(w, str) and w in ('True', 'False') and (w == 'True') == v) and w is not v:
                    ctx.viol('dumped-parameter-file-bool-coding', f'{name}: {v!r} written as {w!r}')
            elif not gen.same_value(v, w):
                ctx.viol(f'dumped-parameter-file-{gen.kind_of(v)}-value-differs', f'{name} [{section}]: {v!r} written as {w!r}')
        q = Parameters()
        try:
            q.read_file(os.path.join(ctx.d, 'biogeme.toml'))
            _compare_parameters(ctx, defaults, q, 'default-parameter-file', 'biogeme.toml created by BIOGEME(database, formula) -> read_file')
        except BaseException as e:
            ctx.viol(f'parameters-read_file-raises-{type(e).__name__}', f'created biogeme.toml: {e}')
        ctx.toml_values = defaults


def register_prepopulated(ctx: Ctx, made: dict, model: str):
    vs = sorted((v, fn) for fn, v in made.items() if v is not None and fn.endswith('.pickle') and (fn == f'{model}.pickle' or fn.startswith(model + '~')))
    ctx.pickle_order += [fn for _, fn in vs]


# ----------------------------------------------------------------------------
# case kinds
# ----------------------------------------------------------------------------
def run_syn(case, rec, raw=None, hist=None, prepop_seed=None):
    from ..gen import c14_work as gen

    seed, i = case['seed'], case['i']
    raw = raw or gen.make_raw(seed, i)
    hist = hist or gen.make_history(seed, i)
    d = _scratch(case)
    wit = {'raw': {k: raw[k] for k in ('names', 'beta', 'bounds', 'model_name', 'K')}, 'history': hist}
    ctx = Ctx(rec, d, wit)
    model = raw['model_name']
    made = gen.prepopulate(d, model, hist['prepop'], seed, i)
    register_prepopulated(ctx, made, model)
    if hist.get('user_toml'):
        write_user_toml(ctx, seed, i)
    r = gen.build_results(raw)
    names = list(raw['names'])
    values = [float(x) for x in raw['beta']]
    pr = random.Random(f'ops-{seed}-{i}')
    rec.c('prepop_' + hist['prepop'])
    rec.c('parameters_in_results', len(names))
    if any(len(n) > 10 for n in names):
        rec.c('results_with_names_longer_than_10')
    if any(v is not None for b in raw['bounds'].values() for v in b):
        rec.c('results_with_bounds')
    # reports as strings (no file involved): every parameter listed
    for only in ((True,) if i % 2 == 0 else (False,)):  # the other variant is reached through the write_html ops
        try:
            check_html(ctx, r.get_html(only_robust=only), names, values, 'string')
            check_latex(ctx, r.get_latex(only_robust=only), names, values, 'string')
        except BaseException as e:
            ctx.viol(f'report-generation-raises-{type(e).__name__}', f'get_html/get_latex(only_robust={only}): {e}')
    try:
        check_f12(ctx, r.get_f12(), names, values, 'string')
        check_f12(ctx, r.get_f12(robust_std_err=False), names, values, 'string')
        check_printed(ctx, str(r), names, values, 'string')
    except BaseException as e:
        ctx.viol(f'report-generation-raises-{type(e).__name__}', f'get_f12/str: {e}')
    bg = None
    for j, op in enumerate(hist['ops']):
        if op.startswith('write_html') or op in ('write_latex', 'write_f12', 'write_f12_rc'):
            op_write_report(ctx, r, op, names, values)
        elif op == 'write_pickle':
            op_write_pickle(ctx, r, raw)
        elif op == 'dump_on_file':
            op_dump_on_file(ctx, seed, i, j)
        elif op in ('backup_rename', 'backup_copy'):
            op_backup(ctx, op == 'backup_rename', pr)
        elif op == 'recycle':
            if bg is None:
                bg = tiny_biogeme(model, raw['threshold'])
            do_recycle(ctx, bg, model)
        elif op == 'default_biogeme':
            op_default_biogeme(ctx)
    if ctx.read_back:
        rec.key([wit['raw'], hist])
    rec.sample({'model': model, 'parameters': names, 'values': values, 'prepopulated': hist['prepop'], 'history': hist['ops'],
                'files_created_by_biogeme': ctx.produced})
    rec.c('history_length', len(hist['ops']))
    rec.c('files_created_by_biogeme', len(ctx.produced))
    return ctx


def run_real(case, rec, spec=None, hist=None):
    import biogeme.database as db
    from ..gen import c14_work as gen

    seed, i = case['seed'], case['i']
    spec = spec or gen.make_real(seed, i)
    hist = hist or gen.make_history(seed, i, real=True)
    d = _scratch(case)
    wit = {'spec': spec, 'history': hist}
    ctx = Ctx(rec, d, wit)
    model = spec['model_name']
    made = gen.prepopulate(d, model, hist['prepop'], seed, i, exts=('html', 'pickle', 'tex'))
    register_prepopulated(ctx, made, model)
    if hist.get('user_toml'):
        write_user_toml(ctx, seed, i)
    rec.c('prepop_' + hist['prepop'])
    r = None
    bg = None
    n_est = 0
    pr = random.Random(f'rops-{seed}-{i}')
    for j, op in enumerate(hist['ops']):
        if op == 'estimate' or r is None:
            sp = dict(spec)
            sp['seed'] = spec['seed'] + n_est  # each estimation on other data: results of successive runs differ
            n_est += 1
            try:
                bg, database = gen.build_real(sp)
            except BaseException as e:
                ctx.viol(f'real-model-construction-raises-{type(e).__name__}', str(e))
                return ctx
            boot = sp['bootstrap'] > 0
            res_, err, new, _, _ = monitored(ctx, 'estimate', lambda: bg.estimate(run_bootstrap=boot))
            if unexpected(ctx, 'estimate', err):
                return ctx
            r = res_
            names = list(r.data.betaNames)
            values = [float(x) for x in r.data.betaValues]
            prot = sorted(f for f in new if _ext(f) in PROTECTED)
            if sorted(_ext(f) for f in prot) != ['html', 'pickle']:
                ctx.viol('no-new-file-created-by-estimate', f'estimate() created {prot}; expected one new .html and one new .pickle')
            else:
                rec.c('fresh_files_html')
                rec.c('fresh_files_pickle')
                h = [f for f in prot if f.endswith('.html')][0]
                p = [f for f in prot if f.endswith('.pickle')][0]
                if r.data.htmlFileName != h or r.data.pickleFileName != p:
                    ctx.viol('reported-name-differs-from-file-created-by-estimate', f'reports {r.data.htmlFileName}, {r.data.pickleFileName}; created {h}, {p}')
                with open(os.path.join(d, h), encoding='utf-8') as f:
                    check_html(ctx, f.read(), names, values, 'file')
                ctx.pickle_order.append(p)
                check_pickle_file(ctx, p, r, None, 'estimate')
                check_printed(ctx, str(r), names, values, 'string')
                rec.c('real_estimations')
            if op == 'estimate':
                continue
        names = list(r.data.betaNames)
        values = [float(x) for x in r.data.betaValues]
        if op in ('write_html', 'write_latex', 'write_f12'):
            op_write_report(ctx, r, op, names, values)
        elif op == 'write_pickle':
            op_write_pickle(ctx, r, None)
        elif op == 'dump_on_file':
            op_dump_on_file(ctx, seed, i, j)
        elif op == 'recycle':
            do_recycle(ctx, bg, model)
        elif op == 'default_biogeme':
            op_default_biogeme(ctx)
        elif op == 'validate':
            from ..oracle import c14_reports as orc
            from biogeme.parameters import Parameters

            if not os.path.exists(os.path.join(d, 'biogeme.toml')):
                vals = {(k.name, k.section): v.value for k, v in Parameters().all_parameters_dict.items()}
                vals[('number_of_threads', 'MultiThreading')] = 1
                vals[('save_iterations', 'Estimation')] = False
                vals[('tolerance', 'SimpleBounds')] = float(vals[('tolerance', 'SimpleBounds')])
                orc.write_parameter_file(os.path.join(d, 'biogeme.toml'), vals)
                ctx.toml_values = vals
            df = database.data
            half = len(df) // 2
            vd = [db.EstimationValidation(estimation=df.iloc[:half].copy(), validation=df.iloc[half:].copy()),
                  db.EstimationValidation(estimation=df.iloc[half:].copy(), validation=df.iloc[:half].copy())]
            out, err, new, _, _ = monitored(ctx, 'validate', lambda: bg.validate(r, vd))
            if err is not None and type(err).__name__ == 'OptimizationError':
                # the optimiser gave up under the algorithm settings of the biogeme.toml in the directory: an estimation
                # failure, outside C14 (the never-overwrite monitors above have judged the call all the same)
                rec.c('validate_estimation_failed_not_judged')
                continue
            if unexpected(ctx, 'validate', err):
                continue
            prot = [f for f in new if _ext(f) in PROTECTED]
            val = [f for f in prot if f.startswith(f'{model}_validation') and f.endswith('.pickle')]
            if len(val) != 1:
                ctx.viol('no-new-file-created-by-validate', f'validate() created {prot}; expected one new {model}_validation[~nn].pickle')
            else:
                rec.c('validation_dumps')
                with open(os.path.join(d, val[0]), 'rb') as f:
                    back = pickle.load(f)
                ctx.read_back += 1
                rec.ev()
                same = len(back) == len(out) and all(
                    list(a.columns) == list(b.columns) and list(a.index) == list(b.index) and np.array_equal(a.to_numpy(dtype=float), b.to_numpy(dtype=float))
                    for a, b in zip(back, out))
                if not same:
                    ctx.viol('validation-dump-differs-from-returned-results', f'{val[0]} does not hold what validate() returned')
    if ctx.read_back:
        rec.key([spec, hist])
    rec.sample({'model': model, 'real_model': spec, 'prepopulated': hist['prepop'], 'history': hist['ops'], 'files_created_by_biogeme': ctx.produced})
    rec.c('history_length', len(hist['ops']))
    rec.c('files_created_by_biogeme', len(ctx.produced))
    return ctx


def _compare_parameters(ctx: Ctx, expected: dict, params, mech: str, what: str):
    from ..gen import c14_work as gen

    bad = 0
    for (name, section), v in expected.items():
        ctx.rec.ev()
        try:
            w = params.get_value(name, section)
        except BaseException as e:
            ctx.viol(f'{mech}-parameter-lost', f'{what}: {name} [{section}] cannot be read: {e}')
            bad += 1
            continue
        ctx.rec.c('parameter_values_compared')
        ctx.rec.c('parameter_kind_' + gen.kind_of(v))
        if not gen.same_value(v, w):
            k = gen.kind_of(v)
            ctx.viol(f'{mech}-{k}-value-differs', f'{what}: {name} [{section}]: {v!r} ({k}) became {w!r} ({type(w).__name__})',
                     parameter=name, section=section)
            bad += 1
    return bad


def run_par(case, rec, values=None):
    """dump -> independent reading -> fresh Parameters.read_file -> dump again -> read"""
    import tomllib
    from biogeme.parameters import Parameters
    from ..gen import c14_work as gen
    from ..oracle import c14_reports as orc

    seed, i = case['seed'], case['i']
    d = _scratch(case)
    tuples = list(Parameters().all_parameters_dict.values())
    values = values or gen.make_parameter_values(seed, i, tuples)
    ctx = Ctx(rec, d, {'values': {f'{s}.{n}': v for (n, s), v in values.items()}})
    p = Parameters()
    for (name, section), v in values.items():
        try:
            p.set_value(name, v, section)
        except BaseException as e:
            ctx.viol(f'set_value-refuses-admissible-value-{type(e).__name__}', f'{name}={v!r}: {e}')
            return ctx
    if True:  # (real code path, installed tomlkit)
        try:
            p.dump_file('first.toml')
        except BaseException as e:
            ctx.viol(f'parameters-dump_file-raises-{type(e).__name__}', f'Parameters.dump_file raised {type(e).__name__}: {e}')
            return ctx
        rec.c('parameter_files_dumped')
        # independent reading of the file
        try:
            with open('first.toml', 'rb') as f:
                doc = tomllib.load(f)
        except BaseException as e:
            ctx.viol('dumped-parameter-file-is-not-valid-toml', f'{type(e).__name__}: {e}')
            return ctx
        for (name, section), v in values.items():
            rec.ev()
            w = doc.get(section, {}).get(name, KeyError)
            if w is KeyError:
                ctx.viol('dumped-parameter-file-lacks-parameter', f'{name} [{section}] is not in the file')
            elif isinstance(v, bool):
                if not (isinstance(w, str) and w in ('True', 'False') and (w == 'True') == v) and w is not v:
                    ctx.viol('dumped-parameter-file-bool-coding', f'{name}: {v!r} written as {w!r}')
            elif not gen.same_value(v, w):
                ctx.viol(f'dumped-parameter-file-{gen.kind_of(v)}-value-differs', f'{name} [{section}]: {v!r} written as {w!r}')
        rec.c('parameter_files_read_independently')
        # the library's reader, fresh object
        q = Parameters()
        try:
            q.read_file('first.toml')
        except BaseException as e:
            ctx.viol(f'parameters-read_file-raises-{type(e).__name__}', f'read_file of a file written by dump_file raised {type(e).__name__}: {e}')
            return ctx
        ctx.read_back += 1
        _compare_parameters(ctx, values, q, 'parameter-roundtrip', 'dump_file -> read_file')
        rec.c('parameter_round_trips')
        # second generation: dump what was read, read again
        try:
            q.dump_file('second.toml')
            s = Parameters()
            s.read_file('second.toml')
            _compare_parameters(ctx, values, s, 'parameter-second-roundtrip', 'dump -> read -> dump -> read')
            rec.c('parameter_second_round_trips')
        except BaseException as e:
            ctx.viol(f'parameters-second-generation-raises-{type(e).__name__}', f'{type(e).__name__}: {e}')
    rec.key(ctx.wit['values'])
    rec.sample({'parameter_values': ctx.wit['values']})
    return ctx


def run_parread(case, rec):
    """a file in the documented format written by the harness -> Parameters.read_file / BIOGEME(parameters=file)"""
    from biogeme.parameters import Parameters
    from ..gen import c14_work as gen
    from ..oracle import c14_reports as orc

    seed, i = case['seed'], case['i']
    d = _scratch(case)
    pr = random.Random(f'parread-{seed}-{i}')
    tuples = list(Parameters().all_parameters_dict.values())
    values = gen.make_parameter_values(seed + 7919, i, tuples)
    # a user file need not mention every parameter
    if pr.random() < 0.5:
        keep = [k for k in values if pr.random() < 0.6] or list(values)[:1]
        values = {k: values[k] for k in keep}
    spell = {}
    for k, v in values.items():
        if isinstance(v, bool):
            spell[k] = pr.choice(['True', 'true', 'Yes', 'yes'] if v else ['False', 'false', 'No', 'no'])
    ctx = Ctx(rec, d, {'values': {f'{s}.{n}': v for (n, s), v in values.items()}, 'bool_spelling': {f'{s}.{n}': v for (n, s), v in spell.items()}})
    orc.write_parameter_file('user.toml', values, spell)
    before = orc.snapshot(d)
    q = Parameters()
    try:
        q.read_file('user.toml')
    except BaseException as e:
        ctx.viol(f'parameters-read_file-raises-{type(e).__name__}-on-user-file', f'{type(e).__name__}: {e}')
        return ctx
    ctx.read_back += 1
    _compare_parameters(ctx, values, q, 'parameter-file-read', 'user file -> read_file')
    # parameters not mentioned keep their defaults
    defaults = {(k.name, k.section): v.value for k, v in Parameters().all_parameters_dict.items() if (k.name, k.section) not in values}
    _compare_parameters(ctx, defaults, q, 'parameter-file-read-default', 'parameter absent from the user file')
    if orc.snapshot(d) != before:
        ctx.viol('read_file-modified-the-parameter-file', 'reading an existing parameter file changed the directory')
    rec.c('user_parameter_files_read')
    rec.key(ctx.wit)
    return ctx


# ---- directed ----------------------------------------------------------------
def run_directed(case, rec):
    from ..gen import c14_work as gen
    from ..oracle import c14_reports as orc

    name = case['name']
    seed = case['seed']
    rec.c('directed_' + name)
    if name == 'parameters-dump-installed-tomlkit':
        from biogeme.parameters import Parameters

        tuples = list(Parameters().all_parameters_dict.values())
        defaults = {(t.name, t.section): t.value for t in tuples}
        ctx = run_par(case, rec, values=defaults)
        return ctx
    if name == 'biogeme-default-parameter-file':
        # regression of 99ee103: BIOGEME(database, formula) in an empty directory creates biogeme.toml; a second object
        # reads it back unchanged; a user-written biogeme.toml is honoured and left alone
        d = _scratch(case)
        ctx = Ctx(rec, d, {'directed': name})
        op_default_biogeme(ctx)
        op_default_biogeme(ctx)
        os.rename(os.path.join(d, 'biogeme.toml'), os.path.join(d, 'created_by_biogeme.txt'))
        write_user_toml(ctx, seed, 424242)
        op_default_biogeme(ctx)
        op_default_biogeme(ctx)
        rec.key(name)
        return ctx
    if name == 'recycle-beyond-100-versions':
        raw = gen.make_raw(seed, 900001, force={'model_name': 'm', 'regular': True, 'K': 3})
        return run_syn(case, rec, raw=raw, hist={'prepop': 'many_120', 'ops': ['recycle', 'write_pickle', 'recycle', 'write_html', 'write_pickle', 'recycle']})
    if name == 'recycle-two-digit-run':
        raw = gen.make_raw(seed, 900002, force={'model_name': 'model', 'regular': True, 'K': 2})
        return run_syn(case, rec, raw=raw, hist={'prepop': 'run_0_12', 'ops': ['recycle', 'write_pickle', 'recycle', 'write_pickle', 'recycle']})
    if name == 'latex-exponent-values':
        raw = gen.make_raw(seed, 900003, force={'names': ['b_big', 'b_small', 'b_round', 'b_plain'], 'beta': [2000.0, 2e-5, 1000.0, -0.75],
                                                'model_name': 'latexmodel', 'regular': True})
        return run_syn(case, rec, raw=raw, hist={'prepop': 'empty', 'ops': ['write_latex', 'write_html', 'write_f12']})
    if name == 'base-and-00-present':
        raw = gen.make_raw(seed, 900004, force={'model_name': 'model', 'regular': True})
        return run_syn(case, rec, raw=raw, hist={'prepop': 'base_and_00', 'ops': ['write_html', 'write_latex', 'write_f12', 'write_pickle', 'dump_on_file',
                                                                                  'write_html', 'write_pickle', 'recycle']})
    if name == 'f12-shared-prefix':
        raw = gen.make_raw(seed, 900005, force={'names': ['b_long_name_with_many_parts_02', 'b_long_name_with_many_parts_01', 'exactly10cX', 'exactly10c', 'z'],
                                                'model_name': 'f12model', 'regular': True})
        return run_syn(case, rec, raw=raw, hist={'prepop': 'base', 'ops': ['write_f12', 'write_f12_rc', 'write_html_all']})
    if name == 'active-bound-roundtrip':
        raw = gen.make_raw(seed, 900006, force={'K': 4, 'model_name': 'bounded', 'regular': True, 'active_bound': True, 'B': 10})
        return run_syn(case, rec, raw=raw, hist={'prepop': 'base', 'ops': ['write_pickle', 'write_html', 'write_pickle', 'recycle']})
    if name == 'zero-valued-parameters':
        raw = gen.make_raw(seed, 900007, force={'names': ['b_zero', 'a_negzero', 'c'], 'beta': [0.0, -0.0, 1.0], 'model_name': 'zeros', 'regular': True})
        return run_syn(case, rec, raw=raw, hist={'prepop': 'empty', 'ops': ['write_html', 'write_latex', 'write_f12', 'write_pickle']})
    if name == 'dump-on-file-thrice':
        raw = gen.make_raw(seed, 900008, force={'model_name': 'd', 'regular': True})
        return run_syn(case, rec, raw=raw, hist={'prepop': 'empty', 'ops': ['dump_on_file', 'dump_on_file', 'dump_on_file']})
    if name == 'real-estimate-validate-recycle':
        spec = {'kind': 'long_names', 'n': 60, 'seed': 4242 + seed, 'bootstrap': 0, 'model_name': 'real_model', 'only_robust': False,
                'threshold': 1e-5}
        return run_real(case, rec, spec=spec, hist={'prepop': 'base_and_00', 'ops': ['estimate', 'validate', 'write_latex', 'write_f12', 'estimate',
                                                                                     'recycle', 'write_pickle', 'recycle', 'dump_on_file']})
    if name == 'backup-twice':
        raw = gen.make_raw(seed, 900009, force={'model_name': 'bk', 'regular': True})
        d = _scratch(case)
        ctx = Ctx(rec, d, {'directed': name})
        r = gen.build_results(raw)
        names, values = list(raw['names']), [float(x) for x in raw['beta']]
        op_write_report(ctx, r, 'write_html', names, values)
        pr = random.Random(1)
        for rename in (False, False, True):
            op_backup(ctx, rename, pr, target='bk.html')
            if not os.path.exists(os.path.join(d, 'bk.html')):
                op_write_report(ctx, r, 'write_html', names, values)
        op_backup(ctx, True, pr, target='bk.html')
        rec.key(name)
        return ctx
    raise ValueError(name)


def run_case(case):
    rec = Rec(case)
    cwd = os.getcwd()
    ctx = None
    try:
        mode = case['mode']
        if mode == 'syn':
            ctx = run_syn(case, rec)
        elif mode == 'real':
            ctx = run_real(case, rec)
        elif mode == 'par':
            ctx = run_par(case, rec)
        elif mode == 'parread':
            ctx = run_parread(case, rec)
        elif mode == 'directed':
            ctx = run_directed(case, rec)
        else:
            raise ValueError(mode)
        rec.c('cases_' + mode)
    finally:
        os.chdir(cwd)
        if ctx is not None:
            shutil.rmtree(ctx.d, ignore_errors=True)
    return rec.out()


def finalize(cov, tier):
    out = []
    need = ['html_reports_parsed', 'latex_reports_parsed', 'f12_reports_parsed', 'printed_reports_parsed', 'pickle_round_trips',
            'pickle_files_read_independently', 'recycle_calls_judged', 'recycle_returned_latest', 'parameter_round_trips',
            'parameter_second_round_trips', 'parameter_files_read_independently', 'user_parameter_files_read', 'fresh_files_html',
            'fresh_files_pickle', 'fresh_files_tex', 'fresh_files_F12', 'fresh_files_dat', 'backups_made', 'real_estimations',
            'validation_dumps', 'file_events_seen', 'fresh_name_contract_evaluations', 'prepop_base_and_00', 'prepop_many_120',
            'prepop_gap_01', 'f12_labels_truncated_to_10', 'parameter_kind_bool', 'parameter_kind_int', 'parameter_kind_float',
            'parameter_kind_str', 'recycle_tables_compared', 'recycle_returned_latest_beyond_100', 'default_parameter_file_created',
            'existing_parameter_file_read_by_default_construction', 'prepop_user_biogeme_toml', 'calls_default_biogeme']
    for k in need:
        if cov.get(k, 0) == 0:
            out.append(f'monitor never evaluated: {k}')
    for n in DIRECTED:
        if cov.get('directed_' + n, 0) == 0:
            out.append(f'directed case not run: {n}')
    return out


# ----------------------------------------------------------------------------
# thorough: the repository's own tests as extra workload, same monitors
# ----------------------------------------------------------------------------
REPO_TESTS = ['functions/test_results.py', 'functions/test_biogeme.py', 'functions/test_filenames.py', 'functions/test_database.py',
              'functions/test_tools.py', 'functions/test_parameters.py', 'swissmetro/test_01.py', 'swissmetro/test_02.py',
              'swissmetro/test_04.py']
REPO_TESTS_TIMEOUT = 3000


def extra(seed, tier, workdir):
    """Run a copy of some of the repository's tests (outside /repo: they write files) with
    biomon.oracle.c14_pytest_plugin attached. Extra workload only: when the stage cannot complete this is
    said in the coverage counters; the generated workload decides the property."""
    import json
    import subprocess
    import sys

    if tier != 'thorough':
        return []
    d = os.path.join(workdir, 'repo_tests')
    os.makedirs(d, exist_ok=True)
    root = os.path.dirname(env.SRC.rstrip('/'))
    repo = root if os.path.isdir(os.path.join(root, 'tests')) else '/repo'
    for sub in sorted({t.split('/')[0] for t in REPO_TESTS}):
        if os.path.isdir(os.path.join(repo, 'tests', sub)):
            shutil.copytree(os.path.join(repo, 'tests', sub), os.path.join(d, sub), dirs_exist_ok=True,
                            ignore=shutil.ignore_patterns('__pycache__', '*.iter', '*.html', '*.pickle'))
            if os.path.exists(os.path.join(repo, 'biogeme.toml')):
                shutil.copy(os.path.join(repo, 'biogeme.toml'), os.path.join(d, sub, 'biogeme.toml'))
    if os.path.exists(os.path.join(repo, 'biogeme.toml')):
        shutil.copy(os.path.join(repo, 'biogeme.toml'), os.path.join(d, 'biogeme.toml'))
    picked = [t for t in REPO_TESTS if os.path.exists(os.path.join(d, t))]
    res = {'n': 0, 'keys': [], 'viol': [], 'cov': {}, 'samples': [], 'inconclusive': [], '_case': {'mode': 'repo-tests'}}
    if not picked:
        res['cov']['repo_tests_stage_not_completed_tests_not_found'] = 1
        return [res]
    out = os.path.join(workdir, 'c14_plugin.json')
    e = dict(os.environ)
    e['PYTHONPATH'] = env.VERIF + os.pathsep + e.get('PYTHONPATH', '')
    e['C14_PLUGIN_OUT'] = out
    try:
        p = subprocess.run(
            [sys.executable, '-m', 'pytest', '-q', '-p', 'no:cacheprovider', '-p', 'biomon.oracle.c14_pytest_plugin', '--timeout=900',
             '--continue-on-collection-errors'] + picked,
            cwd=d, env=e, stdout=subprocess.PIPE, stderr=subprocess.STDOUT, timeout=REPO_TESTS_TIMEOUT, text=True)
    except subprocess.TimeoutExpired:
        res['cov']['repo_tests_stage_not_completed_watchdog'] = 1
        return [res]
    if not os.path.exists(out):
        res['cov']['repo_tests_stage_not_completed_no_record'] = 1
        res['info'] = p.stdout[-600:]
        return [res]
    with open(out) as f:
        o = json.load(f)
    o['_case'] = {'mode': 'repo-tests', 'tests': picked}
    o.setdefault('cov', {})['repo_tests_pytest_exit_status_%d' % o.get('pytest_exitstatus', -1)] = 1
    o['cov']['repo_tests_files_run'] = len(picked)
    return [o]
