"""C19 — sampled choice sets follow the protocol; full sampling equals the full model.

Workload: seeded sampling contexts (biomon/gen/c19_gen.py): alternative tables
with arbitrary ids, 1-4 strata with requested sizes, individuals, combined
variables, optional second (MEV) partition and nests; every context is sampled
several times with different RNG states through the public entry point
``ChoiceSetsGeneration.sample_and_merge`` and directly through
``SamplingOfAlternatives.sample_alternatives / sample_mev_alternatives``.

Monitors
 (a) recording contracts on sample_alternatives / sample_mev_alternatives /
     process_row (biomon/oracle/c19_contracts.py), self-contained post-conditions;
 (b) the same events and the merged database judged against the specification
     (biomon/oracle/c19_oracle.py): chosen first, no duplicates, per-stratum
     counts, membership, ln(k/n), n/k, own attributes, combined variables
     recomputed from the individual's row and the sampled alternative's row;
 (c) likelihood of GenerateModel.get_logit / get_nested_logit /
     get_cross_nested_logit evaluated by the real engine on the merged database
     vs. the numpy model built on the *observed* sample (corrected utilities,
     weighted MEV sums), and vs. the model on the full choice set whenever
     every stratum is sampled completely.
Thorough adds the repository's own sampling tests with monitor (a) attached.
"""
from __future__ import annotations

import os
import re

os.environ.setdefault('TQDM_DISABLE', '1')

import numpy as np  # noqa: E402

from .. import env  # noqa: F401,E402
from ..rec import Rec, stable_hash  # noqa: E402

LEVEL = 'exploration'
RULE = (
    'cases = seeded sampling contexts: alternative table of 3-40 rows with arbitrary distinct ids (small / large / negative / '
    'containing 0, shuffled, int or float id column), 1-4 attributes (float or int), partition into 1-4 strata with requested '
 'sizes 1..n (40% of the contexts sample every stratum completely), 1-60 individuals (int or float choice column); both '
    'tables carry, independently, one of the row-label styles default range / permutation of 0..N-1 / sorted by an attribute '
    'without reset / gaps (rows of a larger table) / offset or negative / equal to the id column (named or not) / strings / '
    'repeated labels; 0-2 combined variables and a 2-4 term utility given as ASTs, optional second partition (over all or part '
    'of the alternatives), nested / cross-nested structures; plus 11 fixed directed contexts, plus histories (40 quick / 200 thorough): 2-4 contexts built one after the other on ONE '
    'alternatives data frame object (cross-nested first, then cross-nested with the same nest names and other alphas / members, logit or '
    'nested in between, the same specification again, other nest names), each judged against its own specification. Each context is merged 3 (quick) / '
    '5 (thorough) times and sampled directly 15 / 30 times with different RNG states. non-trivial = a database returned by '
    'sample_and_merge was judged row by row; distinct = hash of (specification, matrix of sampled ids)'
)
ASSUMPTIONS = [
    'reference = biomon/oracle/c19_oracle.py (numpy / long-double log-sum-exp), self-tested at every run against closed forms '
    'written by hand and against itself (model on a complete sample in any order == model on the full choice set)',
    'the model "built on the sample" is McFadden\'s corrected logit V_j - ln(k/n) over the listed alternatives; for nested and '
    'cross-nested logit the nest sums are taken over the second sample with weights n/k (what generate_model.py documents)',
    'log likelihoods compared per individual at rtol 1e-9 / atol 1e-10; utilities are kept below ~40 in magnitude by the generator',
    'a context whose partial second sample leaves a nest of a listed alternative empty has log(0) in its formula: not judged (counted)',
    'attributes, ids, corrections and weights are compared exactly (corrections at 1e-12); combined variables at rtol 1e-12',
]
MIN_DISTINCT = {'quick': 450, 'thorough': 2500}
CASE_TIMEOUT = 900

N_RANDOM = {'quick': 220, 'thorough': 800}
N_HISTORY = {'quick': 40, 'thorough': 200}
N_MERGE = {'quick': 3, 'thorough': 5}
N_LL = {'quick': 2, 'thorough': 3}
N_DIRECT = {'quick': 15, 'thorough': 30}

LL_RTOL, LL_ATOL = 1e-9, 1e-10


def cases(seed, tier):
    from ..gen import c19_gen as g

    out = [{'mode': 'directed', 'k': k, 'tier': tier} for k in range(len(g.directed()))]
    out.append({'mode': 'observe', 'tier': tier})
    out += [{'mode': 'random', 'seed': seed, 'i': i, 'tier': tier} for i in range(N_RANDOM[tier])]
    out += [{'mode': 'history', 'seed': seed, 'i': i, 'tier': tier} for i in range(N_HISTORY[tier])]
    return out


def warmup():
    import biogeme.biogeme  # noqa
    import biogeme.expressions  # noqa
    import biogeme.database  # noqa
    import biogeme.sampling_of_alternatives  # noqa
    from ..oracle import c19_contracts

    c19_contracts.install()


def selftest():
    from ..oracle import c19_oracle

    return c19_oracle.selftest()


# ----------------------------------------------------------------------------
def _fl(x):
    try:
        return float(x)
    except (TypeError, ValueError):
        return float('nan')


def _same(a, b, rtol=0.0):
    a, b = _fl(a), _fl(b)
    if a == b:
        return True
    if np.isnan(a) or np.isnan(b):
        return False
    return abs(a - b) <= rtol * abs(b)


class _Judge:
    """spec-based judgement of what the monitors recorded"""

    def __init__(self, rec, spec, model):
        self.rec = rec
        self.spec = spec
        self.m = model
        self.fired = set()
        self.retag = None  # 'recycled' while the database read back from the file is judged
        self.prefix = ''  # 'history-' for contexts that follow other contexts on the same table of alternatives

    def viol(self, mech, msg, **wit):
        # one witness per mechanism and case is enough
        if self.retag and mech.startswith('merged-'):
            mech = self.retag + mech[len('merged'):]
        mech = self.prefix + mech
        if mech in self.fired:
            self.rec.c('violations_further_witnesses')
            return
        self.fired.add(mech)
        w = {'spec': self.spec}
        w.update(wit)
        self.rec.violation('C19/' + mech, msg, w)

    # -- (a) contracts ------------------------------------------------------
    def events(self, log, where):
        from ..oracle.c19_oracle import ID_COL

        m = self.m
        for e in log:
            fn = e['fn']
            if 'monitor_error' in e:
                self.rec.inconc(f'contract on {fn} failed to evaluate: {e["monitor_error"]}')
                continue
            if 'raised' in e:
                continue  # judged where the public call is made
            self.rec.ev()
            self.rec.c('contract_evaluations_' + fn)
            for shape, msg in e.get('problems', []):
                self.viol(f'contract-{fn}-{shape}', f'{where}: {msg}')
            if fn == 'sample_alternatives':
                fr = e['frame']
                cols = fr['columns']
                if ID_COL in cols:
                    ids = [r[cols.index(ID_COL)] for r in fr['rows']]
                    lp = [r[cols.index('_log_proba')] for r in fr['rows']] if '_log_proba' in cols else [None] * len(ids)
                    for shape, msg in m.check_first(e['chosen'], ids, lp):
                        self.viol(f'first-sample-{shape}', f'{where}: sample_alternatives({e["chosen"]}): {msg}')
                    self._attrs(cols, fr['rows'], ids, f'{where}: sample_alternatives', 'first-sample')
                    self.rec.c('first_samples_judged')
            elif fn == 'sample_mev_alternatives':
                fr = e['frame']
                cols = fr['columns']
                if ID_COL in cols and m.mev:
                    ids = [r[cols.index(ID_COL)] for r in fr['rows']]
                    w = [r[cols.index('_mev_weight')] for r in fr['rows']] if '_mev_weight' in cols else [None] * len(ids)
                    for shape, msg in m.check_second(ids, w):
                        self.viol(f'second-sample-{shape}', f'{where}: sample_mev_alternatives: {msg}')
                    self._attrs(cols, fr['rows'], ids, f'{where}: sample_mev_alternatives', 'second-sample')
                    self.rec.c('second_samples_judged')

    def _attrs(self, cols, rows, ids, where, tag):
        m = self.m
        for p, (a, r) in enumerate(zip(ids, rows)):
            a = int(round(a)) if np.isfinite(a) else None
            if a not in m.alt:
                continue
            for c in m.alt_cols:
                if c in cols and not _same(r[cols.index(c)], m.alt[a][c]):
                    self.viol(f'{tag}-attribute-of-other-alternative', f'{where}: position {p} alternative {a}: {c} = {r[cols.index(c)]}, table says {m.alt[a][c]}')
                    return
            for nest in (m.nests if self.spec['model'] == 'cnl' else []):
                c = '_CNL_' + nest['name']
                if c in cols and not _same(r[cols.index(c)], m.alpha(nest, a)):
                    self.viol(f'{tag}-alpha-of-other-alternative', f'{where}: position {p} alternative {a}: {c} = {r[cols.index(c)]}, nest says {m.alpha(nest, a)}')
                    return

    # -- (b) merged database ------------------------------------------------
    def database(self, df, where):
        """-> (ids_main per row, ids_mev per row) or None when the table cannot be read as choice sets"""
        from ..oracle.c19_oracle import ID_COL, CHOICE_COL, OutOfDomain

        m, spec = self.m, self.spec
        rec = self.rec
        rec.ev()
        if len(df) != m.n_ind:
            self.viol('merged-row-count', f'{where}: {len(df)} rows for {m.n_ind} individuals')
            return None
        cols = set(df.columns)
        # the individuals, in order, unchanged
        for c in [CHOICE_COL] + list(spec['ind_cols']):
            if c not in cols:
                self.viol('merged-individual-column-lost', f'{where}: column {c} of the individuals is not in the merged database')
                return None
            want = spec['choices'] if c == CHOICE_COL else spec['ind_cols'][c]
            got = df[c].tolist()
            for r in range(m.n_ind):
                if not _same(got[r], want[r]):
                    self.viol('merged-individual-value-changed', f'{where}: row {r} column {c}: {got[r]} in the merged database, {want[r]} in the individuals')
                    return None
        # number of positions present
        J = 0
        while f'{ID_COL}_{J}' in cols:
            J += 1
        J2 = 0
        while f'_MEV_{ID_COL}_{J2}' in cols:
            J2 += 1
        if J == 0:
            self.viol('merged-no-alternative-columns', f'{where}: no column {ID_COL}_0 in {sorted(cols)[:12]}')
            return None
        if m.mev and J2 == 0:
            self.viol('merged-no-second-sample-columns', f'{where}: no column _MEV_{ID_COL}_0')
            return None
        if not m.mev and J2:
            self.viol('merged-unrequested-second-sample', f'{where}: second-sample columns without a second partition')
        A = np.array([[_fl(v) for v in df[f'{ID_COL}_{j}'].tolist()] for j in range(J)]).T
        A2 = np.array([[_fl(v) for v in df[f'_MEV_{ID_COL}_{j}'].tolist()] for j in range(J2)]).T if J2 else None

        def col(name):
            return [_fl(v) for v in df[name].tolist()] if name in cols else None

        data = {}

        def get(name):
            if name not in data:
                data[name] = col(name)
            return data[name]

        ok_rows = True
        ids_main, ids_mev = [], []
        for r in range(m.n_ind):
            ind = m.ind_row(r)
            ids = [a for a in A[r].tolist() if not np.isnan(a)]
            lp = []
            for j in range(len(ids)):
                v = get(f'_log_proba_{j}')
                lp.append(None if v is None else v[r])
            probs = m.check_first(spec['choices'][r], ids, lp)
            for shape, msg in probs:
                self.viol(f'merged-first-sample-{shape}', f'{where}: row {r}: {msg}', row=r)
            rec.c('merged_rows_judged')
            iids = [int(round(a)) for a in ids]
            usable = all(a in m.alt for a in iids) and len(iids) > 0
            ok_rows = ok_rows and not probs and usable
            ids_main.append(iids)
            for j, a in enumerate(iids):
                if a not in m.alt:
                    continue
                for c in m.alt_cols[1:]:
                    v = get(f'{c}_{j}')
                    if v is None:
                        self.viol('merged-attribute-column-missing', f'{where}: no column {c}_{j}')
                    elif not _same(v[r], m.alt[a][c]):
                        self.viol('merged-attribute-of-other-alternative', f'{where}: row {r} position {j} alternative {a}: {c}_{j} = {v[r]}, table says {m.alt[a][c]}', row=r)
                for cv in m.combined:
                    v = get(f'{cv["name"]}_{j}')
                    try:
                        want = m.combined_value(cv, ind, a)
                    except OutOfDomain:
                        rec.c('combined_out_of_domain')
                        continue
                    rec.c('combined_variables_compared')
                    if v is None:
                        self.viol('merged-combined-variable-missing', f'{where}: no column {cv["name"]}_{j}')
                    elif not _same(v[r], want, 1e-12):
                        self.viol('merged-combined-variable-differs',
                                  f'{where}: row {r} position {j} alternative {a}: {cv["name"]}_{j} = {v[r]}, formula on the individual\'s and this alternative\'s attributes = {want}', row=r)
                if spec['model'] == 'cnl':
                    for nest in m.nests:
                        v = get(f'_CNL_{nest["name"]}_{j}')
                        if v is None:
                            self.viol('merged-alpha-column-missing', f'{where}: no column _CNL_{nest["name"]}_{j}')
                        elif not _same(v[r], m.alpha(nest, a)):
                            self.viol('merged-alpha-of-other-alternative', f'{where}: row {r} position {j} alternative {a}: alpha in {nest["name"]} = {v[r]}, specification says {m.alpha(nest, a)}', row=r)
            if m.mev and A2 is not None:
                ids2 = [a for a in A2[r].tolist() if not np.isnan(a)]
                w = []
                for j in range(len(ids2)):
                    v = get(f'_MEV__mev_weight_{j}')
                    w.append(None if v is None else v[r])
                probs2 = m.check_second(ids2, w)
                for shape, msg in probs2:
                    self.viol(f'merged-second-sample-{shape}', f'{where}: row {r}: {msg}', row=r)
                rec.c('merged_second_sample_rows_judged')
                iids2 = [int(round(a)) for a in ids2]
                ok_rows = ok_rows and not probs2 and all(a in m.alt for a in iids2)
                ids_mev.append(iids2)
                for j, a in enumerate(iids2):
                    if a not in m.alt:
                        continue
                    for c in m.alt_cols[1:]:
                        v = get(f'_MEV_{c}_{j}')
                        if v is None:
                            self.viol('merged-second-sample-attribute-column-missing', f'{where}: no column _MEV_{c}_{j}')
                        elif not _same(v[r], m.alt[a][c]):
                            self.viol('merged-second-sample-attribute-of-other-alternative', f'{where}: row {r} position {j} alternative {a}: _MEV_{c}_{j} = {v[r]}, table says {m.alt[a][c]}', row=r)
                    for cv in m.combined:
                        v = get(f'_MEV_{cv["name"]}_{j}')
                        try:
                            want = m.combined_value(cv, ind, a)
                        except OutOfDomain:
                            continue
                        rec.c('combined_variables_compared_second_sample')
                        if v is None:
                            self.viol('merged-second-sample-combined-variable-missing', f'{where}: no column _MEV_{cv["name"]}_{j}')
                        elif not _same(v[r], want, 1e-12):
                            self.viol('merged-second-sample-combined-variable-differs',
                                      f'{where}: row {r} position {j} alternative {a}: _MEV_{cv["name"]}_{j} = {v[r]}, formula on the individual\'s and this alternative\'s attributes = {want}', row=r)
                    if spec['model'] == 'cnl':
                        for nest in m.nests:
                            v = get(f'_MEV__CNL_{nest["name"]}_{j}')
                            if v is None:
                                self.viol('merged-second-sample-alpha-column-missing', f'{where}: no column _MEV__CNL_{nest["name"]}_{j}')
                            elif not _same(v[r], m.alpha(nest, a)):
                                self.viol('merged-second-sample-alpha-of-other-alternative', f'{where}: row {r} position {j} alternative {a}: alpha = {v[r]}, specification says {m.alpha(nest, a)}', row=r)
        return (ids_main, ids_mev, ok_rows)

    # -- (c) likelihoods ------------------------------------------------------
    def likelihood(self, kind, builder, db, ids_main, ids_mev, where, with_biogeme):
        from ..oracle.c19_oracle import OutOfDomain
        from ..rec import close

        m, rec = self.m, self.rec
        # oracle first: never send a formula with log(0) to the engine (sticky error flag)
        try:
            ref = np.array([m.ll_sampled(m.ind_row(r), ids_main[r], ids_mev[r] if ids_mev else None, kind=kind) for r in range(m.n_ind)])
        except OutOfDomain:
            rec.c(f'll_not_judged_empty_nest_in_sample_{kind}')
            return
        if not np.all(np.isfinite(ref)):
            rec.c(f'll_not_judged_non_finite_reference_{kind}')
            return
        try:
            expr = builder()
        except BaseException as e:
            import traceback

            self.viol(f'{kind}-model-construction-raises-{type(e).__name__}', f'{where}: {type(e).__name__}: {e} | {traceback.format_exc()[-900:]}')
            return
        try:
            got = np.asarray(expr.get_value_c(database=db, prepare_ids=True), dtype=float)
        except BaseException as e:
            msg = f'{type(e).__name__}: {e}'
            mm = re.search(r'Variable _MEV__CNL_.*_(\d+) not found', str(e))
            if kind == 'cnl' and mm and int(mm.group(1)) >= m.mtotal and m.mtotal < m.total:
                self.viol('cnl-model-reads-alpha-of-main-sample-position-in-second-sample-missing-column',
                          f'{where}: the cross-nested model cannot be evaluated on the database returned by sample_and_merge '
                          f'(main sample {m.total} alternatives, second sample {m.mtotal}): {msg}')
            else:
                self.viol(f'{kind}-sampled-ll-evaluation-raises-{type(e).__name__}', f'{where}: {msg}')
            return
        rec.ev()
        rec.c(f'sampled_ll_compared_{kind}')
        complete = m.complete() if kind == self.spec['model'] else (kind == 'logit' and m.k == m.n)
        full = None
        if complete:
            full = np.array([m.ll_full(m.ind_row(r), kind=kind) for r in range(m.n_ind)])
        if got.shape != ref.shape:
            self.viol(f'{kind}-sampled-ll-shape', f'{where}: {got.shape} values for {m.n_ind} individuals')
            return
        if not close(got, ref, LL_RTOL, LL_ATOL):
            bad = [r for r in range(m.n_ind) if not close(got[r], ref[r], LL_RTOL, LL_ATOL)]
            r0 = bad[0]
            if kind == 'cnl' and m.mtotal >= m.total:
                # does the observed value equal the model in which main-sample alternative j takes the
                # alphas of the alternative at position j of the *second* sample?
                try:
                    alt = np.array([m.ll_sampled(m.ind_row(r), ids_main[r], ids_mev[r], kind='cnl', alpha_ids_main=ids_mev[r][: len(ids_main[r])])
                                    for r in range(m.n_ind)])
                    if close(got, alt, LL_RTOL, LL_ATOL):
                        self.viol('cnl-main-sample-alpha-read-from-second-sample',
                                  f'{where}: cross-nested LL of {len(bad)}/{m.n_ind} individuals differs from the model on the sample '
                                  f'(row {r0}: engine {got[r0]!r}, reference {ref[r0]!r}' + (f', full model {full[r0]!r}' if full is not None else '') +
                                  '); it equals the model in which main-sample alternative j carries the nest memberships of second-sample alternative j',
                                  row=r0, engine=got, reference=ref, complete=bool(complete))
                        return
                except OutOfDomain:
                    pass
            self.viol(f'{kind}-sampled-ll-differs-from-model-on-the-sample',
                      f'{where}: {len(bad)}/{m.n_ind} individuals; row {r0}: engine {got[r0]!r}, corrected model on the listed alternatives {ref[r0]!r}',
                      row=r0, engine=got, reference=ref, ids_main=ids_main[r0], ids_mev=ids_mev[r0] if ids_mev else None)
            return
        if full is not None:
            rec.ev()
            rec.c(f'complete_sampling_ll_compared_{kind}')
            if not close(got, full, LL_RTOL, LL_ATOL):
                bad = [r for r in range(m.n_ind) if not close(got[r], full[r], LL_RTOL, LL_ATOL)]
                r0 = bad[0]
                self.viol(f'{kind}-complete-sampling-ll-differs-from-full-model',
                          f'{where}: every stratum sampled completely; {len(bad)}/{m.n_ind} individuals; row {r0}: on the sample {got[r0]!r}, full choice set {full[r0]!r}',
                          row=r0, engine=got, full=full)
                return
        if with_biogeme:
            from biogeme.biogeme import BIOGEME
            from biogeme.parameters import Parameters

            try:
                bg = BIOGEME(db, builder(), parameters=Parameters())
                bg.generate_html = False
                bg.generate_pickle = False
                bg.save_iterations = False
                tot = float(bg.calculate_init_likelihood())
            except BaseException as e:
                self.viol(f'{kind}-biogeme-init-likelihood-raises-{type(e).__name__}', f'{where}: {type(e).__name__}: {e}')
                return
            rec.ev()
            rec.c('biogeme_init_likelihood_compared')
            want = float((full if full is not None else ref).sum())
            if not close(tot, want, LL_RTOL * 10, LL_ATOL * 10 * m.n_ind):
                self.viol(f'{kind}-biogeme-init-likelihood-differs', f'{where}: calculate_init_likelihood() = {tot!r}, sum of the reference = {want!r}')


def _observe(case):
    """Shapes at the edge of the quantifier: recorded, never judged (see findings/C19.md, 'observations')."""
    from ..gen import c19_gen as g
    from biogeme.sampling_of_alternatives import GenerateModel, ChoiceSetsGeneration

    rec = Rec(case)
    d = g.directed()
    # nested logit without a second partition: generate_model.py has a branch for it
    spec = dict(d[2], mev=None)
    try:
        b = g.build(spec, os.path.join(os.environ.get('BIOMON_WORKDIR', '.'), 'c19_obs.csv'))
        db = ChoiceSetsGeneration(b['context']).sample_and_merge()
        e = GenerateModel(b['context']).get_nested_logit(b['nests'])
        e.get_value_c(database=db, prepare_ids=True)
        rec.c('observation_nested_logit_without_second_partition_evaluates')
    except BaseException as e:  # noqa
        rec.c(f'observation_nested_logit_without_second_partition_raises_{type(e).__name__}')
    # a partition that leaves alternatives of the table out (check_partition documents a refusal)
    spec = dict(d[3], strata=[[3, 5, 7], [9, 11]], sizes=[3, 2])
    try:
        from biogeme.partition import Partition
        from biogeme.sampling_of_alternatives import SamplingContext

        ind, alt = g.frames(spec)
        SamplingContext(the_partition=Partition([{3, 5, 7}, {9, 11}], full_set={3, 5, 7, 9, 11}), sample_sizes=[3, 2], individuals=ind,
                        choice_column=g.CHOICE_COL, alternatives=alt, id_column=g.ID_COL, biogeme_file_name='c19_obs2.csv',
                        utility_function=g._expr(['var', 'cost']), combined_variables=[])
        rec.c('observation_partition_not_covering_the_table_accepted')
    except BaseException as e:  # noqa
        rec.c(f'observation_partition_not_covering_the_table_refused_{type(e).__name__}')
    return rec.out()


def run_case(case):
    import warnings

    from ..gen import c19_gen as g

    warnings.simplefilter('ignore')
    if case['mode'] == 'observe':
        return _observe(case)
    rec = Rec(case)
    tier = case.get('tier', 'quick')
    if case['mode'] == 'history':
        # several contexts, one after the other, on ONE data frame of alternatives (the user's own object, never copied)
        steps = g.make_history(case['seed'], case['i'], tier)
        _, shared = g.frames(steps[0])
        rng_base = (case['seed'] * 1000003 + case['i'] * 211 + 17) % (2 ** 31 - 100000)
        rec.c('histories_run')
        for k, spec in enumerate(steps):
            rec.c('history_steps_' + spec['history_step'])
            _run_context(rec, spec, f'history{case["i"]} step {k} ({spec["history_step"]})', rng_base + 1009 * k, tier,
                         with_biogeme=(k == len(steps) - 1 and case['i'] % 3 == 0), shared_alt=shared, n_merge=2, n_direct=6, prefix='history-')
        return rec.out()
    if case['mode'] == 'directed':
        spec = g.directed()[case['k']]
        tag = f'directed{case["k"]}'
        rng_base = 7919 * (case['k'] + 1)
    else:
        spec = g.make_spec(case['seed'], case['i'], tier)
        tag = f'random{case["i"]}'
        rng_base = (case['seed'] * 1000003 + case['i'] * 101) % (2 ** 31 - 1000)
    _run_context(rec, spec, tag, rng_base, tier, with_biogeme=(case['mode'] == 'directed' or case.get('i', 0) % 3 == 0))
    return rec.out()


def _run_context(rec, spec, tag, rng_base, tier, with_biogeme, shared_alt=None, n_merge=None, n_direct=None, prefix=''):
    """one context: build, merge several times, judge contracts / database / likelihoods, direct samplings"""
    from ..gen import c19_gen as g
    from ..oracle import c19_contracts as ct
    from ..oracle.c19_oracle import Model
    from biogeme.sampling_of_alternatives import ChoiceSetsGeneration, GenerateModel, SamplingOfAlternatives

    m = Model(spec)
    J = _Judge(rec, spec, m)
    J.prefix = prefix
    wd = os.environ.get('BIOMON_WORKDIR', '.')
    fname = os.path.join(wd, f'c19_{os.getpid()}.csv')
    try:
        built = g.build(spec, fname, alternatives=shared_alt)
        ctx = built['context']
        generator = ChoiceSetsGeneration(ctx)
        modelgen = GenerateModel(ctx)
    except BaseException as e:
        J.viol(f'valid-context-refused-{type(e).__name__}', f'{tag}: {type(e).__name__}: {e}')
        return
    rec.c('contexts_built')
    rec.c('contexts_' + spec['model'])
    rec.c('contexts_complete_sampling' if m.complete() else 'contexts_partial_sampling')
    rec.c(f'contexts_with_{len(spec["strata"])}_strata')
    rec.c('contexts_ids_' + spec['id_kind'])
    if spec['index'] is not None:
        rec.c('contexts_with_arbitrary_individual_index')
    rec.c('contexts_alternatives_index_' + (spec.get('alt_index') or {}).get('style', 'range'))
    rec.c('contexts_individuals_index_' + ('arbitrary_integers' if spec['index'] is not None else (spec.get('ind_index') or {}).get('style', 'range')))
    if any(k == 1 for k in spec['sizes']):
        rec.c('contexts_with_a_stratum_of_requested_size_1')
    if m.mev:
        rec.c('contexts_with_second_partition')
    builders = {'logit': modelgen.get_logit}
    if spec['model'] == 'nested':
        builders['nested'] = lambda: modelgen.get_nested_logit(built['nests'])
    elif spec['model'] == 'cnl':
        builders['cnl'] = modelgen.get_cross_nested_logit
    seen_sets = set()
    last = None
    if n_merge is None:
        n_merge = N_MERGE[tier] if m.n_ind * (m.total + m.mtotal) <= 500 else min(3, N_MERGE[tier])  # bound the cost of the largest contexts
    for r in range(n_merge):
        np.random.seed((rng_base + 7 * r) % (2 ** 32 - 1))
        ct.reset()
        where = f'{tag} merge {r}'
        try:
            db = generator.sample_and_merge(recycle=False)
        except BaseException as e:
            J.events(list(ct.LOG), where)
            J.viol(f'sample_and_merge-raises-{type(e).__name__}', f'{where}: {type(e).__name__}: {e}')
            break
        log = list(ct.LOG)
        J.events(log, where)
        n_rows = sum(1 for e in log if e['fn'] == 'process_row')
        if n_rows != m.n_ind:
            J.viol('process_row-call-count', f'{where}: process_row called {n_rows} times for {m.n_ind} individuals')
        res = J.database(db.data, where)
        if res is None:
            continue
        ids_main, ids_mev, ok_rows = res
        last = res
        key = stable_hash([spec, ids_main, ids_mev, prefix])
        rec.key(key)
        seen_sets.add(key)
        if r == 0:
            rec.sample({'spec': {k: spec[k] for k in ('model', 'strata', 'sizes', 'mev', 'nests', 'combined', 'utility')},
                        'choices': spec['choices'][:5], 'sampled_ids': ids_main[:5], 'second_sample_ids': ids_mev[:5]})
        if not ok_rows:
            rec.c('ll_not_judged_choice_sets_already_refuted')
            continue
        if r < N_LL[tier]:
            for kind, b in builders.items():
                J.likelihood(kind, b, db, ids_main, ids_mev, where, with_biogeme=(r == 0 and with_biogeme))
    if len(seen_sets) > 1:
        rec.c('contexts_where_resampling_gave_different_sets')
    # the same entry point with recycle=True returns the choice sets written by the last call: same protocol
    if last is not None:
        ct.reset()
        try:
            db2 = generator.sample_and_merge(recycle=True)
            J.retag = 'recycled'
            res2 = J.database(db2.data, f'{tag} recycle=True')
            J.retag = None
            rec.c('recycled_databases_judged')
            if res2 is not None and (res2[0] != last[0] or res2[1] != last[1]):
                J.viol('recycled-choice-sets-differ-from-those-returned', f'{tag}: sample_and_merge(recycle=True) lists other alternatives than the call that wrote the file')
        except BaseException as e:
            J.retag = None
            J.viol(f'recycled-sample_and_merge-raises-{type(e).__name__}', f'{tag}: {type(e).__name__}: {e}')
    # direct calls with further RNG states: every alternative can be the chosen one
    try:
        sampler = SamplingOfAlternatives(ctx)
    except BaseException as e:
        J.viol(f'sampler-construction-raises-{type(e).__name__}', f'{tag}: {e}')
        return
    ct.reset()
    import random as _random

    rr = _random.Random(rng_base)
    for t in range(N_DIRECT[tier] if n_direct is None else n_direct):
        np.random.seed((rng_base + 100003 + t) % (2 ** 32 - 1))
        chosen = m.ids[t % len(m.ids)] if t < len(m.ids) else rr.choice(m.ids)
        arg = float(chosen) if spec['choice_float'] else int(chosen)
        try:
            sampler.sample_alternatives(chosen=arg)
            if m.mev:
                sampler.sample_mev_alternatives()
        except BaseException as e:
            J.viol(f'direct-sampling-raises-{type(e).__name__}', f'{tag} direct {t} chosen {chosen}: {type(e).__name__}: {e}')
            break
        rec.c('direct_samplings')
    J.events(list(ct.LOG), f'{tag} direct')
    try:
        os.remove(fname)
    except OSError:
        pass


def finalize(cov, tier):
    out = []
    need = ['contract_evaluations_sample_alternatives', 'contract_evaluations_sample_mev_alternatives', 'contract_evaluations_process_row',
            'first_samples_judged', 'second_samples_judged', 'merged_rows_judged', 'merged_second_sample_rows_judged',
            'combined_variables_compared', 'combined_variables_compared_second_sample',
            'sampled_ll_compared_logit', 'sampled_ll_compared_nested', 'sampled_ll_compared_cnl',
            'complete_sampling_ll_compared_logit', 'complete_sampling_ll_compared_nested',
            'biogeme_init_likelihood_compared', 'contexts_where_resampling_gave_different_sets', 'recycled_databases_judged', 'histories_run', 'history_steps_cnl_same_names', 'history_steps_same',
            'history_steps_cnl_other_names', 'history_steps_logit', 'history_steps_nested',
            'contexts_with_a_stratum_of_requested_size_1', 'contexts_with_arbitrary_individual_index']
    from ..gen import c19_gen as g

    need += ['contexts_alternatives_index_' + st for st in g.INDEX_STYLES]
    need += ['contexts_individuals_index_' + st for st in g.INDEX_STYLES if st not in ('id', 'id_named')]
    for k in need:
        if cov.get(k, 0) == 0:
            out.append(f'monitor never evaluated: {k}')
    return out


# ----------------------------------------------------------------------------
# thorough: the repository's own sampling tests as extra workload under monitor (a)
# ----------------------------------------------------------------------------
REPO_TESTS = ['functions/test_choice_set_generation.py', 'functions/test_generate_model.py', 'functions/test_sampling_context.py',
              'functions/test_partition.py', 'functions/test_sampling_of_alternatives.py']


def extra(seed, tier, workdir):
    import json
    import shutil
    import subprocess
    import sys

    if tier != 'thorough':
        return []
    d = os.path.join(workdir, 'repo_tests')
    os.makedirs(os.path.join(d, 'functions'), exist_ok=True)
    repo = os.path.dirname(env.SRC.rstrip('/')) if os.path.isdir(os.path.join(os.path.dirname(env.SRC.rstrip('/')), 'tests')) else '/repo'
    picked = []
    for t in REPO_TESTS:
        src = os.path.join(repo, 'tests', t)
        if os.path.exists(src):
            shutil.copy(src, os.path.join(d, t))
            picked.append(t)
    res = {'n': 0, 'keys': [], 'viol': [], 'cov': {}, 'samples': [], 'inconclusive': [], '_case': {'mode': 'repo-tests'}}
    if not picked:
        res['inconclusive'].append('repository sampling tests not found')
        return [res]
    if os.path.exists(os.path.join(repo, 'biogeme.toml')):
        shutil.copy(os.path.join(repo, 'biogeme.toml'), os.path.join(d, 'biogeme.toml'))
    out = os.path.join(workdir, 'c19_plugin.json')
    e = dict(os.environ)
    e['PYTHONPATH'] = env.VERIF + os.pathsep + e.get('PYTHONPATH', '')
    e['C19_PLUGIN_OUT'] = out
    try:
        p = subprocess.run([sys.executable, '-m', 'pytest', '-q', '-p', 'no:cacheprovider', '-p', 'biomon.oracle.c19_pytest_plugin',
                            '--continue-on-collection-errors'] + picked,
                           cwd=d, env=e, stdout=subprocess.PIPE, stderr=subprocess.STDOUT, timeout=900, text=True)
        tail = p.stdout[-600:]
    except subprocess.TimeoutExpired:
        res['inconclusive'].append('repository tests under the C19 contracts: watchdog fired after 900 s')
        return [res]
    if not os.path.exists(out):
        res['inconclusive'].append('repository tests under the C19 contracts produced no record: ' + tail)
        return [res]
    with open(out) as f:
        o = json.load(f)
    o['_case'] = {'mode': 'repo-tests', 'tests': picked}
    o.setdefault('cov', {})['repo_tests_pytest_exit_status_%d' % o.get('pytest_exitstatus', -1)] = 1
    o['cov']['repo_tests_files_run'] = len(picked)
    if o['cov'].get('repo_tests_contract_evaluations', 0) == 0:
        o.setdefault('inconclusive', []).append('repository tests never reached the monitored sampling functions: ' + tail)
    return [o]
