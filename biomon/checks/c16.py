"""C16 — catalogs span the product of their controllers; operators stay inside it.

Workload: seeded formulas with catalogs (biomon.gen.c16_catalogs): 1-4 controllers of 1-4 alternatives,
controllers shared by several catalogs, catalogs nested in members of other catalogs, the same catalog object in
several places, catalogs produced by segmentation_catalogs / generic_alt_specific_catalogs, all inside random
contexts of the C01 expression grammar. Real objects are built through the public constructors
(biomon.gen.c16_build) and driven through Expression.number_of_multiple_expressions / set_of_configurations /
iteration / configure_catalogs / current_configuration / select_expression / get_value_c /
get_value_and_derivatives / get_value, BIOGEME.from_configuration, CentralController.prepare_operators.

Oracle: biomon.oracle.c16_model (configuration space, identifiers, the formula written out by hand for one
configuration, modular one-controller moves) + the shared reference evaluator on the hand-written formula + the
hand-written formula built as a catalog-free biogeme expression by the shared builder.
"""
from __future__ import annotations

import random

import numpy as np

from .. import env  # noqa: F401
from ..rec import Rec, close, maxrel

LEVEL = 'exploration'
RULE = (
    'cases = seeded formulas containing catalogs: random C01-grammar contexts (depth<=5) in which typed positions '
    '(real / positive / small / boolean operands, Elem and logit entries, conditions) are occupied by catalogs with 1-4 '
    'members; 1-4 controllers, own or shared by 1-3 catalogs, members that contain further catalogs, shared sub-tree '
    'objects; plus formulas over the catalogs returned by segmentation_catalogs / generic_alt_specific_catalogs (1-2 '
    'segmentations, 2-3 alternatives, maximum_number 0..5) alone and mixed with ordinary catalogs; plus fixed directed '
    'shapes. Configuration spaces <= 256 are enumerated exhaustively by every structural monitor; values are compared '
    'for every configuration of spaces up to the tier cap (quick 48, thorough 256), else for a seeded sample of that '
    'size. Histories: per case 2 (quick) / 3 (thorough) seeded sequences of 3-12 requests (configure_catalogs of a new / an '
    'earlier / the last configuration, select_expression, direct Controller.set_index/set_name/modify_controller/'
    'reset_selection, operators of the own and of a second CentralController, refused configurations, a second formula '
    'governed by the same Controller objects), judged after every step against a plain-dict model of the controller state. '
    'A case is non-trivial when its space has >= 2 configurations and at least one configuration of it was '
    'accepted by the conditioning filter of the reference evaluator and compared by value; distinct = hash of '
    '(AST with choice nodes, shared sub-trees, helper declarations, data, parameters)'
)
ASSUMPTIONS = [
    'numpy float64/long double reference semantics of biomon/oracle/evalast.py (self-tested in C01) for the hand-written formula',
    'naming conventions of the helper generators taken from their documentation: controller alternatives "no_seg" / '
    'segmenting variable names joined by "-", parameters <beta>_<alternative> and <beta>_<category>, catalogs '
    'segmented_<beta> and <beta>_<alternative>_gen_altspec, controller <generic_name>_gen_altspec with alternatives generic/altspec',
    'spaces above the documented default bound maximum_number_catalog_expressions=100 are enumerated through a '
    'CentralController constructed with a larger bound and installed with Expression.set_central_controller (public API)',
    'operator steps are positive integers (documented "number of steps to perform")',
]
MIN_DISTINCT = {'quick': 150, 'thorough': 1500}
CASE_TIMEOUT = 300

EVAL_CAP = {'quick': 48, 'thorough': 256}
GRAD_CAP = {'quick': 6, 'thorough': 24}
WALK = 200
HIST_SEQ = {'quick': 2, 'thorough': 3}  # histories per case, 3-12 steps each

N = {
    'quick': {'random': 170, 'shared': 40, 'nested': 40, 'toplevel': 12, 'seg': 30, 'gen': 30, 'genseg': 36, 'mixed': 30},
    'thorough': {'random': 1500, 'shared': 300, 'nested': 300, 'toplevel': 60, 'seg': 220, 'gen': 220, 'genseg': 280, 'mixed': 220},
}
N_DIRECTED = 8


def cases(seed, tier):
    out = [{'mode': 'directed', 'k': k, 'tier': tier} for k in range(N_DIRECTED)]
    for mode, n in N[tier].items():
        for i in range(n):
            if tier == 'quick':
                ms = 256 if i % 10 == 0 else (36 if i % 2 else 16)
            else:
                ms = 256 if i % 3 == 0 else (64 if i % 3 == 1 else 24)
            out.append({'mode': mode, 'seed': seed, 'i': i, 'max_space': ms, 'tier': tier})
    return out


def warmup():
    import biogeme.biogeme  # noqa
    import biogeme.expressions  # noqa
    import biogeme.database  # noqa
    import biogeme.catalog  # noqa


# ---------------------------------------------------------------------------
# directed shapes (seed independent, run in both tiers)

_D_DATA = {'x': [1.0, 2.0, 3.0, 0.5], 'y': [0.5, 1.5, 2.5, 1.0], 'g': [1.0, 2.0, 1.0, 3.0], 'h': [0.0, 1.0, 2.0, 1.0],
           'ch': [1.0, 2.0, 1.0, 2.0]}
_D_BETAS = {'b1': [0.3, 0], 'b2': [-0.7, 0], 'a_fix': [1.2, 1]}


def directed(k):
    x, y = ['var', 'x'], ['var', 'y']
    b1, b2 = ['beta', 'b1'], ['beta', 'b2']
    base = {'shared': [], 'data': _D_DATA, 'betas': _D_BETAS, 'helpers': [], 'derived_betas': {}, 'differentiable': True}
    if k == 0:
        # the formula IS a catalog (the documented way of putting several models in one specification)
        ast = ['catalog', 'model', 'model', False, [['lin', ['mul', b1, x]], ['quad', ['mul', b2, ['mul', y, y]]],
                                                    ['mix', ['add', ['mul', b1, x], ['mul', b2, y]]]]]
        return dict(base, mode='directed-toplevel', ast=ast)
    if k == 1:
        # a catalog whose member is directly another catalog, in a logit
        inner = ['catalog', 'inner', 'inner', False, [['i1', ['mul', b1, x]], ['i2', ['mul', b2, x]], ['i3', x]]]
        outer = ['catalog', 'outer', 'outer', False, [['o1', inner], ['o2', y]]]
        ast = ['loglogit', [[1, outer], [2, ['mul', b2, y]]], None, ['var', 'ch'], 'log']
        return dict(base, mode='directed-nested', ast=ast)
    if k == 2:
        # one controller, three catalogs, one of them nested in a member of a catalog under the same controller
        c1 = ['catalog', 'ca', 'sync', True, [['p', x], ['q', ['log', x]]]]
        c3 = ['catalog', 'cc', 'sync', True, [['p', ['num', 2.0]], ['q', ['num', 5.0]]]]
        c2 = ['catalog', 'cb', 'sync', True, [['p', ['mul', y, c3]], ['q', ['mul', y, y]]]]
        ast = ['add', ['mul', b1, c1], ['mul', b2, c2]]
        return dict(base, mode='directed-shared', ast=ast)
    if k == 3:
        # the same catalog object under several parents, four controllers, 3*2*4*2 = 48 configurations
        c1 = ['catalog', 'k9', 'k9', False, [['a', x], ['B', ['exp', ['mul', ['num', 0.1], x]]], ['_z', ['mul', x, x]]]]
        c2 = ['catalog', 'k10', 'k10', False, [['no', b1], ['Yes', ['mul', b1, ['var', 'a_one']]]]]
        c3 = ['catalog', 'Zc1', 'Zc', True, [['m9', y], ['m10', ['add', y, ['num', 1.0]]], ['0', ['num', 1.0, 'raw']], ['lin', ['neg', y]]]]
        c4 = ['catalog', 'alpha1', 'alpha', True, [['x-y', ['sub', x, y]], ['p q', ['mul', b2, x]]]]
        sp = dict(base, shared=[c1])
        sp['data'] = dict(_D_DATA, a_one=[1.0, 1.0, 1.0, 1.0])
        ast = ['add', ['mul', c2, ['share', 0]], ['add', ['mul', ['share', 0], c3], ['mul', c4, ['num', 0.5]]]]
        return dict(sp, mode='directed-dag', ast=ast)
    helpers_seg = [{'var': 'g', 'mapping': [[1, 'lo'], [2, 'hi'], [3, 'top']], 'reference': None},
                   {'var': 'h', 'mapping': [[0, 'a'], [1, 'b'], [2, 'c']], 'reference': 'b'}]
    if k == 4:
        h = {'kind': 'seg', 'generic': 'segx', 'betas': ['b1', 'b2'], 'segs': helpers_seg, 'max': 2}
        ast = ['add', ['mul', ['segcat', 0, 0], x], ['mul', ['segcat', 0, 1], y]]
        sp = dict(base, helpers=[h], mode='directed-seg', ast=ast)
    elif k == 5:
        h = {'kind': 'gen', 'generic': 'gen', 'betas': ['b1', 'b2'], 'alts': ['car', 'bus'], 'segs': None, 'max': 5}
        u1 = ['add', ['mul', ['gencat', 0, 0, 'car'], x], ['mul', ['gencat', 0, 1, 'car'], y]]
        u2 = ['add', ['mul', ['gencat', 0, 0, 'bus'], y], ['mul', ['gencat', 0, 1, 'bus'], x]]
        ast = ['loglogit', [[1, u1], [2, u2]], None, ['var', 'ch'], 'log']
        sp = dict(base, helpers=[h], mode='directed-gen', ast=ast)
    elif k == 6:
        h = {'kind': 'gen', 'generic': 'gen', 'betas': ['b1', 'b2'], 'alts': ['car', 'bus'], 'segs': helpers_seg, 'max': 1}
        u1 = ['add', ['mul', ['gencat', 0, 0, 'car'], x], ['mul', ['gencat', 0, 1, 'car'], y]]
        u2 = ['add', ['mul', ['gencat', 0, 0, 'bus'], y], ['mul', ['gencat', 0, 1, 'bus'], x]]
        ast = ['loglogit', [[1, u1], [2, u2]], None, ['var', 'ch'], 'log']
        sp = dict(base, helpers=[h], mode='directed-genseg', ast=ast)
    else:
        # 4*4*4*4 = 256 configurations, above the default bound of 100
        mk = lambda nm, e: ['catalog', nm, nm, False, [['a', e], ['B', ['mul', e, ['num', 2.0]]], ['_z', ['add', e, ['num', 1.0]]],
                                                       ['m10', ['neg', e]]]]
        ast = ['add', ['add', ['mul', b1, mk('zcat', x)], ['mul', b2, mk('Model', y)]],
               ['mul', mk('a_spec', ['mul', x, y]), mk('mix', ['sub', x, y])]]
        return dict(base, mode='directed-256', ast=ast)
    from ..gen import c16_catalogs

    sp['derived_betas'] = c16_catalogs.derived_betas(sp, random.Random(k))
    return sp


def make_spec(case):
    from ..gen import c16_catalogs as g

    m = case['mode']
    if m == 'directed':
        return directed(case['k'])
    if m in ('seg', 'gen', 'genseg', 'mixed'):
        return g.make_helper_case(case['seed'], case['i'], m)
    return g.make_case(case['seed'], case['i'], mode=m, max_space=case.get('max_space', 256))


# ---------------------------------------------------------------------------


def selftest():
    """the oracle guards itself on hand-computed expectations"""
    from ..oracle import c16_model as M
    from ..oracle import evalast

    bad = []
    sp = directed(2)
    ct = M.controllers(sp)
    if ct != {'sync': ['p', 'q']}:
        bad.append(f'controllers of directed(2): {ct}')
    r = M.resolve(sp, {'sync': 'p'})
    want = ['add', ['mul', ['beta', 'b1'], ['var', 'x']], ['mul', ['beta', 'b2'], ['mul', ['var', 'y'], ['num', 2.0]]]]
    if r['ast'] != want:
        bad.append('resolve(directed(2), p) is not the hand-written formula')
    sp = directed(3)
    ct = M.controllers(sp)
    if len(M.configurations(ct)) != 48 or len({M.config_id(c) for c in M.configurations(ct)}) != 48:
        bad.append('directed(3) does not have 48 distinct configurations')
    if M.config_id({'k9': 'a', 'Zc': 'm9', 'alpha': 'p q', 'k10': 'no'}) != 'Zc:m9;alpha:p q;k10:no;k9:a':
        bad.append('canonical identifier')
    sp = directed(6)
    ct = M.controllers(sp)
    if ct != {'gen_gen_altspec': ['generic', 'altspec'], 'gen': ['no_seg', 'h', 'g']}:
        bad.append(f'controllers of directed(6): {ct}')
    cfg = {'gen_gen_altspec': 'altspec', 'gen': 'h'}
    r = M.resolve(sp, cfg)
    bv = {k: v[0] for k, v in r['betas'].items()}
    v, _ = evalast.evaluate(r['ast'], r['data'], bv, r['shared'])
    # by hand, row 0: h=0 -> category a (shift), row 1: h=1 -> reference b
    d = sp['data']

    def coef(name, row):
        c = bv[name]
        if d['h'][row] == 0:
            c += bv[name + '_a']
        if d['h'][row] == 2:
            c += bv[name + '_c']
        return c

    exp = []
    for row in range(4):
        u1 = coef('b1_car', row) * d['x'][row] + coef('b2_car', row) * d['y'][row]
        u2 = coef('b1_bus', row) * d['y'][row] + coef('b2_bus', row) * d['x'][row]
        u = u1 if d['ch'][row] == 1 else u2
        exp.append(u - np.log(np.exp(u1) + np.exp(u2)))
    if not close(v, exp, 1e-12, 1e-13):
        bad.append('closed form of generic/alt-specific + segmentation differs from the hand computation')
    if M.move(ct, cfg, 'gen', 2) != {'gen_gen_altspec': 'altspec', 'gen': 'no_seg'}:
        bad.append('modular move')
    return bad


def _subst_row(node, data, row):
    if isinstance(node, list):
        if node and node[0] == 'var':
            return ['num', float(data[node[1]][row])]
        if node and node[0] == 'linutil':
            return ['multsum', [['mul', ['beta', b], ['num', float(data[x][row])]] for b, x in node[1]], 'list']
        return [_subst_row(x, data, row) for x in node]
    return node


def _tol(ops):
    if 'ncdf' in ops:
        return 1e-6, 1e-8
    return 1e-9, 1e-11


def run_case(case):
    """one case; an exception that escapes a monitor is a refutation when it was raised inside the library
    (innermost frame under .../biogeme/), a harness error otherwise"""
    import traceback

    rec = Rec(case)
    try:
        _run_case(case, rec)
    except Exception as e:  # noqa
        tb = traceback.extract_tb(e.__traceback__)
        if tb and '/biogeme/' in tb[-1].filename.replace('\\', '/') and '/biomon/' not in tb[-1].filename:
            rec.violation(f'C16/unclassified-{type(e).__name__}-raised-inside-library',
                          f'{type(e).__name__}: {e} at {tb[-1].filename}:{tb[-1].lineno} ({tb[-1].name})',
                          {'traceback': traceback.format_exc()[-2000:]})
        else:
            raise
    return rec.out()


def _run_case(case, rec):
    from ..gen import build as shared_build, c16_build, exprs
    from ..oracle import c16_model as M, evalast
    from biogeme.configuration import Configuration, SelectionTuple
    from biogeme.controller import CentralController
    from biogeme.expressions import SelectedExpressionsIterator
    from biogeme.catalog import Catalog
    from biogeme.exceptions import BiogemeError

    tier = case.get('tier', 'quick')
    spec = make_spec(case)
    rng = random.Random(f"c16run/{case.get('seed')}/{case.get('i')}/{case.get('k')}/{case['mode']}")
    ctrls = M.controllers(spec)
    if not ctrls:
        rec.c('cases_without_catalog')
        return rec.out()
    cfgs = M.configurations(ctrls)
    NC = len(cfgs)
    ids = {M.config_id(c): c for c in cfgs}
    table = M.catalog_table(spec)
    wit = {'spec': {k: spec[k] for k in ('ast', 'shared', 'helpers', 'betas', 'data', 'derived_betas')},
           'controllers': ctrls}

    def viol(mech, msg, **kw):
        w = dict(wit)
        w.update(kw)
        rec.violation('C16/' + mech, msg, w)

    # ---- real objects ------------------------------------------------------------------------
    try:
        expr, info = c16_build.build(spec)
    except BaseException as e:  # noqa
        viol(f'construction-raises-{type(e).__name__}', f'building the formula raised {type(e).__name__}: {e}')
        return rec.out()
    db = shared_build.database(spec)
    top_is_catalog = isinstance(expr, Catalog)
    cats = info['catalogs']
    rec.c('mode_' + spec['mode'])
    rec.c('catalog_objects', len(cats))
    for c in cats:
        rec.c('catalogs_from_' + c['origin'])
    nshared = {}
    for nm, (ct, _) in table.items():
        nshared[ct] = nshared.get(ct, 0) + 1
    if any(v > 1 for v in nshared.values()):
        rec.c('cases_with_controller_shared_by_several_catalogs')
    if M.has_nested(spec):
        rec.c('cases_with_nested_catalogs')
    if top_is_catalog:
        rec.c('cases_formula_is_a_catalog')
    rec.c('controllers_%d' % len(ctrls))
    rec.c('space_%s' % ('1' if NC == 1 else '2-16' if NC <= 16 else '17-100' if NC <= 100 else '101-256'))

    # the catalogs that exist are the ones the specification names, under the controller it names
    for c in cats:
        nm = c['obj'].name
        if nm not in table:
            viol('unexpected-catalog-object', f'catalog {nm!r} is not in the specification')
            continue
        try:
            got = (c['obj'].controlled_by.controller_name, [n for n, _ in c['obj'].get_iterator()])
        except BaseException as e:  # noqa
            viol(f'catalog-introspection-raises-{type(e).__name__}', str(e))
            continue
        rec.ev()
        if got[0] != table[nm][0] or got[1] != table[nm][1]:
            viol('catalog-structure-differs-from-specification', f'catalog {nm!r}: controller/members {got} expected {table[nm]}')

    # ---- A. size of the space ----------------------------------------------------------------
    try:
        n_lib = expr.number_of_multiple_expressions()
        rec.ev()
        if n_lib != NC:
            viol('number-of-configurations-differs-from-product',
                 f'number_of_multiple_expressions()={n_lib}, product of controller sizes={NC}')
        S = expr.set_of_configurations()
        if S is None:
            if NC <= 100:
                viol('set-of-configurations-missing-below-bound', f'set_of_configurations() is None for {NC} configurations')
                return rec.out()
            rec.c('spaces_above_default_bound')
            cc = CentralController(expr, maximum_number_of_configurations=100000)
            expr.set_central_controller(cc)
            S = expr.set_of_configurations()
        S = set(S)
    except BaseException as e:  # noqa
        viol(f'enumeration-raises-{type(e).__name__}', f'{type(e).__name__}: {e}')
        return rec.out()
    rec.ev()
    lib_ids = [c.get_string_id() for c in S]
    if len(S) != NC or len(set(lib_ids)) != NC:
        viol('set-of-configurations-size-differs-from-product',
             f'{len(S)} configurations, {len(set(lib_ids))} distinct identifiers, product of controller sizes={NC}')
    # ---- B. every combination exactly once; identifiers ---------------------------------------
    combos = {}
    for c in S:
        try:
            d = {s.controller: s.selection for s in c.selections}
            if len(d) != len(c.selections):
                viol('configuration-lists-a-controller-twice', f'{c.get_string_id()}')
        except BaseException as e:  # noqa
            viol(f'configuration-introspection-raises-{type(e).__name__}', str(e))
            continue
        key = M.config_id(d) if set(d) == set(ctrls) and all(d[k] in ctrls[k] for k in d) else None
        if key is None:
            viol('configuration-outside-product', f'{c.get_string_id()!r} is no combination of controller choices {ctrls}')
            continue
        combos.setdefault(key, []).append(c)
    rec.ev()
    if set(combos) != set(ids):
        viol('combinations-missing-from-set-of-configurations',
             f'missing {sorted(set(ids) - set(combos))[:5]} of {NC}')
    for key, lst in combos.items():
        if len(lst) != 1:
            viol('combination-present-several-times', f'{key}: {len(lst)} configurations')
        for c in lst:
            rec.ev()
            if c.get_string_id() != key:
                viol('identifier-not-canonical', f'identifier {c.get_string_id()!r} for combination {key!r}')
    # ---- C. identifier independent of listing order, converts back ----------------------------
    for key, cfg in ids.items():
        items = list(cfg.items())
        try:
            ref_c = Configuration([SelectionTuple(controller=k, selection=v) for k, v in items])
            for _ in range(3):
                rng.shuffle(items)
                c2 = Configuration([SelectionTuple(controller=k, selection=v) for k, v in items])
                c3 = Configuration.from_dict(dict(items))
                rec.ev(2)
                if c2.get_string_id() != ref_c.get_string_id() or c3.get_string_id() != ref_c.get_string_id() or not (c2 == ref_c):
                    viol('identifier-depends-on-listing-order',
                         f'{[f"{k}:{v}" for k, v in items]} -> {c2.get_string_id()!r} / {c3.get_string_id()!r} vs {ref_c.get_string_id()!r}')
                    break
            back = Configuration.from_string(ref_c.get_string_id())
            rec.ev()
            if not (back == ref_c) or sorted(back.selections) != sorted(ref_c.selections) or \
                    {s.controller: s.selection for s in back.selections} != cfg:
                viol('identifier-does-not-convert-back', f'{ref_c.get_string_id()!r} -> {back.selections}')
            terms = ref_c.get_string_id().split(';')
            rng.shuffle(terms)
            back2 = Configuration.from_string(';'.join(terms))
            rec.ev()
            if not (back2 == ref_c) or back2.get_string_id() != ref_c.get_string_id():
                viol('identifier-with-terms-in-other-order-gives-other-configuration',
                     f'{";".join(terms)!r} -> {back2.get_string_id()!r}')
            if ref_c not in S:
                viol('hand-built-configuration-not-in-set', f'{ref_c.get_string_id()!r}')
        except BaseException as e:  # noqa
            viol(f'configuration-construction-raises-{type(e).__name__}', f'{key}: {e}')
            break
    rec.c('configurations_checked_structurally', NC)

    def observed_state():
        """controller name -> alternative really selected by the catalogs it governs (None if they disagree)"""
        st = {}
        for c in cats:
            st.setdefault(c['ctrl'], set()).add(c['obj'].selected_name())
        return {k: (next(iter(v)) if len(v) == 1 else None) for k, v in st.items()}, st

    def check_catalogs_follow(cfg, how):
        ok = True
        for c in cats:
            rec.ev()
            want = cfg[c['ctrl']]
            got = c['obj'].selected_name()
            if got != want:
                viol(f'catalog-not-at-selected-alternative-after-{how}',
                     f'catalog {c["obj"].name!r} (controller {c["ctrl"]!r}) is at {got!r}, configuration says {want!r}',
                     configuration=M.config_id(cfg))
                ok = False
            elif c['members'] is not None:
                m = c['members'][ctrls[c['ctrl']].index(want)]
                if m is not None and c['obj'].selected_expression() is not m:
                    viol(f'catalog-selected-expression-is-not-the-member-after-{how}',
                         f'catalog {c["obj"].name!r} at {want!r} returns another expression object')
                    ok = False
        return ok

    # ---- D. iteration visits every configuration exactly once ---------------------------------
    try:
        seen = []
        it = iter(expr)
        for e in it:
            cur = e.current_configuration().get_string_id()
            st, raw = observed_state()
            if any(v is None for v in st.values()):
                viol('catalogs-of-one-controller-disagree-during-iteration', f'{ {k: sorted(v) for k, v in raw.items()} }')
                break
            seen.append((cur, M.config_id(st)))
            if len(seen) > NC + 3:
                break
        rec.ev()
        rec.c('iterations_run')
        rec.c('iteration_steps', len(seen))
        reported = sorted(a for a, _ in seen)
        actual = sorted(b for _, b in seen)
        if actual != sorted(ids):
            viol('iteration-does-not-visit-every-configuration-exactly-once',
                 f'{len(seen)} steps, {len(set(actual))} distinct catalog states, {NC} configurations; '
                 f'missing {sorted(set(ids) - set(actual))[:4]} repeated {sorted({a for a in actual if actual.count(a) > 1})[:4]}')
        elif reported != sorted(ids):
            viol('iteration-reports-other-configurations-than-visited', f'{reported[:4]}...')
        elif any(a != b for a, b in seen):
            viol('iteration-current-configuration-differs-from-catalog-state', str([ab for ab in seen if ab[0] != ab[1]][:3]))
        # a chosen subset
        if NC >= 2:
            sub = rng.sample(sorted(ids), rng.randint(1, min(NC, 6)))
            subset = {Configuration.from_dict(ids[k]) for k in sub}
            seen2 = []
            for e in SelectedExpressionsIterator(expr, subset):
                st, _ = observed_state()
                seen2.append(M.config_id(st) if all(v is not None for v in st.values()) else '?')
                if len(seen2) > len(sub) + 3:
                    break
            rec.ev()
            rec.c('subset_iterations_run')
            if sorted(seen2) != sorted(sub):
                viol('subset-iteration-does-not-visit-every-configuration-exactly-once', f'asked {sorted(sub)} visited {sorted(seen2)}')
    except BaseException as e:  # noqa
        viol(f'iteration-raises-{type(e).__name__}', f'{type(e).__name__}: {e}')

    # ---- E. selecting a configuration: catalogs follow, the formula is the hand-written one ----
    order = sorted(ids)
    rng.shuffle(order)
    cap = EVAL_CAP[tier]
    to_eval = set(order[:cap])
    if NC <= cap:
        rec.c('cases_values_exhaustive')
    else:
        rec.c('cases_values_sampled')
    grad_left = GRAD_CAP[tier] if spec.get('differentiable') else 0
    good = {}
    py_left = 2 if not spec['helpers'] else 0
    override = {k: v[0] for k, v in (spec.get('derived_betas') or {}).items()}
    engine_ok = True
    toplevel_reported = False
    compared = 0
    pyexpr = None

    def catalog_values(cfg_id, betas):
        """value of the configured formula on the direct evaluation entry point; a formula that IS a catalog
        falls back on BIOGEME.simulate after the failure of the direct entry point has been recorded"""
        nonlocal toplevel_reported
        try:
            return np.asarray(expr.get_value_c(database=db, prepare_ids=True, betas=betas), dtype=float)
        except AttributeError as e:
            if not (top_is_catalog and 'NoneType' in str(e) and 'free_betas' in str(e)):
                raise
            if not toplevel_reported:
                toplevel_reported = True
                viol('formula-that-is-a-catalog-direct-evaluation-raises-AttributeError',
                     f'get_value_c(database, prepare_ids=True) on a formula whose root is a Catalog raised AttributeError: {e}; '
                     f'the hand-written formula of the same configuration evaluates', configuration=cfg_id)
            from biogeme.biogeme import BIOGEME
            from biogeme.parameters import Parameters

            bg = BIOGEME(db, {'f': expr}, parameters=Parameters())
            vals = {n: (betas or {}).get(n, bg.id_manager.free_betas.expressions[n].initValue) for n in bg.free_beta_names}
            rec.c('values_through_simulate_fallback')
            return bg.simulate(vals)['f'].to_numpy(dtype=float)

    for key in order:
        cfg = ids[key]
        items = list(cfg.items())
        rng.shuffle(items)
        try:
            expr.configure_catalogs(Configuration.from_dict(dict(items)))
            cur = expr.current_configuration()
        except BaseException as e:  # noqa
            viol(f'configure_catalogs-raises-{type(e).__name__}', f'{key}: {e}')
            break
        rec.ev()
        if cur.get_string_id() != key:
            viol('current-configuration-differs-from-configured', f'configured {key!r}, current_configuration() {cur.get_string_id()!r}')
        follow = check_catalogs_follow(cfg, 'configure_catalogs')
        rec.c('configurations_selected')
        if key not in to_eval or not engine_ok:
            continue
        r = M.resolve(spec, cfg)
        bv = {k: v[0] for k, v in r['betas'].items()}
        j = evalast.judge(r['ast'], r['data'], bv, r['shared'])
        if not j['ok']:
            rec.c('configurations_rejected_' + j['reason'].split(':')[0])
            continue
        ref = j['value']
        ops = exprs.ops_in(r['ast'], r['shared'])
        rtol, atol = _tol(ops)
        try:
            vc = catalog_values(key, override or None)
        except BaseException as e:  # noqa
            viol(f'configured-formula-evaluation-raises-{type(e).__name__}',
                 f'{key}: get_value_c raised {type(e).__name__}: {e}', configuration=key, handwritten=r['ast'])
            engine_ok = False
            continue
        rec.ev()
        compared += 1
        good[key] = (ref, rtol, atol)
        rec.c('values_compared_with_reference')
        for o in ops:
            rec.c('op_' + o)
        if vc.shape != ref.shape or not close(vc, ref, rtol, atol):
            viol('configured-formula-value-differs-from-handwritten-reference',
                 f'{key}: configured formula {vc.tolist()} hand-written (reference evaluator) {ref.tolist()} '
                 f'maxrel={maxrel(vc, ref) if vc.shape == ref.shape else "shape"}; catalogs follow={follow}',
                 configuration=key, handwritten=r['ast'])
        # the hand-written formula as a catalog-free biogeme expression, same entry point
        try:
            hw, _ = shared_build.build(r)
            vh = np.asarray(hw.get_value_c(database=db, prepare_ids=True), dtype=float)
        except BaseException as e:  # noqa
            rec.inconc(f'hand-written formula could not be evaluated by the engine: {type(e).__name__} {e}')
            engine_ok = False
            continue
        rec.ev()
        rec.c('values_compared_with_handwritten_expression')
        if vc.shape != vh.shape or not close(vc, vh, 1e-12, 1e-14):
            viol('configured-formula-value-differs-from-handwritten-expression',
                 f'{key}: configured formula {vc.tolist()} hand-written biogeme expression {vh.tolist()}',
                 configuration=key, handwritten=r['ast'])
        if len(rec.samples) < 1:
            rec.sample({'formula_with_choice_nodes': spec['ast'], 'controllers': ctrls, 'configuration': key,
                        'handwritten': r['ast'], 'reference': ref, 'configured_value': vc})
        # helper parameters at the values the helpers give them (no override)
        if override and compared <= 4:
            r0 = M.resolve(spec, cfg, override=False)
            bv0 = {k: v[0] for k, v in r0['betas'].items()}
            j0 = evalast.judge(r0['ast'], r0['data'], bv0, r0['shared'])
            if j0['ok']:
                try:
                    v0 = catalog_values(key, None)
                    rec.ev()
                    rec.c('values_compared_at_initial_values')
                    if not close(v0, j0['value'], rtol, atol):
                        viol('configured-formula-value-at-initial-values-differs',
                             f'{key}: {v0.tolist()} vs {j0["value"].tolist()}', configuration=key)
                except BaseException as e:  # noqa
                    viol(f'configured-formula-evaluation-raises-{type(e).__name__}', f'{key}: {e}')
                    engine_ok = False
                    continue
        # parameters of the configured formula = parameters of the hand-written one
        free = sorted(n for n in M.names_used(r, 'beta') if r['betas'][n][1] == 0)
        try:
            got_free = sorted(expr.get_beta_values())
            rec.ev()
            if got_free != free:
                viol('free-parameters-of-configured-formula-differ-from-handwritten',
                     f'{key}: {got_free} vs {free}', configuration=key)
        except BaseException as e:  # noqa
            viol(f'get_beta_values-raises-{type(e).__name__}', f'{key}: {e}')
        # gradient by name
        if grad_left > 0 and free and 'belongs' not in ops:
            grad_left -= 1
            try:
                gh = hw.get_value_and_derivatives(database=db, prepare_ids=True, aggregation=True, gradient=True,
                                                  hessian=False, bhhh=False, named_results=True)
            except BaseException as e:  # noqa
                # the engine refuses to differentiate the hand-written formula itself: nothing to compare with
                rec.c('handwritten_formula_not_differentiable_by_engine')
                engine_ok = False
                continue
            try:
                try:
                    gc = expr.get_value_and_derivatives(database=db, prepare_ids=True, aggregation=True, gradient=True,
                                                        hessian=False, bhhh=False, named_results=True, betas=override or None)
                except AttributeError as e:
                    if top_is_catalog and 'NoneType' in str(e):
                        rec.c('gradient_skipped_formula_is_a_catalog')
                        gc = None
                    else:
                        raise
                if gc is not None:
                    rec.ev()
                    rec.c('gradients_compared')
                    gcd = {k: float(v) for k, v in gc.gradient.items()}
                    ghd = {k: float(v) for k, v in gh.gradient.items()}
                    if sorted(gcd) != sorted(ghd) or not close([gcd[k] for k in sorted(ghd)], [ghd[k] for k in sorted(ghd)], 1e-10, 1e-12) \
                            or not close(gc.function, gh.function, 1e-12, 1e-13):
                        viol('configured-formula-gradient-differs-from-handwritten-expression',
                             f'{key}: {gcd} vs {ghd}', configuration=key, handwritten=r['ast'])
            except BaseException as e:  # noqa
                viol(f'configured-formula-derivatives-raise-{type(e).__name__}', f'{key}: {type(e).__name__} {e}', configuration=key)
                engine_ok = False
                continue
        # pure-Python evaluator on the data-free version of row 0
        if py_left > 0:
            py_left -= 1
            try:
                if pyexpr is None:
                    s0 = dict(spec)
                    s0['ast'] = _subst_row(spec['ast'], spec['data'], 0)
                    s0['shared'] = [_subst_row(a, spec['data'], 0) for a in spec['shared']]
                    pyexpr, _ = c16_build.build(s0)
                pyexpr.configure_catalogs(Configuration.from_string(key))
                try:
                    pv = pyexpr.get_value()
                    rec.ev()
                    rec.c('python_evaluator_compared')
                    if not close(pv, ref[0], rtol, atol):
                        viol('configured-formula-python-value-differs-from-handwritten-reference',
                             f'{key}: get_value()={pv} reference row 0={ref[0]}', configuration=key)
                except (NotImplementedError, BiogemeError):
                    rec.c('python_evaluator_not_accepting')
            except BaseException as e:  # noqa
                viol(f'python-evaluator-raises-{type(e).__name__}', f'{key}: {type(e).__name__} {e}', configuration=key)
    if compared and NC >= 2:
        rec.key([spec['ast'], spec['shared'], spec['helpers'], spec['data'], spec['betas']])

    # ---- G. BIOGEME.from_configuration; then the same formula object selected elsewhere ---------
    # (on a second, freshly built copy: the monitors above never see an expression a BIOGEME object has touched)
    if good and engine_ok:
        from biogeme.biogeme import BIOGEME
        from biogeme.parameters import Parameters

        def reference0(key):
            r0 = M.resolve(spec, ids[key], override=False)
            bv0 = {k: v[0] for k, v in r0['betas'].items()}
            j0 = evalast.judge(r0['ast'], r0['data'], bv0, r0['shared'])
            if not j0['ok']:
                return None
            free0 = sorted(n for n in M.names_used(r0, 'beta') if r0['betas'][n][1] == 0)
            return j0['value'], free0, _tol(exprs.ops_in(r0['ast'], r0['shared'])), M.names_used(r0, 'beta')

        refs0 = {}
        for key in order:
            if key in good and len(refs0) < 6:
                x = reference0(key)
                if x is not None:
                    refs0[key] = x
        keys0 = list(refs0)
        if keys0:
            ka = keys0[0]
            # prefer a second configuration that has a parameter the first one has not
            kb = next((k for k in keys0[1:] if refs0[k][3] - refs0[ka][3]), keys0[1] if len(keys0) > 1 else None)
            try:
                expr2, _ = c16_build.build(spec)
                ref, free, (rtol, atol), alla = refs0[ka]
                bg = BIOGEME.from_configuration(ka, expr2, db, parameters=Parameters())
                rec.ev()
                rec.c('from_configuration_runs')
                if expr2.current_configuration().get_string_id() != ka:
                    viol('from_configuration-leaves-formula-in-other-configuration',
                         f'{ka} vs {expr2.current_configuration().get_string_id()}')
                if sorted(bg.free_beta_names) != free:
                    viol('from_configuration-free-parameters-differ-from-handwritten', f'{ka}: {bg.free_beta_names} vs {free}')
                else:
                    ll = bg.calculate_init_likelihood()
                    rec.ev()
                    if not close(ll, ref.sum(), rtol * 10, atol * 10 * len(ref) + 1e-12 * np.abs(ref).sum()):
                        viol('from_configuration-likelihood-differs-from-handwritten-reference', f'{ka}: {ll} vs {ref.sum()}',
                             configuration=ka)
                if kb is not None and not top_is_catalog:
                    refb, freeb, (rtol, atol), allb = refs0[kb]
                    expr2.configure_catalogs(Configuration.from_string(kb))
                    rec.c('evaluations_after_BIOGEME_built_in_other_configuration')
                    if allb - alla:
                        rec.c('evaluations_after_BIOGEME_built_in_other_configuration_with_new_parameter')
                    try:
                        vb = np.asarray(expr2.get_value_c(database=db, prepare_ids=True), dtype=float)
                        rec.ev()
                        if not close(vb, refb, rtol, atol):
                            viol('configured-formula-value-differs-after-BIOGEME-built-in-other-configuration',
                                 f'BIOGEME built at {ka}, formula then configured at {kb}: {vb.tolist()} vs {refb.tolist()}')
                    except KeyError as e:
                        viol('direct-evaluation-after-BIOGEME-built-in-other-configuration-raises-KeyError',
                             f'BIOGEME.from_configuration({ka!r}) then configure_catalogs({kb!r}) then '
                             f'get_value_c(database, prepare_ids=True) raised KeyError({e}); parameters of {kb!r} that {ka!r} '
                             f'has not: {sorted(allb - alla)}', first=ka, second=kb)
            except BaseException as e:  # noqa
                viol(f'from_configuration-raises-{type(e).__name__}', f'{ka}: {type(e).__name__} {e}', configuration=ka)

    # ---- E'. select_expression(controller, index) -----------------------------------------------
    try:
        cfg = dict(ids[order[0]])
        expr.configure_catalogs(Configuration.from_dict(cfg))
        for _ in range(min(12, 3 * len(ctrls))):
            k = rng.choice(sorted(ctrls))
            idx = rng.randrange(len(ctrls[k]))
            expr.select_expression(k, idx)
            cfg[k] = ctrls[k][idx]
            rec.c('select_expression_calls')
            check_catalogs_follow(cfg, 'select_expression')
            if expr.current_configuration().get_string_id() != M.config_id(cfg):
                viol('current-configuration-differs-after-select_expression',
                     f'{expr.current_configuration().get_string_id()!r} vs {M.config_id(cfg)!r}')
    except BaseException as e:  # noqa
        viol(f'select_expression-raises-{type(e).__name__}', f'{type(e).__name__}: {e}')

    # ---- F. neighbourhood operators ------------------------------------------------------------
    try:
        cc = expr.central_controller
        operators = cc.prepare_operators()
    except BaseException as e:  # noqa
        viol(f'prepare_operators-raises-{type(e).__name__}', f'{e}')
        return rec.out()
    maxsize = max(len(v) for v in ctrls.values())
    random.seed(f'c16ops/{case.get("seed")}/{case.get("i")}')
    names = list(operators)
    seq = names[:] + [rng.choice(names) for _ in range(max(0, WALK - len(names)))]
    rng.shuffle(seq)
    cur = Configuration.from_dict(ids[rng.choice(sorted(ids))])

    def as_cfg(c):
        d = {s.controller: s.selection for s in c.selections}
        if set(d) != set(ctrls) or len(d) != len(c.selections) or any(d[k] not in ctrls[k] for k in d):
            return None
        return d

    for opname in seq:
        step = rng.randint(1, 2 * maxsize + 1)
        if rng.random() < 0.3:
            # the operator must start from the configuration it is given, wherever the expression currently is
            try:
                expr.configure_catalogs(Configuration.from_dict(ids[rng.choice(sorted(ids))]))
            except BaseException as e:  # noqa
                viol(f'configure_catalogs-raises-{type(e).__name__}', f'{type(e).__name__}: {e}')
                break
        kind = opname.split('_')[0].split(' ')[0]
        kind = {'Increase': 'increase', 'Decrease': 'decrease', 'Pair': 'pair'}.get(kind, kind)
        if opname in ('Increase_several', 'Decrease_several'):
            kind = 'several'
        try:
            res = operators[opname](cur, step)
            new = res[0]
        except BaseException as e:  # noqa
            viol(f'operator-{kind}-raises-{type(e).__name__}', f'{opname}({cur}, {step}) raised {type(e).__name__}: {e}')
            break
        rec.ev()
        rec.c('operator_applications')
        rec.c('operator_kind_' + kind)
        d = as_cfg(new) if isinstance(new, Configuration) else None
        if d is None or new not in S or new.get_string_id() != M.config_id(d):
            viol(f'operator-{kind}-leaves-the-set-of-configurations', f'{opname}({cur}, {step}) -> {new!r}')
            break
        if kind in ('increase', 'decrease'):
            cname = opname.split(' ', 1)[1]
            want = M.move(ctrls, as_cfg(cur), cname, step if kind == 'increase' else -step)
            if d != want:
                viol(f'operator-{kind}-does-not-move-one-controller-by-step',
                     f'{opname}({cur}, {step}) -> {new}, expected {M.config_id(want)}')
                break
        cur = new
    # increase then decrease by the same step (and the other way round) is the identity
    starts = sorted(ids)
    if len(starts) > 12:
        starts = rng.sample(starts, 12)
    done = False
    for cname in sorted(ctrls):
        for step in range(1, 2 * len(ctrls[cname]) + 2):
            for key in starts:
                c0 = Configuration.from_dict(ids[key])
                try:
                    up, _ = cc.increased_controller(cname, c0, step)
                    back, _ = cc.decreased_controller(cname, up, step)
                    dn, _ = operators[f'Decrease {cname}'](c0, step)
                    back2, _ = operators[f'Increase {cname}'](dn, step)
                except BaseException as e:  # noqa
                    viol(f'operator-inverse-raises-{type(e).__name__}', f'{cname} step {step} from {key}: {e}')
                    done = True
                    break
                rec.ev(2)
                rec.c('inverse_pairs_checked', 2)
                if not (back == c0) or back.get_string_id() != key or not (back2 == c0):
                    viol('increase-then-decrease-does-not-return',
                         f'controller {cname!r} step {step} from {key!r}: up {up} back {back}; down {dn} back {back2}')
                    done = True
                    break
                if len(ctrls[cname]) > 1 and step % len(ctrls[cname]) != 0 and (up == c0):
                    viol('operator-increase-does-not-move-one-controller-by-step', f'{cname} step {step} from {key}: unchanged')
                    done = True
                    break
            if done:
                break
        if done:
            break

    # ---- H. histories: the state of the controllers after ANY sequence of requests ---------------
    # model = controller name -> alternative (plain dict, updated by the documented effect of each step); after every
    # step the catalogs (and, when they are looked at, current_configuration and the value) must be at the model state.
    # current_configuration() is not consulted after every step on purpose: reading the configuration is itself a
    # request to the central controller and could repair what the previous step broke.
    from biogeme.expressions import Numeric, NamedExpression

    ctrl_objs = {}
    for c in cats:
        ctrl_objs.setdefault(c['ctrl'], c['obj'].controlled_by)
    cnames = sorted(ctrls)
    refcache = dict(good)

    def reference_for(key):
        if key not in refcache:
            r = M.resolve(spec, ids[key])
            bvv = {k: v[0] for k, v in r['betas'].items()}
            j = evalast.judge(r['ast'], r['data'], bvv, r['shared'])
            refcache[key] = (j['value'],) + _tol(exprs.ops_in(r['ast'], r['shared'])) if j['ok'] else None
        return refcache[key]

    def clamp_move(name, cur, step, circular):
        specs = ctrls[name]
        i = specs.index(cur) + step
        return specs[i % len(specs)] if circular else specs[min(max(i, 0), len(specs) - 1)]

    for sq in range(HIST_SEQ[tier]):
        hr = random.Random(f'c16hist/{case.get("seed")}/{case.get("i")}/{case.get("k")}/{case["mode"]}/{sq}')
        try:
            model = dict(ids[hr.choice(order)])
            expr.configure_catalogs(Configuration.from_dict(model))
            # a second formula whose catalogs are governed by (some of) the same Controller objects; its value
            # encodes the alternative of each of its controllers: sum_j (index_j + 1) * 10**j
            K2 = hr.sample(cnames, hr.randint(1, len(cnames)))
            cats2 = []
            f2 = Numeric(0.0)
            for jx, k in enumerate(K2):
                c2 = Catalog(f'h2_{sq}_{jx}', [NamedExpression(sn, Numeric(float((ix + 1) * 10 ** jx)))
                                              for ix, sn in enumerate(ctrls[k])], controlled_by=ctrl_objs[k])
                cats2.append((c2, k))
                f2 = f2 + c2
            cc2 = CentralController(expr, maximum_number_of_configurations=1000000)
        except BaseException as e:  # noqa
            viol(f'history-setup-raises-{type(e).__name__}', f'{type(e).__name__}: {e}')
            break
        requested = [dict(model)]
        last = {'f1': dict(model), 'f2': None}
        observe = hr.choice(['always', 'never', 'random', 'random'])
        L = hr.randint(3, 12)
        trace = [('configure', M.config_id(model))]
        foreign = False  # the previous step moved controllers by another path than expr.configure_catalogs
        rec.c('histories_run')
        dead = False
        for t in range(L):
            kind = hr.choices(['configure', 'select', 'direct', 'operator', 'failed', 'second'], [30, 12, 15, 15, 10, 18])[0]
            if foreign and hr.random() < 0.6:
                kind = 'configure-again'
            try:
                if kind in ('configure', 'configure-again'):
                    if kind == 'configure-again':
                        target = dict(last['f1'])
                    elif hr.random() < 0.5:
                        target = dict(hr.choice(requested))
                        kind = 'configure-earlier'
                    else:
                        target = dict(ids[hr.choice(order)])
                    items = list(target.items())
                    hr.shuffle(items)
                    expr.configure_catalogs(Configuration.from_dict(dict(items)))
                    model = dict(target)
                    requested.append(dict(target))
                    last['f1'] = dict(target)
                    trace.append((kind, M.config_id(target)))
                    foreign = False
                elif kind == 'select':
                    k = hr.choice(cnames)
                    idx = hr.randrange(len(ctrls[k]))
                    (expr if hr.random() < 0.7 else f2 if k in K2 else expr).select_expression(k, idx)
                    model[k] = ctrls[k][idx]
                    trace.append(('select_expression', k, idx))
                    foreign = True
                elif kind == 'direct':
                    k = hr.choice(cnames)
                    co = ctrl_objs[k]
                    how = hr.choice(['set_index', 'set_name', 'modify_circular', 'modify_clamped', 'reset_selection'])
                    if how == 'set_index':
                        idx = hr.randrange(len(ctrls[k]))
                        co.set_index(idx)
                        model[k] = ctrls[k][idx]
                    elif how == 'set_name':
                        nm = hr.choice(ctrls[k])
                        co.set_name(nm)
                        model[k] = nm
                    elif how == 'reset_selection':
                        co.reset_selection()
                        model[k] = ctrls[k][0]
                    else:
                        st = hr.choice([-3, -2, -1, 1, 2, 3])
                        circ = how == 'modify_circular'
                        co.modify_controller(step=st, circular=circ)
                        model[k] = clamp_move(k, model[k], st, circ)
                    kind = 'direct-' + how
                    trace.append((kind, k))
                    foreign = True
                elif kind == 'operator':
                    which = hr.choice(['own', 'second-central-controller'])
                    the_cc = expr.central_controller if which == 'own' else cc2
                    start = dict(model) if hr.random() < 0.5 else dict(hr.choice(requested + [ids[hr.choice(order)]]))
                    c0 = Configuration.from_dict(start)
                    st = hr.randint(1, 2 * maxsize + 1)
                    ok_ = hr.choice(['increase', 'decrease', 'pair', 'several']) if len(cnames) > 1 else hr.choice(['increase', 'decrease', 'several'])
                    if ok_ == 'increase':
                        k = hr.choice(cnames)
                        res, _ = the_cc.increased_controller(k, c0, st)
                        want = M.move(ctrls, start, k, st)
                    elif ok_ == 'decrease':
                        k = hr.choice(cnames)
                        res, _ = the_cc.decreased_controller(k, c0, st)
                        want = M.move(ctrls, start, k, -st)
                    elif ok_ == 'pair':
                        k1, k2 = hr.sample(cnames, 2)
                        dr = hr.choice(['NE', 'NW', 'SE', 'SW'])
                        res, _ = the_cc.two_controllers(k1, k2, dr, c0, st)
                        want = M.move(ctrls, start, k1, st if dr[1] == 'E' else -st)
                        want = M.move(ctrls, want, k2, st if dr[0] == 'N' else -st)
                    else:
                        res, _ = the_cc.modify_random_controllers(hr.random() < 0.5, c0, st)
                        want = None
                    kind = f'operator-{ok_}-{which}'
                    trace.append((kind, M.config_id(start), st))
                    got = as_cfg(res) if isinstance(res, Configuration) else None
                    rec.c('history_operator_applications')
                    if got is None or res not in S:
                        viol(f'history-operator-{ok_}-leaves-the-set-of-configurations', f'{trace} -> {res!r}', trace=trace)
                        break
                    if want is not None and got != want:
                        viol(f'history-operator-{ok_}-returns-wrong-neighbour',
                             f'after {trace}: operator applied to {M.config_id(start)!r} with step {st} returned '
                             f'{res.get_string_id()!r}, expected {M.config_id(want)!r}', trace=trace)
                        break
                    model = dict(got)
                    if which == 'own':
                        last['f1'] = dict(got)
                    foreign = which != 'own'
                elif kind == 'failed':
                    how = hr.choice(['incomplete', 'unknown-controller', 'unknown-alternative'])
                    bad = dict(ids[hr.choice(order)])
                    if how == 'incomplete':
                        for k in hr.sample(cnames, hr.randint(1, len(cnames))):
                            del bad[k]
                    elif how == 'unknown-controller':
                        bad[hr.choice(['zzz_nobody', 'A_nobody', 'm_nobody'])] = 'x'
                    else:
                        bad[hr.choice(cnames)] = 'no such alternative'
                    kind = 'failed-' + how
                    trace.append((kind, M.config_id(bad)))
                    try:
                        expr.configure_catalogs(Configuration.from_dict(bad))
                        rec.c('history_invalid_configuration_accepted_' + how)
                    except BiogemeError:
                        rec.c('history_invalid_configuration_refused')
                    # what a refused request leaves behind is not specified: the model is re-read from the catalogs
                    # (Catalog.selected_name, no central controller involved)
                    st_, raw = observed_state()
                    if any(v is None or v not in ctrls[k] for k, v in st_.items()):
                        viol('history-catalogs-of-one-controller-disagree-after-refused-configuration',
                             f'{ {k: sorted(v) for k, v in raw.items()} }', trace=trace)
                        break
                    model = dict(st_)
                    foreign = True
                else:
                    if last['f2'] is not None and hr.random() < 0.4:
                        t2 = dict(last['f2'])
                    else:
                        t2 = {k: hr.choice(ctrls[k]) for k in K2}
                    f2.configure_catalogs(Configuration.from_dict(t2))
                    model.update(t2)
                    last['f2'] = dict(t2)
                    kind = 'second-formula-configure'
                    trace.append((kind, M.config_id(t2)))
                    foreign = True
            except BaseException as e:  # noqa
                viol(f'history-step-{kind}-raises-{type(e).__name__}', f'after {trace}: {type(e).__name__}: {e}', trace=trace)
                break
            # ---- judge the state after this step
            rec.c('history_steps')
            rec.c('history_step_' + kind.split('-')[0])
            key = M.config_id(model)
            wrong = [(c['obj'].name, c['obj'].selected_name(), model[c['ctrl']]) for c in cats
                     if c['obj'].selected_name() != model[c['ctrl']]]
            rec.ev(len(cats))
            if wrong:
                viol('history-catalog-not-at-requested-alternative',
                     f'after {trace}: (catalog, selected, expected) {wrong[:4]}; expected state {key!r}', trace=trace)
                break
            wrong2 = [(c2.name, c2.selected_name(), model[k]) for c2, k in cats2 if c2.selected_name() != model[k]]
            try:
                v2 = f2.get_value()
                e2 = sum((ctrls[k].index(model[k]) + 1) * 10 ** jx for jx, k in enumerate(K2))
                rec.ev()
                if wrong2 or abs(v2 - e2) > 1e-9:
                    viol('history-second-formula-not-at-requested-alternative',
                         f'after {trace}: {wrong2[:4]}; value {v2} expected {e2}', trace=trace)
                    break
            except BaseException as e:  # noqa
                viol(f'history-second-formula-value-raises-{type(e).__name__}', f'after {trace}: {e}', trace=trace)
                break
            if engine_ok:
                rf = reference_for(key)
                if rf is not None:
                    try:
                        vc = catalog_values(key, override or None)
                        rec.ev()
                        rec.c('history_values_compared')
                        if vc.shape != rf[0].shape or not close(vc, rf[0], rf[1], rf[2]):
                            viol('history-value-differs-from-handwritten-for-requested-configuration',
                                 f'after {trace}: value {vc.tolist()} hand-written formula of {key!r}: {rf[0].tolist()}', trace=trace)
                            break
                    except BaseException as e:  # noqa
                        viol(f'history-evaluation-raises-{type(e).__name__}', f'after {trace}: {type(e).__name__}: {e}', trace=trace)
                        engine_ok = False
                        break
            if observe == 'always' or (observe == 'random' and hr.random() < 0.4) or t == L - 1:
                try:
                    cur1 = expr.current_configuration().get_string_id()
                    cur2 = f2.current_configuration().get_string_id()
                    rec.ev(2)
                    rec.c('history_current_configuration_read')
                    if cur1 != key or cur2 != M.config_id({k: model[k] for k in K2}):
                        viol('history-current-configuration-differs-from-requested',
                             f'after {trace}: {cur1!r} / {cur2!r}, expected {key!r}', trace=trace)
                        break
                except BaseException as e:  # noqa
                    viol(f'history-current_configuration-raises-{type(e).__name__}', f'after {trace}: {e}', trace=trace)
                    break
    return rec.out()


def finalize(cov, tier):
    out = []
    need = ['cases_with_controller_shared_by_several_catalogs', 'cases_with_nested_catalogs', 'cases_formula_is_a_catalog',
            'catalogs_from_segmentation_catalogs', 'catalogs_from_generic_alt_specific_catalogs',
            'catalogs_from_generic_alt_specific_catalogs/segmentation', 'catalogs_from_Catalog',
            'values_compared_with_reference', 'values_compared_with_handwritten_expression', 'gradients_compared',
            'iterations_run', 'subset_iterations_run', 'from_configuration_runs', 'python_evaluator_compared',
            'operator_kind_increase', 'operator_kind_decrease', 'operator_kind_pair', 'operator_kind_several',
            'inverse_pairs_checked', 'select_expression_calls', 'spaces_above_default_bound', 'controllers_1', 'controllers_2',
            'controllers_3', 'controllers_4', 'values_compared_at_initial_values', 'histories_run', 'history_values_compared',
            'history_step_configure', 'history_step_select', 'history_step_direct', 'history_step_operator', 'history_step_failed',
            'history_step_second', 'history_current_configuration_read', 'history_invalid_configuration_refused']
    for k in need:
        if cov.get(k, 0) == 0:
            out.append(f'monitor / structure never observed: {k}')
    ops = [k for k in cov if k.startswith('op_')]
    cov['distinct_operator_kinds_in_compared_formulas'] = len(ops)
    for k in ops:
        del cov[k]
    return out
