#!/bin/bash
# Build sanitizer-instrumented copies of the pinned cythonbiogeme engine from the
# sources shipped inside the installed wheel. Usage: engine/build.sh asan|tsan|all
# Output: /verif/.build/{asan,tsan}/pkg/cythonbiogeme/*.so, /verif/.build/pylaunch_tsan
set -u
HERE="$(cd "$(dirname "$0")" && pwd)"
ROOT="$(dirname "$HERE")"
OUT="$ROOT/.build"
PY=/venv/bin/python
SRC=$($PY -c "import cythonbiogeme,os;print(os.path.dirname(cythonbiogeme.__file__))")
CPP="$SRC/cpp"
PYINC=$($PY -c "import sysconfig;print(sysconfig.get_paths()['include'])")
NPINC=$($PY -c "import numpy;print(numpy.get_include())")
EXT=$($PY -c "import sysconfig;print(sysconfig.get_config_var('EXT_SUFFIX'))")
PYLIBDIR=$($PY -c "import sysconfig;print(sysconfig.get_config_var('LIBDIR'))")
JOBS=${JOBS:-16}

build_one() {
  kind=$1; flags=$2
  dest="$OUT/$kind"
  obj="$dest/obj"
  pkg="$dest/pkg/cythonbiogeme"
  if ls "$pkg"/cythonbiogeme*.so >/dev/null 2>&1; then echo "$kind: cached"; return 0; fi
  mkdir -p "$obj" "$pkg"
  files=$(ls "$CPP"/*.cc | grep -v -e '/main.cc' -e '_current.cc' -e mycfsqp -e myqld -e bioCfsqp -e bioExprNormalPdf -e bioExprSum)
  cyt=$(ls "$SRC"/cythonbiogeme.cpp "$CPP"/cythonbiogeme.cpp 2>/dev/null | head -1)
  if [ -z "$cyt" ]; then cyt=$(find "$SRC" -name 'cythonbiogeme.cpp' | head -1); fi
  if [ -z "$cyt" ]; then echo "no cython module source"; return 1; fi
  printf '%s\n' $files "$cyt" | xargs -P "$JOBS" -I{} sh -c \
    'o="'"$obj"'/$(basename {}).o"; clang++ -std=c++17 -O1 -g -fno-omit-frame-pointer -fPIC '"$flags"' -DNPY_NO_DEPRECATED_API=NPY_1_7_API_VERSION -I"'"$CPP"'" -I"'"$SRC"'" -I"'"$PYINC"'" -I"'"$NPINC"'" -c {} -o "$o" 2>>"'"$dest"'/build.log" || echo FAIL {}'
  clang++ -shared $flags -o "$pkg/cythonbiogeme$EXT" "$obj"/*.o -lpthread 2>>"$dest/build.log" || { echo "$kind: link failed"; return 1; }
  cp "$SRC/__init__.py" "$pkg/" 2>/dev/null || touch "$pkg/__init__.py"
  rm -rf "$obj"
  echo "$kind: built"
}

case "${1:-all}" in
  asan) build_one asan "-fsanitize=address,undefined -fno-sanitize=vptr" ;;
  tsan) build_one tsan "-fsanitize=thread"
        clang -fsanitize=thread -O1 -g -I"$PYINC" "$HERE/pylaunch.c" -o "$OUT/pylaunch_tsan" -L"$PYLIBDIR" -lpython3.12 -Wl,-rpath,"$PYLIBDIR" -lpthread -ldl -lm 2>>"$OUT/tsan/build.log" || echo "launcher failed" ;;
  all) "$0" asan; "$0" tsan ;;
esac
