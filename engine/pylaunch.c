/* Embedding launcher so that the interpreter itself starts under TSan
   (preloading libtsan into the stock interpreter segfaults in this sandbox). */
#include <Python.h>
int main(int argc, char **argv) { return Py_BytesMain(argc, argv); }
