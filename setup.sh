#!/bin/bash
# Offline, idempotent setup: third-party monitor libraries beside the repo's interpreter
# and the sanitizer builds of the pinned engine. Nothing is fetched.
cd "$(dirname "$0")"
export PIP_NO_INDEX=1
if [ ! -d .deps/icontract ]; then
  /venv/bin/pip install -q --no-index --find-links /opt/veriftools/wheels --target .deps icontract deal >/dev/null 2>&1 \
    || echo "setup: icontract/deal install failed (contract monitors will report inconclusive)"
fi
bash engine/build.sh all || echo "setup: sanitizer engine build failed (sanitizer sub-checks will report inconclusive)"
mkdir -p evidence .work
exit 0
